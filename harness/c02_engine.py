import os, sys
sys.path.insert(0, os.path.dirname(os.path.abspath(__file__)))
from engine_checks import *  # noqa
if __name__ == "__main__":
    standard_main("C02", run_c02)
