"""C19 — hierarchical path/id cache coherence (cloudsync/hierarchical_cache.py).

Correspondence: the real HierarchicalCache (over a case-sensitive and a case-insensitive MockProvider) against the
Lean driver layer `hcache` (Model/HCache.lean): every operation sequence of length <= 2 (quick) / <= 3 (thorough),
explored with state de-duplication, plus seeded random sequences of length <= 12; after every operation the result /
exception class, a structural dump of the node tree (keys, names, types, ids, parent links), the id map and all
public getters over the paths and ids the sequence can touch are compared, together with the coherence flag and the
theorem's guard (target is not the root path, id is not the root's own id) evaluated on both sides.
Known findings (caller misuse outside the guard) and fixed entries are replayed on the real class on every run; a fixed
entry that fails again is a VIOLATION.
Search oracle (only after a break): the coherence predicate evaluated on the real object after every guarded
operation of generated sequences, plus comparison of the outcome and of all getters with the Lean dictionary
specification (Model/HDict.lean, proved refined by the cache: `hcache_refines_dict`) executed through the driver layer `dict`."""
import hashlib
import itertools
import json
import multiprocessing
import os
import sys

sys.path.insert(0, os.path.dirname(os.path.abspath(__file__)))
from common import *  # noqa

PID = "C19"
FP_SPEC = {"cloudsync/hierarchical_cache.py": [
    "Node.__init__", "Node.check", "Node.full_path", "Node._full_path_nodes", "Node.add_child",
    "HierarchicalCache.__init__", "HierarchicalCache._check", "HierarchicalCache._new_node", "HierarchicalCache.update",
    "HierarchicalCache._update", "HierarchicalCache.__insert_node", "HierarchicalCache.__make_node", "HierarchicalCache._walk",
    "HierarchicalCache.walk", "HierarchicalCache.listdir", "HierarchicalCache.mkdir", "HierarchicalCache._mkdir",
    "HierarchicalCache.create", "HierarchicalCache._create", "HierarchicalCache.delete", "HierarchicalCache._delete",
    "HierarchicalCache._split", "HierarchicalCache.rename", "HierarchicalCache._rename", "HierarchicalCache._path_is_root",
    "HierarchicalCache._unsafe_path_to_node", "HierarchicalCache._get_node", "HierarchicalCache.set_oid",
    "HierarchicalCache._set_oid", "HierarchicalCache.get_oid", "HierarchicalCache.get_path", "HierarchicalCache.get_type"]}

NAMES = ["a", "b", "A"]
STD_PATHS = ["/" + x for x in NAMES] + ["/%s/%s" % (x, y) for x in NAMES for y in NAMES]
OID = {0: "", 1: "1", 2: "2", 3: "3", 9: "R"}          # wire number -> real id (0 = the falsy id, 9 = the root's id)
OIDR = {v: k for k, v in OID.items()}
PROBE_PATHS = ["/"] + STD_PATHS + ["/a/b/A", "\\a\\b/"]
PROBE_IDS = [1, 2, 3, 9, 0]
DEPTH_FUEL = 40
NPROC = max(1, min(16, (os.cpu_count() or 2)))

_ctx = {}


def ctx():
    """per-process lazily initialised real classes and the two providers"""
    if not _ctx:
        import_repo()
        from cloudsync.hierarchical_cache import HierarchicalCache
        from cloudsync.providers.mock import MockProvider
        from cloudsync import DIRECTORY, FILE
        # delete(oid=<root id>) on a cache in which another node carries the root's id recurses until Python's limit;
        # the sequences here need a depth of a few dozen frames, so a low limit only makes that failure cheap
        sys.setrecursionlimit(300)
        _ctx.update(HC=HierarchicalCache, prov={True: MockProvider(False, True), False: MockProvider(False, False)},
                    T={"F": FILE, "D": DIRECTORY}, TR={FILE: "F", DIRECTORY: "D"})
    return _ctx


def new_cache(cs):
    c = ctx()
    return c["HC"](c["prov"][cs], "R")


# ------------------------------------------------------------------ wire

def e_oid(o):
    return "~" if o is None else str(o)


def op_line(op):
    k = op[0]
    if k in ("mkdir", "create"):
        return "%s %s %s" % (k, enc_str(op[1]), e_oid(op[2]))
    if k == "delete":
        return "delete %s %s" % (e_oid(op[1]), enc_str(op[2]))
    if k == "rename":
        return "rename %s %s" % (enc_str(op[1]), enc_str(op[2]))
    if k == "setoid":
        return "setoid %s %s %s" % (enc_str(op[1]), e_oid(op[2]), op[3])
    if k == "update":
        return "update %s %s %s" % (enc_str(op[1]), op[2], e_oid(op[3]))
    raise HarnessError("bad op %r" % (op,))


def op_text(op):
    """human readable form (for replays)"""
    ro = lambda o: None if o is None else OID[o]
    k = op[0]
    if k in ("mkdir", "create"):
        return "%s(%r, %r)" % (k, op[1], ro(op[2]))
    if k == "delete":
        return "delete(oid=%r, path=%r)" % (ro(op[1]), op[2])
    if k == "rename":
        return "rename(%r, %r)" % (op[1], op[2])
    if k == "setoid":
        return "set_oid(%r, %r, %s)" % (op[1], ro(op[2]), "FILE" if op[3] == "F" else "DIRECTORY")
    return "update(%r, %s, oid=%r)" % (op[1], "FILE" if op[2] == "F" else "DIRECTORY", ro(op[3]))


def real_oid(o):
    return None if o is None else OID[o]


def apply_real(cache, op):
    T = ctx()["T"]
    k = op[0]
    try:
        if k == "mkdir":
            cache.mkdir(op[1], real_oid(op[2]))
        elif k == "create":
            cache.create(op[1], real_oid(op[2]))
        elif k == "delete":
            cache.delete(oid=real_oid(op[1]), path=op[2])
        elif k == "rename":
            cache.rename(op[1], op[2])
        elif k == "setoid":
            cache.set_oid(op[1], real_oid(op[2]), T[op[3]])
        elif k == "update":
            cache.update(op[1], T[op[2]], oid=real_oid(op[3]))
        else:
            raise HarnessError("bad op")
        return "ok"
    except HarnessError:
        raise
    except Exception as e:  # noqa
        return "!" + type(e).__name__


# ------------------------------------------------------------------ dump of the real object

def w_oid(o):
    if o is None:
        return "~"
    return str(OIDR[o]) if o in OIDR else "?" + repr(o)


def w_type(t):
    return "~" if t is None else ctx()["TR"].get(t, "?")


def w_list(items):
    return "[" + ",".join(items) + "]"


def dump_tree(node, key, par, fuel):
    if fuel == 0:
        return "!"
    p = node.parent
    flag = "n" if p is None else ("p" if p is par else "x")
    hdr = "%s:%s:%s:%s:%s%s" % (key, enc_str(node.name), w_type(node.type), w_oid(node._oid), flag, "r" if node.is_root else "")
    return hdr + w_list([dump_tree(ch, enc_str(k), node, fuel - 1) for k, ch in node.children.items()])


def reach_list(node, kp, fuel, out):
    if fuel == 0:
        return
    out.append((node, kp))
    for k, ch in node.children.items():
        reach_list(ch, kp + [enc_str(k)], fuel - 1, out)


def dump_idmap(cache):
    rl = []
    reach_list(cache._root, [], DEPTH_FUEL, rl)
    first = {}
    for n, kp in rl:
        first.setdefault(id(n), kp)
    items = []
    for o, n in sorted(cache._oid_to_node.items(), key=lambda kv: OIDR.get(kv[0], 99)):
        loc = "/" + "/".join(first[id(n)]) if id(n) in first else "?" + enc_str(n.name)
        items.append("%s>%s" % (w_oid(o), loc))
    return w_list(items)


def guarded(f, enc):
    try:
        return enc(f())
    except Exception as e:  # noqa
        return "!" + type(e).__name__


def dump_getters(cache, probe_paths):
    eo = lambda s: "~" if s is None else enc_str(s)
    per_path = []
    for p in probe_paths:
        per_path.append(";".join([
            guarded(lambda: cache.get_oid(p), w_oid),
            guarded(lambda: cache.get_type(path=p), w_type),
            guarded(lambda: cache.listdir(path=p), lambda l: w_list([enc_str(x) for x in l]))]))
    per_id = []
    for n in PROBE_IDS:
        o = OID[n]
        per_id.append(";".join([
            guarded(lambda: cache.get_path(o), eo),
            guarded(lambda: cache.get_type(oid=o), w_type),
            guarded(lambda: cache.listdir(oid=o), lambda l: w_list([enc_str(x) for x in l])),
            guarded(lambda: list(cache.walk(oid=o)), lambda l: w_list([eo(x) for x in l]))]))
    return " ".join(per_path) + " | " + " ".join(per_id) + " | " + guarded(lambda: list(cache.walk()), lambda l: w_list([eo(x) for x in l]))


def clean_name(cs, k):
    return bool(k) and "/" not in k and "\\" not in k and (cs or k == k.lower())


def coherent_real(cache, cs):
    """The coherence predicate of Props/C19.lean (`Coherent`) evaluated on the real object.
    Returns None when coherent, else a reason."""
    rl = []
    reach_list(cache._root, [], DEPTH_FUEL, rl)
    nodes = [n for n, _ in rl]
    ids = [id(n) for n in nodes]
    if len(set(ids)) != len(ids):
        return "a node is reachable along two paths (sharing or cycle)"
    if len(ids) >= DEPTH_FUEL:
        return "tree deeper/larger than the probe bound"
    r = cache._root
    if not r.is_root or r.parent is not None or w_type(r.type) != "D":
        return "root record damaged"
    for n in nodes:
        if n is not r and n.is_root:
            return "second root flag"
        if w_type(n.type) != "D" and n.children:
            return "file node with children"
        for k, ch in n.children.items():
            if ch.parent is not n:
                return "child %r of %r has a different parent link" % (k, n.name)
            if ch.name != k:
                return "child key %r != child name %r" % (k, ch.name)
            if not clean_name(cs, k):
                return "child key %r is not a normalised path component" % (k,)
    idset = set(ids)
    for o, n in cache._oid_to_node.items():
        if id(n) not in idset:
            return "id map entry %r points to an unreachable node %r" % (o, n.name)
        if n._oid != o or not o:
            return "id map entry %r points to a node whose id is %r" % (o, n._oid)
    for n in nodes:
        if n._oid and cache._oid_to_node.get(n._oid) is not n:
            return "reachable node %r has id %r but the id map says otherwise (missing, or the id is held twice)" % (n.name, n._oid)
    return None


def comps_real(cs, path):
    prov = ctx()["prov"][cs]
    return [x for x in prov.normalize_path(path).split("/") if x]


def insert_safe_real(cache, cs, path, oid):
    """guard of the theorem: the target is not the root and the id being assigned is not the root's own id"""
    if not comps_real(cs, path):
        return False
    o = real_oid(oid)
    if o and o == cache._root._oid:
        return False
    return True


def op_safe_real(cache, cs, op):
    k = op[0]
    if k in ("mkdir", "create", "setoid"):
        return insert_safe_real(cache, cs, op[1], op[2])
    if k == "update":
        return insert_safe_real(cache, cs, op[1], op[3])
    if k == "rename":
        return bool(comps_real(cs, op[2]))
    return True


def real_line(cache, cs, res, safe, probe_paths):
    coh = coherent_real(cache, cs) is None
    return "%s # C=%s S=%s # %s # %s # %s" % (res, enc_bool(coh), enc_bool(safe), dump_tree(cache._root, "^", None, DEPTH_FUEL),
                                              dump_idmap(cache), dump_getters(cache, probe_paths))


def reset_line(cs, probe_paths):
    return "reset %s 9 %s %s" % (enc_bool(cs), ",".join(enc_str(p) for p in probe_paths), ",".join(str(i) for i in PROBE_IDS))


_SWAP = str.maketrans("aA", "Aa")


EXTRA_PROBES = ["\\a\\b/", "/b/A"]


def probe_for(ops, extra=()):
    """probe universe of a sequence: the root, every path the sequence mentions, their parents, and the a<->A case
    variants of those, plus `extra` (anything else is seen by walk() and the structural dump)"""
    out = ["/"] + list(extra)
    for op in ops:
        for x in op[1:]:
            if isinstance(x, str) and x.startswith("/"):
                par = x.rsplit("/", 1)[0]
                for q in (x, par, x.translate(_SWAP), par.translate(_SWAP)):
                    if q and q not in out:
                        out.append(q)
    return out


# ------------------------------------------------------------------ generators

def alphabet(paths, ids):
    ops = []
    for p in paths:
        for o in [None] + ids:
            ops.append(("mkdir", p, o))
            ops.append(("create", p, o))
        ops.append(("delete", None, p))
        for q in paths:
            ops.append(("rename", p, q))
        for o in ids:
            for t in "FD":
                ops.append(("setoid", p, o, t))
        for t in "FD":
            for o in [None] + ids:
                ops.append(("update", p, t, o))
    for o in ids:
        ops.append(("delete", o, None))
    return ops


FULL_ALPHA = alphabet(STD_PATHS, [1, 2, 3])
SMALL_ALPHA = alphabet(["/a", "/A", "/a/b", "/a/A", "/b/a"], [1, 2])

RAW_VARIANTS = ["/", "//a//b", "\\a\\b", "/a/", "/A/B/", "a", "a/b", "/a/b/a", "/a/b/A", "/b/a/b", "/A/a/b", "/a/b/a/b", "", "/b\\A"]


def rand_path(rng, exotic):
    if not exotic or rng.random() < 0.7:
        return rng.choice(STD_PATHS)
    return rng.choice(RAW_VARIANTS)


def rand_oid(rng, exotic, none_ok=True):
    r = rng.random()
    if none_ok and r < 0.2:
        return None
    if not exotic or r < 0.85:
        return rng.choice([1, 2, 3])
    if r < 0.91:
        return 9
    return 0


def rand_op(rng, exotic=False):
    r = rng.random()
    P = lambda: rand_path(rng, exotic)
    if r < 0.2:
        return ("mkdir", P(), rand_oid(rng, exotic))
    if r < 0.36:
        return ("create", P(), rand_oid(rng, exotic))
    if r < 0.5:
        m = rng.random()
        if m < 0.55:
            return ("delete", None, P())
        if m < 0.9 or not exotic:
            return ("delete", rand_oid(rng, exotic, False), None)
        if m < 0.97:
            return ("delete", rand_oid(rng, exotic, False), P())
        return ("delete", None, None)
    if r < 0.7:
        return ("rename", P(), P())
    if r < 0.84:
        return ("setoid", P(), rand_oid(rng, exotic, exotic and rng.random() < 0.2), rng.choice("FD"))
    return ("update", P(), rng.choice("FD"), rand_oid(rng, exotic))


def rand_seq(rng):
    """85% of the sequences stay inside the property's alphabet (names a,b,A; depth <= 2; ids 1,2,3 or None); the rest
    mix in the root path, unnormalised spellings, depth 3-4, the root's id and the empty id"""
    exotic = rng.random() < 0.15
    return [rand_op(rng, exotic) for _ in range(rng.randint(1, 12))]


def canon_ids(ops):
    """True when the ids of the sequence appear in first-occurrence order 1,2,3 (quick tier enumerates sequences
    up to renaming of ids; the cache only ever compares ids for equality)"""
    nxt = 1
    for op in ops:
        o = op[2] if op[0] in ("mkdir", "create", "setoid") else (op[1] if op[0] == "delete" else (op[3] if op[0] == "update" else None))
        if o is None:
            continue
        if o > nxt:
            return False
        if o == nxt:
            nxt += 1
    return True


# ------------------------------------------------------------------ differential execution of a batch

def run_batch(batch):
    """batch: list of (cs, ops, last_only).  Returns stats dict incl. disagreements."""
    lines, reals, owner = [], [], []
    stats = {"ops": 0, "seqs": len(batch), "dumps": 0, "op_hist": {}, "res_hist": {}, "truncated": 0, "unguarded_ops": 0,
             "incoherent_after_unguarded": 0, "len_hist": {}, "distinct": set(), "disagreements": [], "samples": []}
    for si, (cs, ops, last_only) in enumerate(batch):
        cache = new_cache(cs)
        probe = probe_for(ops) if last_only else probe_for(ops, EXTRA_PROBES)
        lines.append(reset_line(cs, probe))
        reals.append("ok")
        owner.append((si, -1))
        stats["len_hist"][len(ops)] = stats["len_hist"].get(len(ops), 0) + 1
        for oi, op in enumerate(ops):
            quiet = last_only and oi < len(ops) - 1
            safe = True if quiet else op_safe_real(cache, cs, op)
            res = apply_real(cache, op)
            stats["ops"] += 1
            stats["op_hist"][op[0]] = stats["op_hist"].get(op[0], 0) + 1
            stats["res_hist"][res] = stats["res_hist"].get(res, 0) + 1
            if quiet:
                lines.append("q " + op_line(op))
                reals.append(res)
            else:
                lines.append(op_line(op))
                rl = real_line(cache, cs, res, safe, probe)
                reals.append(rl)
                stats["dumps"] += 1
            owner.append((si, oi))
            if not quiet and " # C=F " in rl:
                # the implementation has left the coherent states: nothing is claimed (or compared) beyond this
                # operation; the model must have left them at the same operation or the lines differ
                if oi < len(ops) - 1:
                    stats["truncated"] += 1
                break
    model = run_driver("hcache", lines) if lines else []
    dead = -1
    finals = {}
    for i, (r, m) in enumerate(zip(reals, model)):
        si, oi = owner[i]
        if oi < 0:
            continue
        if si == dead:
            continue
        cs, ops, last_only = batch[si]
        if r != m:
            stats["disagreements"].append({"case_sensitive": cs, "ops": [op_text(o) for o in ops[:oi + 1]],
                                           "ops_wire": [op_line(o) for o in ops[:oi + 1]],
                                           "implementation": r, "model": m})
            dead = si
            continue
        parts = m.split(" # ")
        if len(parts) >= 3:
            flags = parts[1]
            key = hashlib.md5((parts[2] + "#" + parts[3]).encode()).digest()[:8]
            stats["distinct"].add(key)
            if oi == len(ops) - 1:
                finals[si] = (key, "C=T" in flags)
            if "S=F" in flags:
                stats["unguarded_ops"] += 1
                if "C=F" in flags:
                    stats["incoherent_after_unguarded"] += 1
            if "C=F" in flags:
                # the model has left the coherent states: weak references / lazy generators are no longer modelled
                dead = si
    if batch and len(model) > 1:
        stats["samples"].append({"ops": lines[:3], "model": model[1][:300]})
    stats["disagreements"] = stats["disagreements"][:5]
    stats["finals"] = [(batch[si][0], batch[si][1], k, coh) for si, (k, coh) in sorted(finals.items())]
    return stats


def merge(a, b):
    for k in ("ops", "seqs", "dumps", "truncated", "unguarded_ops", "incoherent_after_unguarded"):
        a[k] += b[k]
    for k in ("op_hist", "res_hist", "len_hist"):
        for kk, v in b[k].items():
            a[k][kk] = a[k].get(kk, 0) + v
    a["distinct"] |= b["distinct"]
    a["disagreements"] = (a["disagreements"] + b["disagreements"])[:8]
    a["samples"] = (a["samples"] + b["samples"])[:3]
    a["finals"] = a.get("finals", []) + b.get("finals", [])
    return a


def _job(job):
    kind = job[0]
    if kind == "ext":
        # extend every representative prefix by every operation of the alphabet
        _, alpha_name, canon, reps = job
        alpha = FULL_ALPHA if alpha_name == "full" else SMALL_ALPHA
        batch = []
        for cs, prefix in reps:
            for op in alpha:
                ops = prefix + [op]
                if canon and len(ops) >= canon and not canon_ids(ops):
                    continue
                batch.append((cs, ops, True))
        out = None
        for i in range(0, len(batch), 4000):
            st = run_batch(batch[i:i + 4000])
            out = st if out is None else merge(out, st)
        return out if out is not None else run_batch([])
    if kind == "rand":
        _, seed, idx, n = job
        rng = rng_for(seed, "c19rand%d" % idx)
        batch = [(rng.random() < 0.5, rand_seq(rng), False) for _ in range(n)]
        st = run_batch(batch)
        st["finals"] = []
        return st
    if kind == "oracle":
        _, seed, idx, n = job
        rng = rng_for(seed, "c19oracle%d" % idx)
        checked = 0
        items = []
        for _ in range(n):
            cs = rng.random() < 0.5
            items.append((cs, [rand_op(rng, False) for _ in range(rng.randint(1, 12))]))
        specs = spec_lines(items)
        for (cs, ops), spec in zip(items, specs):
            hit, k = oracle_run(cs, ops, spec)
            checked += k
            if hit:
                return {"hit": shrink(cs, ops, hit), "checked": checked}
        return {"hit": None, "checked": checked}
    raise HarnessError("bad job")


def explore(alpha_name, depth, canon):
    """(canon = 0: every sequence; canon = k: sequences of length >= k only up to renaming of ids, i.e. ids appear in
    first-occurrence order 1,2,3 — the cache only ever compares ids for equality and truthiness.)
    All operation sequences of length <= depth over the alphabet, explored level by level with state
    de-duplication: two prefixes after which the complete dump of the cache (tree with keys, names, types, ids,
    parent links, root flags; id map) is identical are extended only once (the cache has no other state, so
    their continuations behave identically).  Prefixes after which the model has left the coherent states, or
    on which model and implementation disagree, are not extended."""
    alpha = FULL_ALPHA if alpha_name == "full" else SMALL_ALPHA
    reps = [(True, []), (False, [])]
    total = None
    level_sizes = []
    for d in range(1, depth + 1):
        per = max(1, 4000 // len(alpha))
        jobs = [("ext", alpha_name, canon, reps[i:i + per]) for i in range(0, len(reps), per)]
        st = run_jobs(jobs)
        finals = st.pop("finals", [])
        total = st if total is None else merge(total, st)
        total["finals"] = []
        seen, nxt = set(), []
        if canon:
            finals.sort(key=lambda f: not canon_ids(f[1]))      # prefer representatives that can be extended canonically
        for cs, ops, key, coh in finals:
            if coh and (cs, key) not in seen:
                seen.add((cs, key))
                nxt.append((cs, ops))
        level_sizes.append({"depth": d, "prefixes_extended": len(reps), "sequences": st["seqs"], "distinct_states_after": len(nxt)})
        reps = nxt
        if total["disagreements"]:
            break
    total["levels"] = level_sizes
    return total


def run_jobs(jobs):
    ctx()        # import the repo once, before forking
    if NPROC == 1:
        results = [_job(j) for j in jobs]
    else:
        with multiprocessing.get_context("fork").Pool(NPROC) as pool:
            results = pool.map(_job, jobs, chunksize=1)
    out = None
    for st in results:
        out = st if out is None else merge(out, st)
    return out


# ------------------------------------------------------------------ step 4: the property evaluated on the implementation

class SpecDict:
    """One state of the Lean dictionary specification (Model/HDict.lean, driver layer `dict`): normalised path (tuple
    of components) -> (type, id or None).  This is the specification `hcache_refines_dict` is proved against; the
    oracle executes it through the driver instead of re-implementing it."""

    def __init__(self, cs, line):
        self.cs = cs
        self.res, _, ents = line.partition(" # ")
        self.d = {}
        for tok in ents.split():
            k, t, o = tok.rsplit(":", 2)
            key = () if k == "^" else tuple(dec_str(x) for x in k.split("/"))
            self.d.setdefault(key, (t, None if o == "~" else OID[int(o)]))

    def comps(self, path):
        return tuple(comps_real(self.cs, path))

    def holder(self, o):
        if not o:
            return None
        for k, (_t, i) in self.d.items():
            if i == o:
                return k
        return None

    def render(self, k):
        return "/" + "/".join(k)


def spec_lines(items):
    """run the Lean dictionary specification on every sequence; returns, per sequence, the output line per op"""
    lines, idx = [], []
    for cs, ops in items:
        lines.append("reset %s 9" % enc_bool(cs))
        idx.append(None)
        for op in ops:
            lines.append(op_line(op))
            idx.append(1)
    out = run_driver("dict", lines) if lines else []
    res, cur = [], None
    for tag, o in zip(idx, out):
        if tag is None:
            cur = []
            res.append(cur)
        else:
            cur.append(o)
    return res


def oid_ok(op):
    """ids handed to mkdir/create/update are None or truthy (second guard of the refinement theorem)"""
    k = op[0]
    o = op[2] if k in ("mkdir", "create") else (op[3] if k == "update" else None)
    return o != 0


def compare_with_dict(cache, cs, dm):
    """every public getter against the dictionary; returns a failure text or None"""
    T = ctx()["TR"]
    paths = set(STD_PATHS) | {"/"} | {dm.render(k) for k in dm.d}
    for p in sorted(paths):
        k = dm.comps(p)
        want = dm.d.get(k)
        got_oid, got_t = cache.get_oid(p), cache.get_type(path=p)
        if want is None:
            if got_oid is not None or got_t is not None:
                return "get_oid/get_type(%r) = %r/%r but the dictionary has no such path" % (p, got_oid, got_t)
        else:
            if got_oid != want[1] or T.get(got_t) != want[0]:
                return "get_oid/get_type(%r) = %r/%r, dictionary has %r" % (p, got_oid, T.get(got_t), want)
            kids = sorted(q[-1] for q in dm.d if len(q) == len(k) + 1 and q[:len(k)] == k)
            if sorted(cache.listdir(path=p)) != kids:
                return "listdir(%r) = %r, dictionary has %r" % (p, sorted(cache.listdir(path=p)), kids)
    for o in ["1", "2", "3", "R"]:
        h = () if o == "R" else dm.holder(o)
        want = None if h is None else dm.render(h)
        got = cache.get_path(o)
        if got != want:
            return "get_path(%r) = %r, dictionary has %r" % (o, got, want)
        if want is not None and cache.get_oid(got) != o:
            return "get_oid(get_path(%r)) = %r" % (o, cache.get_oid(got))
    if sorted(cache.walk()) != sorted(dm.render(k) for k in dm.d):
        return "walk() = %r, dictionary has %r" % (sorted(cache.walk()), sorted(dm.render(k) for k in dm.d))
    return None


def oracle_run(cs, ops, spec=None):
    """Evaluate the C19 statement on the implementation along one sequence: from the (coherent) initial cache, every
    operation that satisfies the theorems' guards must have the specified outcome and leave the cache coherent, with
    all lookups equal to those of the Lean dictionary specification run on the same operations (`spec`: its output
    lines), `get_path`/`get_oid` inverse on cached ids.  The run stops at the first operation outside the guards.
    Returns (failure dict or None, number of operations checked)."""
    if spec is None:
        spec = spec_lines([(cs, ops)])[0]
    cache = new_cache(cs)
    for i, op in enumerate(ops):
        try:
            safe = op_safe_real(cache, cs, op) and oid_ok(op)
        except Exception:  # noqa
            safe = False
        if not safe:
            return None, i
        res = apply_real(cache, op)
        dm = SpecDict(cs, spec[i])
        why = coherent_real(cache, cs)
        if why is None:
            try:
                why = compare_with_dict(cache, cs, dm)
            except Exception as e:  # noqa
                why = "getter raised %s" % type(e).__name__
        if why is None and res != dm.res:
            why = "operation returned %s, the dictionary specification says %s" % (res, dm.res)
        if why is not None:
            return {"case_sensitive": cs, "ops": [op_text(o) for o in ops[:i + 1]], "ops_wire": [op_line(o) for o in ops[:i + 1]],
                    "failure": why, "result_of_last_op": res}, i + 1
    return None, len(ops)


def shrink(cs, ops, hit):
    """delta-debugging on the op list (drop one op at a time while the oracle still fails)"""
    cur = ops[:len(hit["ops"])]
    changed = True
    while changed and len(cur) > 1:
        changed = False
        for i in range(len(cur) - 1):
            cand = cur[:i] + cur[i + 1:]
            h, _ = oracle_run(cs, cand)
            if h and len(h["ops"]) == len(cand):
                cur, hit, changed = cand, h, True
                break
    return hit


def oracle_search(seed, tier):
    # short exhaustive sequences first (reduced alphabet), then random ones
    ctx()
    checked = 0
    for cs in (True, False):
        for d in (1, 2):
            items = [(cs, list(ops)) for ops in itertools.product(SMALL_ALPHA, repeat=d)]
            for i0 in range(0, len(items), 3000):
                chunk = items[i0:i0 + 3000]
                for (cs_, ops), spec in zip(chunk, spec_lines(chunk)):
                    hit, k = oracle_run(cs_, ops, spec)
                    checked += k
                    if hit:
                        return shrink(cs_, ops, hit), checked
    n = 20000 if tier == "quick" else 200000
    jobs = [("oracle", seed, i, n // 64) for i in range(64)]
    if NPROC == 1:
        results = [_job(j) for j in jobs]
    else:
        with multiprocessing.get_context("fork").Pool(NPROC) as pool:
            results = pool.map(_job, jobs, chunksize=1)
    hit = None
    for r in results:
        checked += r["checked"]
        if r["hit"] and (hit is None or len(r["hit"]["ops"]) < len(hit["ops"])):
            hit = r["hit"]
    return hit, checked


# ------------------------------------------------------------------ known findings (the guard's complement), replayed

# open findings: the guard's complement (caller misuse).  "still fails" = the cache is incoherent after the sequence.
FINDINGS = {
    "root-path-as-target": (True, [("mkdir", "/a", 1), ("create", "/", 2)]),
    "root-id-reused": (True, [("mkdir", "/a", 1), ("create", "/a/b", 9)]),
}

# fixed entries: exact replays that must stay repaired (coherent, and the listed lookups answer as stated)
FIXED = {
    "rename-unnormalised-new-path": (
        False, [("mkdir", "/a", 1), ("create", "/a/f", 2), ("rename", "/a/f", "/a/G")],
        lambda c: c.get_path("2") is not None and c.get_oid(c.get_path("2")) == "2"),
    "insert-under-ancestor-holding-id": (
        True, [("mkdir", "/a", 1), ("mkdir", "/a/b", 2), ("create", "/a/b/a", 1)],
        lambda c: c.get_path("1") == "/a/b/a" and c.get_oid("/a/b/a") == "1" and c.get_type(oid="1") == ctx()["T"]["F"]),
    "set-oid-held-by-ancestor": (
        True, [("mkdir", "/a", 1), ("mkdir", "/a/b", None), ("setoid", "/a/b", 1, "D")],
        lambda c: c.get_path("1") == "/a/b" and c.get_oid("/a/b") == "1"),
}


def replay_finding(ident):
    cs, ops = FINDINGS[ident]
    cache = new_cache(cs)
    results = [apply_real(cache, op) for op in ops]
    why = coherent_real(cache, cs)
    return why is not None, results, why


def replay_fixed(res, ident):
    cs, ops, good = FIXED[ident]
    cache = new_cache(cs)
    results = [apply_real(cache, op) for op in ops]
    why = coherent_real(cache, cs)
    try:
        ok = why is None and bool(good(cache))
    except Exception as e:  # noqa
        ok, why = False, "lookup raised %s" % type(e).__name__
    if not ok:
        res.violation({"property": PID, "kind": "regression of fixed finding", "id": ident,
                       "failing": {"case_sensitive": cs, "ops": [op_text(o) for o in ops], "ops_wire": [op_line(o) for o in ops],
                                   "results": results, "failure": why or "lookups do not answer as recorded for the repaired code"}})


def do_replay(path):
    obj = json.load(open(path))
    f = obj.get("failing") or (obj.get("first_disagreements") or [{}])[0]
    wire = f.get("ops_wire")
    if not wire:
        print("replay file has no op list")
        return
    cs = f.get("case_sensitive", True)
    cache = new_cache(cs)
    for ln in wire:
        t = ln.split()
        d = lambda x: dec_str(x)
        o = lambda x: None if x == "~" else int(x)
        if t[0] in ("mkdir", "create"):
            op = (t[0], d(t[1]), o(t[2]))
        elif t[0] == "delete":
            op = ("delete", o(t[1]), d(t[2]))
        elif t[0] == "rename":
            op = ("rename", d(t[1]), d(t[2]))
        elif t[0] == "setoid":
            op = ("setoid", d(t[1]), o(t[2]), t[3])
        else:
            op = ("update", d(t[1]), t[2], o(t[3]))
        print("%-50s -> %s   coherent: %s" % (op_text(op), apply_real(cache, op), coherent_real(cache, cs) or "yes"))
    print("walk:", list(cache.walk()))
    print("id map:", {k: v.full_path() for k, v in cache._oid_to_node.items()})


# ------------------------------------------------------------------ main

def run(res, tier, seed, proof_broken, replay):
    ctx()
    if replay:
        do_replay(replay)
        return
    opens, fixed = load_known_findings(PID)
    # 2. known findings / fixed entries on the real code
    stale = []
    for ident, what in opens.items():
        if ident not in FINDINGS:
            res.notes.append("known finding %s has no replay" % ident)
            continue
        bad, _results, _why = replay_finding(ident)
        if bad:
            res.known.append("%s :: %s" % (ident, what))
        else:
            stale.append(ident)
    for ident in FIXED:
        replay_fixed(res, ident)
    for ident in fixed:
        if ident not in FIXED:
            res.notes.append("fixed entry %s has no replay" % ident)
    # 3. correspondence
    fps = fingerprints(FP_SPEC)
    if tier == "quick":
        st = explore("full", 2, 1)
        nrand = 20000
    else:
        st = explore("full", 3, 3)
        nrand = 300000
    levels = st.pop("levels", [])
    nchunk = 64 if tier == "quick" else 256
    jobs = [("rand", seed, i, nrand // nchunk + (1 if i < nrand % nchunk else 0)) for i in range(nchunk)]
    st = merge(st, run_jobs(jobs))
    dis = st["disagreements"]
    res.coverage.update({
        "evaluations": st["ops"], "programs": st["seqs"], "dumps_compared": st["dumps"],
        "distinct_nontrivial": len(st["distinct"]),
        "rule": "every op sequence of length <= %d over the full alphabet (12 paths over names a,b,A at depth <= 2; ids 1,2,3/None%s; "
                "both types; %d ops), explored level by level with state de-duplication "
                "(prefixes with identical complete dumps are extended once; see exhaustive_levels), and %d seeded random sequences of "
                "length <= 12 (15%% of them mixing in the root path, unnormalised spellings, depth 3-4, the root's id and the empty id), "
                "each for a case-sensitive and a case-insensitive MockProvider; compared per op: result/exception class; after the last "
                "op of an enumerated sequence and after every op of a random one: structural dump, id map, all getters over the probe "
                "paths/ids, coherence flag, guard flag; distinct = distinct (tree dump, id map) pairs reached" % (
                    2 if tier == "quick" else 3, (", sequences up to renaming of ids (first-occurrence order)" if tier == "quick" else
                                                  ", sequences of length 3 up to renaming of ids (first-occurrence order)"),
                    len(FULL_ALPHA), nrand),
        "exhaustive_levels": levels,
        "samples": st["samples"], "disagreements_checked": len(dis), "op_histogram": st["op_hist"],
        "result_histogram": st["res_hist"], "length_histogram": {str(k): v for k, v in sorted(st["len_hist"].items())},
        "sequences_cut_after_model_left_coherent_states": st["truncated"], "ops_outside_guard": st["unguarded_ops"],
        "ops_outside_guard_ending_incoherent": st["incoherent_after_unguarded"],
        "fingerprints": fps, "stale_known_findings": stale,
    })
    res.assumptions += [
        "weak parent references are modelled as strong indices; they differ only in incoherent caches, and a sequence is no longer "
        "compared after the first operation that leaves the model incoherent (count in coverage)",
        "metadata is not modelled (the harness passes none)",
        "str.lower() is modelled as a per-character map (exact on the alphabet used)"]
    broken = list(proof_broken)
    if dis:
        broken.append("correspondence hcache-layer: %d disagreements, first %r" % (len(dis), {k: dis[0][k] for k in ("case_sensitive", "ops")}))
    if broken:
        hit, checked = oracle_search(seed, tier)
        res.coverage["oracle_ops_checked"] = checked
        if hit:
            res.violation({"property": PID, "kind": "coherence / dictionary agreement fails on the implementation under the theorem's guard",
                           "failing": hit, "broken": broken})
        else:
            res.violation({"property": PID, "kind": "proof obligation or correspondence no longer checks", "broken": broken,
                           "first_disagreements": dis[:3]}, no_input=True)


if __name__ == "__main__":
    standard_main(PID, run)
