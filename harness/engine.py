"""A deterministic world around the real engine (harness-level only; nothing in /repo is changed):
two MockProviders + CloudSync stepped manually, with
  * sequential object ids (MockFSObject uses str(id(self))),
  * one virtual clock injected as module attribute `time` into the modules that read the clock,
  * an insertion-ordered `set` injected into cloudsync.sync.state / cloudsync.smartsync (set iteration order of
    identity-hashed entries and of randomised str hashes decides ties in the real program; the ordered set selects
    one admissible behaviour),
  * the three managers stepped directly: 'L' = event intake local, 'R' = event intake remote, 'S' = one sync step,
  * engine-issued provider calls traced (user calls are made through the same provider objects, flagged),
  * tree snapshots taken through the mock's object table (read-only).
"""
import io
import os
import sys
import types

sys.path.insert(0, os.path.dirname(os.path.abspath(__file__)))
from common import *  # noqa

LOCAL, REMOTE = 0, 1
ROOTS = ("/local", "/remote")
MUTATORS = ("create", "upload", "rename", "delete", "mkdir")
FLAVOURS = {
    "oid-oid": ((False, True, False), (False, True, False)),
    "path-oidf": ((True, True, False), (False, True, True)),
    "path-path": ((True, True, False), (True, True, False)),
    "oid-path": ((False, True, False), (True, True, False)),
    "oid-oid-ci": ((False, False, False), (False, False, False)),
    "path-oidf-ci": ((True, False, False), (False, False, True)),
    "oidci-oidcs": ((False, False, False), (False, True, False)),
    "oidcs-oidci": ((False, True, False), (False, False, False)),
}


class OrderedSet:
    """insertion-ordered replacement for the builtin set, for the subset of the API the engine uses"""
    def __init__(self, it=()):
        self._d = {}
        for x in it:
            self._d[x] = None

    def add(self, x):
        self._d[x] = None

    def discard(self, x):
        self._d.pop(x, None)

    def remove(self, x):
        del self._d[x]

    def clear(self):
        self._d.clear()

    def copy(self):
        return OrderedSet(self._d)

    def update(self, it):
        for x in it:
            self._d[x] = None

    def __iter__(self):
        return iter(list(self._d))

    def __len__(self):
        return len(self._d)

    def __contains__(self, x):
        return x in self._d

    def __bool__(self):
        return bool(self._d)

    def __repr__(self):
        return "OrderedSet(%r)" % list(self._d)


class VClock:
    def __init__(self, t0=1000.0):
        self.now = t0

    def time(self):
        return self.now

    def monotonic(self):
        return self.now

    def sleep(self, dt):
        self.now += max(0.0, float(dt))

    def advance(self, dt):
        self.now += dt


_installed = {}


def install_determinism(clock):
    """(re)points the injected clock; patches are module-level and idempotent"""
    import_repo()
    import cloudsync.sync.state as st
    import cloudsync.sync.manager as mg
    import cloudsync.event as ev
    import cloudsync.providers.mock as mk
    import cloudsync.provider as pv
    import cloudsync.smartsync as ss
    fake = types.SimpleNamespace(time=clock.time, sleep=clock.sleep, monotonic=clock.monotonic)
    for m in (st, mg, ev, mk, pv, ss):
        if hasattr(m, "time"):
            m.time = fake
    st.set = OrderedSet
    ss.set = OrderedSet
    if "oid" not in _installed:
        orig = mk.MockFSObject.__init__
        counter = {"n": 0}

        def init(self, path, object_type, oid_is_path, hash_func, contents=None, mtime=None):
            orig(self, path, object_type, oid_is_path, hash_func, contents=contents, mtime=mtime)
            if not oid_is_path:
                counter["n"] += 1
                self.oid = "o%d" % counter["n"]
        mk.MockFSObject.__init__ = init
        _installed["oid"] = counter
    _installed["oid"]["n"] = 0
    ev.EventManager._provider_guard.clear()


class Call:
    __slots__ = ("side", "method", "target", "path_at_call", "by", "result", "error", "t", "site")

    def __init__(self, **kw):
        for k in self.__slots__:
            setattr(self, k, kw.get(k))

    def brief(self):
        return "%s:%s:%s(%s)%s%s" % (self.by, "LR"[self.side], self.method, self.target,
                                       "->" + str(self.result) if self.result is not None else "",
                                       "!" + self.error if self.error else "")


class World:
    def __init__(self, flavour="oid-oid", storage="mock", resolver=None, translate=None, smart=False, aging=0.002,
                 roots=ROOTS, prioritize=None, cs_kwargs=None):
        self.clock = VClock()
        install_determinism(self.clock)
        from cloudsync.providers.mock import MockProvider
        from cloudsync import CloudSync
        from cloudsync.tests.fixtures.mock_storage import MockStorage
        lf, rf = FLAVOURS[flavour]
        self.flavour = flavour
        self.roots = roots
        self.provs = (MockProvider(lf[0], lf[1], filter_events=lf[2]), MockProvider(rf[0], rf[1], filter_events=rf[2]))
        for i, p in enumerate(self.provs):
            p.name = "mock-" + "lr"[i]
            p.connect({"key": "val"})
        self.calls = []
        self.by = "user"
        self.fault_hook = None      # callable(side, method, args) may raise before the call
        self.after_hook = None      # callable(call) after a successful engine mutation (crash injection)
        self._wrap_providers()
        self.storage_kind = storage
        self.storage_dict = {}
        self.sqlite_path = None
        self.notifications = []
        self.resolver = resolver
        self.translate_fn = translate
        self.smart = smart
        self.aging = aging
        self.prioritize = prioritize
        self.cs = None
        self.escaped = []
        self.new_engine()

    # -- providers ---------------------------------------------------------------------------------
    def _wrap_providers(self):
        world = self
        for side, p in enumerate(self.provs):
            for m in MUTATORS + ("download",):
                orig = getattr(p, m)

                def wrapper(*a, _orig=orig, _m=m, _side=side, _p=p, **kw):
                    by = world.by
                    target = a[0] if a else None
                    pac = None
                    if _m in ("upload", "rename", "delete", "download"):
                        o = _p._mock_fs.get(target)
                        pac = o.path if o is not None else None
                    if by == "engine" and world.fault_hook:
                        world.fault_hook(_side, _m, a)
                    c = Call(side=_side, method=_m, target=(a[1] if _m == "rename" else target) if _m in ("create", "mkdir", "rename") else target,
                             path_at_call=pac, by=by, t=world.clock.now)
                    if _m == "rename":
                        c.target = "%s=>%s" % (a[0], a[1])
                    try:
                        r = _orig(*a, **kw)
                    except Exception as e:  # noqa
                        c.error = type(e).__name__
                        world.calls.append(c)
                        raise
                    c.result = getattr(r, "oid", r) if _m != "download" else None
                    world.calls.append(c)
                    if by == "engine" and _m != "download" and world.after_hook:
                        world.after_hook(c)
                    return r
                setattr(p, m, wrapper)

    # -- engine -------------------------------------------------------------------------------------
    def make_storage(self):
        if self.storage_kind == "mock":
            from cloudsync.tests.fixtures.mock_storage import MockStorage
            st = MockStorage(self.storage_dict)
            # a new MockStorage over the same dict restarts its id counter (known fixture defect, C09): continue after the
            # highest id in use so that a restart behaves like a real backend
            ids = [k for d in self.storage_dict.values() for k in d]
            st.cursor = max(ids) + 1 if ids else 0
            return st
        if self.storage_kind == "sqlite":
            import tempfile
            from cloudsync.sync.sqlite_storage import SqliteStorage
            if not self.sqlite_path:
                self._sqldir = tempfile.mkdtemp(prefix="eng_", dir="/dev/shm" if os.path.isdir("/dev/shm") else None)
                self.sqlite_path = os.path.join(self._sqldir, "state.db")
            return SqliteStorage(self.sqlite_path)
        return None

    def new_engine(self):
        """a fresh CloudSync over the same providers and storage (what a new process would do)"""
        from cloudsync import CloudSync
        from cloudsync.event import EventManager
        import cloudsync.smartsync as ssm
        EventManager._provider_guard.clear()
        world = self
        base = ssm.SmartCloudSync if self.smart else CloudSync

        class CS(base):
            def handle_notification(self, n):
                world.notifications.append(n)

            def resolve_conflict(self, f1, f2):
                if world.resolver:
                    return world.resolver(f1, f2)
                return None

            def prioritize(self, side, path):
                return world.prioritize(side, path) if world.prioritize else 0

        if self.translate_fn:
            tf = self.translate_fn
            CS.translate = lambda self_, side, path: tf(self_, side, path)
        self.storage = self.make_storage()
        self.cs = CS(self.provs, self.roots, storage=self.storage, sleep=None)
        self.cs.aging = self.aging
        self.by = "engine"
        try:
            self.cs.smgr._validate_provider_roots()
        finally:
            self.by = "user"
        return self.cs

    def drop_engine(self, graceful=True):
        if self.cs is None:
            return
        try:
            if graceful:
                self.cs.done()
            else:
                import shutil
                shutil.rmtree(self.cs.smgr.tempdir, ignore_errors=True)
        except Exception:
            pass
        self.cs = None

    def close(self):
        self.drop_engine()
        if getattr(self, "_sqldir", None):
            import shutil
            try:
                if self.storage is not None and hasattr(self.storage, "close"):
                    self.storage.close()
            except Exception:
                pass
            shutil.rmtree(self._sqldir, ignore_errors=True)

    def step(self, which, dt=0.01):
        """which in 'L','R','S'.  Returns the exception class name that escaped do(), or None."""
        self.clock.advance(dt)
        mgr = {"L": self.cs.emgrs[0], "R": self.cs.emgrs[1], "S": self.cs.smgr}[which]
        self.by = "engine"
        try:
            mgr.do()
        except Exception as e:  # noqa
            if type(e).__name__ == "_BackoffError":
                return "backoff"
            self.escaped.append((which, repr(e)))
            return type(e).__name__
        finally:
            self.by = "user"
        return None

    def busy(self):
        self.by = "engine"
        try:
            return bool(self.cs.busy)
        finally:
            self.by = "user"

    def run_to_quiet(self, cap=300, order="LRS", rng=None, on_step=None):
        """fair stepping until the engine reports nothing left to do; returns number of steps or None if cap hit"""
        n = 0
        quiet_rounds = 0
        while n < cap:
            seq = list(order)
            if rng:
                rng.shuffle(seq)
            for w in seq:
                self.step(w)
                n += 1
                if on_step:
                    on_step(w)
            if not self.busy():
                quiet_rounds += 1
                if quiet_rounds >= 2:
                    return n
            else:
                quiet_rounds = 0
        return None

    # -- user operations (by path, as a user of that side would) --------------------------------------
    def user(self, side, op, *args):
        """op: create path content | write path content | mkdir path | rename src dst | delete path (file or empty dir)
           | rmtree path.  Returns None or the error class name (invalid ops are part of the malformed stream)."""
        p = self.provs[side]
        self.by = "user"
        self.clock.advance(0.001)
        try:
            if op == "create":
                p.create(args[0], io.BytesIO(args[1]))
            elif op == "write":
                info = p.info_path(args[0])
                if not info:
                    return "CloudFileNotFoundError"
                p.upload(info.oid, io.BytesIO(args[1]))
            elif op == "mkdir":
                p.mkdir(args[0])
            elif op == "rename":
                info = p.info_path(args[0])
                if not info:
                    return "CloudFileNotFoundError"
                p.rename(info.oid, args[1])
            elif op == "delete":
                info = p.info_path(args[0])
                if not info:
                    return "CloudFileNotFoundError"
                p.delete(info.oid)
            elif op == "rmtree":
                info = p.info_path(args[0])
                if not info:
                    return "CloudFileNotFoundError"
                p.rmtree(info.oid)
            else:
                raise HarnessError("bad user op " + op)
        except Exception as e:  # noqa
            if isinstance(e, HarnessError):
                raise
            return type(e).__name__
        return None

    # -- observation ------------------------------------------------------------------------------------
    def tree(self, side, root=None, with_oid=False):
        """{relative path: ('d', None) | ('f', bytes)} of everything under the side's root ('' = whole account)"""
        p = self.provs[side]
        root = self.roots[side] if root is None else root
        out = {}
        for o in p._mock_fs.fs_objects():
            if not o.exists or o.path is None:
                continue
            if root in ("", "/"):
                rel = o.path
            else:
                if not (o.path == root or o.path.startswith(root + "/")):
                    if not p.case_sensitive and (o.path.lower() == root.lower() or o.path.lower().startswith(root.lower() + "/")):
                        pass
                    else:
                        continue
                rel = o.path[len(root):]
            if rel == "" or rel == "/":
                continue
            v = ("d", None) if o.type == o.DIR else ("f", bytes(o.contents or b""))
            out[rel] = v + ((o.oid,) if with_oid else ())
        return out

    def outside(self, side):
        root = self.roots[side]
        return {k: v for k, v in self.tree(side, root="").items()
                if not (k == root or k.startswith(root + "/"))}

    def engine_calls(self, since=0, mutating_only=True):
        return [c for c in self.calls[since:] if c.by == "engine" and (c.method != "download" or not mutating_only)]


def tree_lines(t):
    return sorted("%s %s" % (k, "D" if v[0] == "d" else "F:" + v[1].decode("latin1")) for k, v in t.items())


def conflicted(name):
    return ".conflicted" in name


def trees_converged(tl, tr, fold_case=False):
    """C01's quiet-state relation: same relative paths, types and contents, '.conflicted' entries excepted"""
    def norm(t):
        return {(k.lower() if fold_case else k): v for k, v in t.items() if not conflicted(k)}
    return norm(tl) == norm(tr)
