import os, sys
sys.path.insert(0, os.path.dirname(os.path.abspath(__file__)))
from engine_checks import *  # noqa
import eng_decide


def run(res, tier, seed, proof_broken, replay):
    run_c03(res, tier, seed, proof_broken, replay)
    # the engine's own decisions: Lean decision tables (Props/Engine.lean) tied to the real methods by differential execution
    eng_decide.attach(res, tier, seed, proof_broken)


if __name__ == "__main__":
    standard_main("C03", run)
