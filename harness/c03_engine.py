import os, sys
sys.path.insert(0, os.path.dirname(os.path.abspath(__file__)))
from engine_checks import *  # noqa
import eng_decide


def run(res, tier, seed, proof_broken, replay):
    run_c03(res, tier, seed, proof_broken, replay)
    # the engine's own decisions: Lean decision tables (Props/Engine.lean) tied to the real methods by differential execution
    before = len(res.violations)
    broken = list(proof_broken)
    eng_decide.attach(res, tier, seed, broken)
    finish_engine_check(res, tier, seed, broken, before)


if __name__ == "__main__":
    standard_main("C03", run)
