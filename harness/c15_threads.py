"""C15 — thread safety: sync state only touched under its lock; threaded runs converge.

Ties between the Lean layer (Model/Lock.lean, Props/C15.lean, Props/C15Table.lean) and the code under test:

  (T) STATIC   tools/gen_lock_sites.py regenerates lean/Csverif/Gen/LockSites.lean from the repo's working tree; the theorem
               `lock_sites_audited` (Props/C15Table.lean) stops checking when the locking structure changes.
  (A) PROBE    every public / thread entry point is called once from the main thread on the deterministic World with
               wrappers on every function the extractor calls "mutating" (+ the change hook SyncState.updated, the storage
               writers and the index / pending / dirty / request containers): each wrapper records
               (entry point, function, lock._is_owned()).  RLock ownership is per thread, so an unlocked public path shows up
               deterministically.  Cross-check: an unowned observation must be an UNLOCKED row of the static table, and a real
               ("hard") unowned mutation must belong to a listed known finding.  Each entry call is also turned into a trace
               window and executed by the Lean definitions (`run`, `firstBad`) through the driver layer `lockmon`.
  (P) PARKING  a thread is parked inside a critical section (inside a storage write of the event thread / inside a provider
               call of the sync thread); the other manager's do() (and an on-demand sync) running in a second thread must
               block on the lock until the first one leaves.
  (W) WAITERS  an application thread calls each public API that takes the state lock (forget, smart_sync_*, smart_unsync_*,
               smart_delete_path; also walk, busy) and is parked inside its critical section while the remote event thread and the
               sync thread queue on the lock; then all proceed: every mutation in the waiters' sections must be owned w.r.t. the lock
               object state.lock denotes AT THAT MOMENT.
  (I) IDENTITY the theorem needs `state.lock` to denote ONE lock object for the life of the state.  Static: the extractor lists every
               binding / deletion / setattr / __dict__ write / alias / copy of the lock attribute (Gen `lockBindings`; theorems
               `lock_bindings_audited`, `lock_identity_stable`; never tolerated).  Dynamic: the lock is proxied when the state is
               CONSTRUCTED (before a manager can cache it), its identity is compared at every probe and every acquisition; a change is
               a violation by itself, and ownership is always tested against the current object (a thread owning only a replaced,
               orphaned lock object is unowned).
  (R) THREADS  real threaded runs (event thread per side, sync thread, notification thread + application threads issuing
               user operations and smart-sync calls; sys.setswitchinterval(1e-5); yields injected into provider calls) over
               random histories of the reliable families; afterwards: no hard mutation without lock ownership except the
               listed known findings, the recorded lock trace is a legal disciplined interleaving of the Lean model
               (`lockmon`), and (plain engine) the trees converge (Lean monitor `c01`).
Known findings: `open:` entries (id=unlocked:<entry point>) are confirmed on every run by (A) and printed as KNOWN-FINDING; `fixed:`
entries (the six public methods repaired by F7) are replayed by (A) as well: the entry point is called from the main thread and
every real mutation it makes must be observed with the lock owned — an unowned one is a VIOLATION "regression of fixed finding".
Search oracle after a break (audit failure / table change / cross-check disagreement): the same probes, widened — the
property's own statement "the mutating thread must own the lock" evaluated on the implementation."""
import io
import os
import random
import sys
import threading
import time as _time

sys.path.insert(0, os.path.dirname(os.path.abspath(__file__)))
from histories import *  # noqa
sys.path.insert(0, os.path.join(VERIF, "tools"))
import gen_lock_sites  # noqa

PID = "C15"
FP_SPEC = {"cloudsync/event.py": ["EventManager._process_event", "EventManager.do", "EventManager._do_unsafe"],
           "cloudsync/sync/manager.py": ["SyncManager.do", "SyncManager._sync_one_entry"],
           "cloudsync/smartsync.py": ["SmartCloudSync._smart_sync_ent", "SmartCloudSync._smart_unsync_ent", "SmartCloudSync.smart_unsync_oid",
                                      "SmartCloudSync.smart_unsync_path", "SmartCloudSync.smart_sync_oid", "SmartCloudSync.smart_sync_path",
                                      "SmartCloudSync.smart_delete_path", "SmartCloudSync._sync_one_entry", "SmartSyncState._smart_sync_ent",
                                      "SmartSyncState._smart_unsync_ent", "SmartSyncState._changeset", "SmartSyncManager.do"],
           "cloudsync/cs.py": ["CloudSync.forget", "CloudSync.start", "CloudSync.stop", "CloudSync.busy", "CloudSync.walk"],
           "cloudsync/sync/state.py": ["SyncState.__init__", "SyncState.updated", "SyncState.storage_commit", "SyncState.forget",
                                       "SyncState.change", "SyncState.update", "SyncState.update_entry", "SyncState._change_path",
                                       "SyncState._change_oid", "SideState.__setattr__", "SyncEntry.__setattr__"],
           "cloudsync/runnable.py": ["Runnable.run", "Runnable.start", "Runnable.stop"]}

# locations of the abstract store (Model/Lock.lean `Loc`)
LOC = {"oids": 0, "paths": 1, "changeset": 2, "dirtyset": 3, "entry": 4, "storage": 5, "smartsets": 6}

# functions whose execution IS a mutation of shared sync state (not merely "contains a mutating statement")
HARD_FUNCS = {"SyncState.updated": "entry", "SyncState._storage_update": "storage", "SyncState.forget": "oids",
              "SyncState.forget_oid": "oids", "SyncState._change_path": "paths", "SyncState._change_oid": "oids"}
READ_FUNCS = {"SyncState.lookup_oid": "oids", "SyncState.lookup_path": "paths", "SyncState.get_all": "oids"}

# known findings are identified by entry point; the functions through which each mutates without the lock are the
# UNLOCKED rows of the audited table for that entry point
FINDING_PREFIX = "unlocked:"


# ---------------------------------------------------------------------------------------------------- ordered sets

class OSet(OrderedSet):
    """engine.OrderedSet + the set algebra smartsync.py uses"""
    def copy(self):
        return OSet(self._d)

    def intersection(self, other):
        o = set(other) if not isinstance(other, (set, frozenset, OrderedSet)) else other
        return OSet(x for x in self._d if x in o)

    def union(self, *others):
        r = OSet(self._d)
        for o in others:
            r.update(o)
        return r

    def difference(self, other):
        return OSet(x for x in self._d if x not in other)

    def __eq__(self, other):
        try:
            return set(self._d) == set(other)
        except TypeError:
            return False

    __hash__ = None


class ProbedSet(OSet):
    """a container of shared sync state: every mutation is an observation"""
    def __init__(self, it=(), probe=None, name="?", loc="changeset"):
        OSet.__init__(self, it)
        self._probe, self._name, self._loc = probe, name, loc

    def _rec(self, op):
        if self._probe is not None:
            self._probe.observe("set:%s.%s" % (self._name, op), hard=True, loc=self._loc)

    def add(self, x):
        if x not in self._d:
            self._rec("add")
        OSet.add(self, x)

    def discard(self, x):
        if x in self._d:
            self._rec("discard")
        OSet.discard(self, x)

    def remove(self, x):
        self._rec("remove")
        OSet.remove(self, x)

    def clear(self):
        if self._d:
            self._rec("clear")
        OSet.clear(self)

    def update(self, it):
        self._rec("update")
        OSet.update(self, it)


class ProbedDict(dict):
    def __init__(self, src=(), probe=None, name="?", loc="oids"):
        dict.__init__(self, src)
        self._probe, self._name, self._loc = probe, name, loc

    def _rec(self, op):
        if self._probe is not None:
            self._probe.observe("dict:%s.%s" % (self._name, op), hard=True, loc=self._loc)

    def __setitem__(self, k, v):
        self._rec("setitem")
        dict.__setitem__(self, k, v)

    def __delitem__(self, k):
        self._rec("delitem")
        dict.__delitem__(self, k)

    def pop(self, k, *d):
        if k in self:
            self._rec("pop")
        return dict.pop(self, k, *d)

    def clear(self):
        self._rec("clear")
        dict.clear(self)

    def setdefault(self, k, d=None):
        if k not in self:
            self._rec("setdefault")
        return dict.setdefault(self, k, d)


# ---------------------------------------------------------------------------------------------------- the probe

class LockProxy:
    """stands in for SyncState.lock: the same lock object underneath; acquire/release are recorded in the trace and the
    ownership (thread, nesting depth) is tracked here, so the probe does not depend on the lock's private API"""
    def __init__(self, real, probe):
        self._real, self._probe = real, probe
        self._depth = {}

    def acquire(self, blocking=True, timeout=-1):
        me = threading.get_ident()
        self._probe.attempts[me] = self._probe.attempts.get(me, 0) + 1
        if hasattr(self._real, "acquire"):
            ok = self._real.acquire(blocking, timeout)
        else:
            self._real.__enter__()
            ok = True
        if ok:
            d = self._depth.get(me, 0) + 1
            self._depth[me] = d
            if d == 1:
                self._probe.sections[me] = self._probe.sections.get(me, 0) + 1
            self._probe.trace_event("A")
            self._probe.acquired(self)
        return ok

    def release(self):
        me = threading.get_ident()
        self._probe.trace_event("R")
        self._depth[me] = self._depth.get(me, 0) - 1
        if hasattr(self._real, "release"):
            self._real.release()
        else:
            self._real.__exit__(None, None, None)

    def __enter__(self):
        self.acquire()
        return self

    def __exit__(self, *a):
        self.release()

    def _is_owned(self):
        if self._depth.get(threading.get_ident(), 0) > 0:
            return True
        f = getattr(self._real, "_is_owned", None)      # taken through an alias that bypasses the proxy
        try:
            return bool(f()) if f is not None else False
        except Exception:  # noqa
            return False

    def free_now(self):
        return not any(d > 0 for d in self._depth.values())


class Obs:
    __slots__ = ("entry", "func", "owned", "hard", "thread", "loc", "stack")

    def __init__(self, entry, func, owned, hard, thread, loc, stack=None):
        self.entry, self.func, self.owned, self.hard, self.thread, self.loc, self.stack = entry, func, owned, hard, thread, loc, stack

    def brief(self):
        return {"entry": self.entry, "function": self.func, "lock_owned": self.owned, "real_mutation": self.hard,
                "thread": self.thread, "stack": self.stack}


class Probe:
    def __init__(self):
        self.lock = None            # LockProxy around the object `state.lock` denotes NOW
        self.state = None           # the SyncState of the engine under observation
        self.lock_objects = []      # id() of every lock object state.lock has denoted, in order (index 0 = at creation)
        self.rebinds = []           # identity changes observed: dicts
        self.identity_polls = 0
        self.obs = []
        self.trace = []             # (thread ident, act token, entry)
        self.tl = threading.local()
        self.attempts = {}
        self.sections = {}          # thread ident -> number of outermost acquisitions so far
        self.patched = []
        self.enabled = True
        self.want_stack = False
        self.park_hook = None       # callable(func) invoked inside wrappers (parking tests)

    # -- attribution
    def entry(self):
        return getattr(self.tl, "entry", None)

    class _Entry:
        def __init__(self, probe, name):
            self.p, self.n = probe, name

        def __enter__(self):
            self.prev = getattr(self.p.tl, "entry", None)
            if self.prev is None:
                self.p.tl.entry = self.n
            return self

        def __exit__(self, *a):
            self.p.tl.entry = self.prev

    def as_entry(self, name):
        return Probe._Entry(self, name)

    # -- lock identity: `state.lock` must denote ONE lock object for the whole life of the state
    def attach(self, state):
        """called when a SyncState has been constructed: proxy its lock, remember the identity"""
        real = state.__dict__.get("lock", None)
        if real is None:
            real = getattr(state, "lock", None)
        if isinstance(real, LockProxy):
            proxy = real
        else:
            proxy = LockProxy(real, self)
            object.__setattr__(state, "lock", proxy)
        self.state, self.lock = state, proxy
        self.lock_objects = [id(proxy._real)]
        self.rebinds = []

    def current_lock(self):
        """the proxy of the lock object that `state.lock` denotes at this instant (what the OTHER threads synchronise on).
        A change of identity is recorded as a hard observation and the new object is proxied so that tracing goes on."""
        st = self.state
        if st is None:
            return self.lock
        self.identity_polls += 1
        cur = st.__dict__.get("lock", None) if hasattr(st, "__dict__") else None
        if cur is None:
            cur = getattr(st, "lock", None)
        if cur is self.lock:
            return cur
        old = self.lock
        if isinstance(cur, LockProxy):
            proxy = cur
        else:
            proxy = LockProxy(cur, self)
            try:
                object.__setattr__(st, "lock", proxy)
            except Exception:  # noqa
                pass
        self.lock = proxy
        self.lock_objects.append(id(proxy._real))
        import traceback
        stack = [("%s:%d %s" % (os.path.basename(f.filename), f.lineno, f.name)) for f in traceback.extract_stack()[-12:-1]
                 if "c15_threads" not in f.filename][-6:]
        info = {"from_object": len(self.lock_objects) - 2, "to_object": len(self.lock_objects) - 1, "thread": threading.current_thread().name,
                "entry": getattr(self.tl, "entry", None), "detected_at": stack,
                "old_lock_held_by_detecting_thread": bool(old is not None and old._is_owned())}
        self.rebinds.append(info)
        if self.enabled:
            self.obs.append(Obs(info["entry"], "lock-rebound:state.lock now denotes lock object #%d, it denoted #%d at creation/before"
                                % (info["to_object"], info["from_object"]), False, True, info["thread"], "entry", stack))
        return proxy

    def acquired(self, proxy):
        """a thread has just obtained `proxy`: is that still the object state.lock denotes?"""
        if self.state is None or not self.enabled:
            return
        cur = self.current_lock()
        if cur is not proxy and proxy is not None:
            self.obs.append(Obs(getattr(self.tl, "entry", None), "stale-lock:entered a critical section on a lock object that state.lock no "
                                "longer denotes", False, True, threading.current_thread().name, "entry"))

    # -- recording
    def owned(self):
        lk = self.current_lock()
        return bool(lk is not None and lk._is_owned())

    def trace_event(self, tok):
        self.trace.append((threading.get_ident(), tok, getattr(self.tl, "entry", None)))

    def active(self):
        st = getattr(self.tl, "active", None)
        return st[-1] if st else None

    def observe(self, func, hard=False, loc=None, read=False):
        if not self.enabled or self.lock is None:
            return
        owned = self.owned()
        ent = getattr(self.tl, "entry", None)
        if func.startswith(("set:", "dict:")) or "#" in func:
            func = "%s@%s" % (func, self.active())
        stack = None
        if self.want_stack and not owned and hard:
            import traceback
            stack = [("%s:%d %s" % (os.path.basename(f.filename), f.lineno, f.name)) for f in traceback.extract_stack()[-9:-2]]
        self.obs.append(Obs(ent, func, owned, hard, threading.current_thread().name, loc, stack))
        if hard or read:
            self.trace.append((threading.get_ident(), ("r%d" if read else "w%d") % LOC.get(loc, 4), ent))

    # -- patching
    def patch(self, cls, attr, make):
        orig = cls.__dict__[attr]
        setattr(cls, attr, make(orig))
        self.patched.append((cls, attr, orig))

    def unpatch_all(self):
        for cls, attr, orig in reversed(self.patched):
            setattr(cls, attr, orig)
        self.patched = []


PROBE = Probe()
_CLASSES = {}


def repo_classes():
    if not _CLASSES:
        import_repo()
        import cloudsync.sync.state as st
        import cloudsync.sync.manager as mg
        import cloudsync.event as ev
        import cloudsync.cs as csm
        import cloudsync.smartsync as ss
        import cloudsync.notification as nt
        for m in (st, mg, ev, csm, ss, nt):
            for k, v in vars(m).items():
                if isinstance(v, type) and v.__module__ == m.__name__:
                    _CLASSES[k] = v
    return _CLASSES


def mangle(cls_name, meth):
    return "_%s%s" % (cls_name.lstrip("_"), meth) if meth.startswith("__") and not meth.endswith("__") else meth


def install_probe(mutators):
    """wrap every function the extractor calls mutating (soft observation: function entered), the hard mutators, the
    readers, and the thread entry points (attribution)."""
    if PROBE.patched:
        return
    classes = repo_classes()

    def wrap_plain(qual, hard_loc=None, read_loc=None):
        def make(orig):
            if isinstance(orig, property):
                fget = orig.fget

                def getter(self_):
                    PROBE.observe(qual)
                    return fget(self_)
                return property(getter, orig.fset, orig.fdel)

            def wrapper(self_, *a, **kw):
                if qual == "SyncState.updated" and getattr(self_, "_loading", False):
                    return orig(self_, *a, **kw)
                if read_loc is not None:
                    PROBE.observe(qual, read=True, loc=read_loc)
                else:
                    PROBE.observe(qual, hard=hard_loc is not None, loc=hard_loc)
                hook = PROBE.park_hook
                if hook is not None:
                    hook(qual)
                if read_loc is not None:
                    return orig(self_, *a, **kw)
                st = getattr(PROBE.tl, "active", None)
                if st is None:
                    st = PROBE.tl.active = []
                st.append(qual)
                try:
                    return orig(self_, *a, **kw)
                finally:
                    st.pop()
            wrapper.__name__ = getattr(orig, "__name__", "wrapped")
            wrapper.__wrapped__ = orig
            return wrapper
        return make

    # a function whose mutating statements are ALL lexically inside its own `with ...lock` may be entered without the lock
    own_lock = {q for q, ms in mutators.items() if ms and all(m[2] for m in ms)}
    names = (set(mutators) - own_lock) | set(HARD_FUNCS) | set(READ_FUNCS) | {"SyncState.storage_commit", "SyncState.change"}
    for qual in sorted(names):
        parts = qual.split(".")
        if len(parts) != 2 or parts[0] not in classes:
            continue
        cls, attr = classes[parts[0]], mangle(parts[0], parts[1])
        if attr not in cls.__dict__ or attr in ("__setattr__", "__getattr__", "__init__", "__setitem__"):
            continue
        if isinstance(cls.__dict__[attr], (staticmethod, classmethod)):
            continue
        PROBE.patch(cls, attr, wrap_plain(qual, HARD_FUNCS.get(qual), READ_FUNCS.get(qual)))

    # storage_commit iterates the shared dirty set, writes the rows and clears it: a read-modify-write even when it is empty
    def make_commit(orig):
        def wrapper(self_):
            PROBE.observe("SyncState.storage_commit", hard=True, loc="dirtyset")
            return orig(self_)
        wrapper.__wrapped__ = orig
        return wrapper
    PROBE.patch(classes["SyncState"], "storage_commit", make_commit)

    # forget() replaces the containers: re-instrument them afterwards (NOT the lock: its identity is polled)
    def make_forget(orig):
        def wrapper(self_):
            r = orig(self_)
            instrument_containers(self_)
            PROBE.current_lock()
            return r
        wrapper.__wrapped__ = orig
        return wrapper
    PROBE.patch(classes["SyncState"], "forget", make_forget)

    # state creation: the lock is proxied and its identity recorded before any manager can cache it
    def make_init(orig):
        def wrapper(self_, *a, **kw):
            orig(self_, *a, **kw)
            if PROBE.state is not None and PROBE.state is not self_ and PROBE.enabled:
                PROBE.obs.append(Obs(PROBE.entry(), "lock-rebound:a second SyncState (with its own lock) was created for a live engine", False, True,
                                     threading.current_thread().name, "entry"))
            PROBE.attach(self_)
            instrument_containers(self_)
        wrapper.__wrapped__ = orig
        return wrapper
    PROBE.patch(classes["SyncState"], "__init__", make_init)

    # atomic steps: one event application / one pick+sync / one on-demand sync = at most ONE outermost critical section
    for qual in ("EventManager._process_event", "SyncManager.do", "SmartCloudSync._smart_sync_ent"):
        cname, attr = qual.split(".")

        def make_atomic(orig, _qual=qual):
            def wrapper(self_, *a, **kw):
                me = threading.get_ident()
                n0 = PROBE.sections.get(me, 0)
                d0 = PROBE.owned() if PROBE.lock is not None else False
                try:
                    return orig(self_, *a, **kw)
                finally:
                    n = PROBE.sections.get(me, 0) - n0
                    if PROBE.enabled and PROBE.lock is not None and not d0 and n > 1:
                        PROBE.obs.append(Obs(PROBE.entry(), "section-split:%s took the lock %d times" % (_qual, n), False, True,
                                             threading.current_thread().name, "entry"))
            wrapper.__wrapped__ = orig
            return wrapper
        PROBE.patch(classes[cname], attr, make_atomic)

    # thread entry points (attribution only)
    for qual in ("EventManager.do", "SyncManager.do", "SmartSyncManager.do", "NotificationManager.do"):
        cname, attr = qual.split(".")

        def make_do(orig, _qual=qual):
            def wrapper(self_, *a, **kw):
                with PROBE.as_entry(_qual):
                    return orig(self_, *a, **kw)
            wrapper.__wrapped__ = orig
            return wrapper
        PROBE.patch(classes[cname], attr, make_do)


def instrument_containers(state):
    """probed containers on one SyncState"""
    object.__setattr__(state, "_changeset_storage", ProbedSet(state._changeset_storage, PROBE, "_changeset_storage", "changeset"))
    object.__setattr__(state, "_dirtyset", ProbedSet(state._dirtyset, PROBE, "_dirtyset", "dirtyset"))
    object.__setattr__(state, "_oids", tuple(ProbedDict(d, PROBE, "_oids[%d]" % i, "oids") for i, d in enumerate(state._oids)))
    object.__setattr__(state, "_paths", tuple(ProbedDict(d, PROBE, "_paths[%d]" % i, "paths") for i, d in enumerate(state._paths)))
    if hasattr(state, "requestset"):
        object.__setattr__(state, "requestset", ProbedSet(state.requestset, PROBE, "requestset", "smartsets"))
        object.__setattr__(state, "excludeset", ProbedSet(state.excludeset, PROBE, "excludeset", "smartsets"))


# ---------------------------------------------------------------------------------------------------- the world

class RealClock:
    def __init__(self):
        self.now = _time.time()

    def time(self):
        return _time.time()

    def monotonic(self):
        return _time.monotonic()

    def sleep(self, dt):
        _time.sleep(dt)

    def advance(self, dt):
        pass


class ProbeWorld(World):
    """engine.World + probed state; `threaded=True` gives the engine the real clock back and yields inside provider calls"""
    def __init__(self, flavour="oid-oid", threaded=False, yield_rng=None, **kw):
        self.threaded = threaded
        self.yield_rng = yield_rng
        World.__init__(self, flavour, **kw)

    def _wrap_providers(self):
        World._wrap_providers(self)
        if not self.threaded:
            return
        world = self
        for p in self.provs:
            for m in ("info_oid", "info_path", "exists_oid", "exists_path", "hash_oid", "events", "listdir", "download", "create",
                      "upload", "rename", "delete", "mkdir"):
                orig = getattr(p, m)

                def wrapper(*a, _orig=orig, **k):
                    r = world.yield_rng
                    if r is not None and r.random() < 0.5:
                        _time.sleep(0)
                    res = _orig(*a, **k)
                    if r is not None and r.random() < 0.3:
                        _time.sleep(0)
                    return res
                if m == "events":
                    continue        # a generator: left alone
                setattr(p, m, wrapper)

    def new_engine(self):
        import cloudsync.sync.state as st
        import cloudsync.smartsync as ss
        st.set = OSet
        ss.set = OSet
        if self.threaded:
            self.clock = RealClock()
            install_real_time()
        enabled = PROBE.enabled
        PROBE.enabled = False
        PROBE.lock = None
        PROBE.state = None
        try:
            cs = World.new_engine(self)
        finally:
            PROBE.enabled = enabled
        if PROBE.state is not cs.state:          # the constructor hook did not fire (probe not installed yet)
            PROBE.attach(cs.state)
            instrument_containers(cs.state)
        return cs

    def tree(self, side, root=None, with_oid=False):
        with self.provs[side]._lock:
            return World.tree(self, side, root, with_oid)


def install_real_time():
    import cloudsync.sync.state as st
    import cloudsync.sync.manager as mg
    import cloudsync.event as ev
    import cloudsync.providers.mock as mk
    import cloudsync.provider as pv
    import cloudsync.smartsync as ss
    for m in (st, mg, ev, mk, pv, ss):
        if hasattr(m, "time"):
            m.time = _time


# ---------------------------------------------------------------------------------------------------- Lean side

def windows(trace, keep=None, maxlen=1500):
    """cut a recorded trace into lines for the `lockmon` layer at instants where the lock is free.
    keep(tid_index, tok, entry, owned_depth) -> False drops an access (known-finding accesses in threaded runs)."""
    idx, depth, cur, out = {}, {}, [], []
    held = 0
    for ident, tok, entry in trace:
        t = idx.setdefault(ident, len(idx) + 1)
        if tok == "A":
            depth[t] = depth.get(t, 0) + 1
            if depth[t] == 1:
                held += 1
        if tok[0] in "rw" and keep is not None and not keep(t, tok, entry, depth.get(t, 0)):
            continue
        cur.append("%d:%s" % (t, tok))
        if tok == "R":
            depth[t] = depth.get(t, 0) - 1
            if depth[t] == 0:
                held -= 1
                if held == 0 and len(cur) >= maxlen:
                    out.append(" ".join(cur))
                    cur = []
    if cur:
        out.append(" ".join(cur))
    return out


def lockmon(lines):
    return run_driver("lockmon", lines) if lines else []


# ---------------------------------------------------------------------------------------------------- static table

def parse_audited():
    """the audited table of Props/C15Table.lean as {entry: (locked fns, unlocked fns)} (for diagnostics only:
    the kernel compares the tables, this parser just lets a replay say WHAT changed)"""
    import re
    src = open(os.path.join(LEAN, "Csverif", "Props", "C15Table.lean"), encoding="utf8").read()
    src = re.sub(r"/-.*?-/", "", src, flags=re.S)
    defs = {}
    for m in re.finditer(r"def (\w+) : List String :=\s*\[(.*?)\]", src, flags=re.S):
        defs[m.group(1)] = re.findall(r'"([^"]*)"', m.group(2))
    body = src[src.index("def audited"):]
    body = body[:body.index("\n]")]
    out = {}

    def val(tok):
        tok = tok.strip()
        if tok.startswith("["):
            return re.findall(r'"([^"]*)"', tok)
        return defs[tok]
    for m in re.finditer(r'\("([^"]+)",\s*(\[[^\]]*\]|\w+),\s*(\[[^\]]*\]|\w+)\)', body):
        out[m.group(1)] = (val(m.group(2)), val(m.group(3)))
    return out


def parse_audited_bindings():
    """`auditedBindings` of Props/C15Table.lean (diagnostics only; the kernel compares the lists)"""
    import re
    src = open(os.path.join(LEAN, "Csverif", "Props", "C15Table.lean"), encoding="utf8").read()
    m = re.search(r"def auditedBindings[^\n]*:=\s*\[(.*?)\]\n", src, flags=re.S)
    return [tuple(t) for t in re.findall(r'\("([^"]*)",\s*"([^"]*)",\s*"([^"]*)"\)', m.group(1))] if m else []


def table_diff(rows, audited):
    """rows of the regenerated table that differ from the audited one"""
    cur = {}
    for e, q, ok in rows:
        cur.setdefault(e, ([], []))[0 if ok else 1].append(q)
    diff = []
    for e in sorted(set(cur) | set(audited)):
        cl, cu = cur.get(e, ([], []))
        al, au = audited.get(e, ([], []))
        for q in sorted(set(cu) - set(au)):
            diff.append({"entry": e, "function": q, "now": "UNLOCKED", "audited": "locked" if q in al else "absent"})
        for q in sorted(set(cl) - set(al)):
            diff.append({"entry": e, "function": q, "now": "locked", "audited": "UNLOCKED" if q in au else "absent"})
        for q in sorted((set(al) | set(au)) - set(cl) - set(cu)):
            diff.append({"entry": e, "function": q, "now": "absent", "audited": "locked" if q in al else "UNLOCKED"})
    return diff


# ---------------------------------------------------------------------------------------------------- (A) entry probe

class EntryCall:
    def __init__(self, scenario, step, name, obs, trace, err):
        self.scenario, self.step, self.name, self.obs, self.trace, self.err = scenario, step, name, obs, trace, err
        self.verdict = None

    def hard_unowned(self):
        return [o for o in self.obs if o.hard and not o.owned]

    def soft_unowned(self):
        return [o for o in self.obs if not o.hard and not o.owned and o.func not in READ_FUNCS and o.func != "SyncState.change"]


class Scenario:
    def __init__(self, name, world):
        self.name, self.w, self.calls, self.script = name, world, [], []

    def call(self, entry, fn, label=None):
        i0, t0 = len(PROBE.obs), len(PROBE.trace)
        err = None
        try:
            with PROBE.as_entry(entry):
                r = fn()
                if hasattr(r, "__next__"):
                    list(r)
        except Exception as e:  # noqa
            err = type(e).__name__
            if err == "HarnessError":
                raise
        c = EntryCall(self.name, len(self.script), entry, PROBE.obs[i0:], PROBE.trace[t0:], err)
        self.script.append(label or entry)
        self.calls.append(c)
        return c

    def user(self, side, op, *args):
        self.script.append("user%d %s %s" % (side, op, " ".join(a if isinstance(a, str) else a.decode() for a in args)))
        return self.w.user(side, op, *args)

    def steps(self, seq):
        for x in seq:
            mgr = {"L": self.w.cs.emgrs[0], "R": self.w.cs.emgrs[1], "S": self.w.cs.smgr}[x]
            ent = "%s.do" % ("EventManager" if x in "LR" else type(mgr).__mro__[[c.__name__ for c in type(mgr).__mro__].index(
                "SmartSyncManager" if any(c.__name__ == "SmartSyncManager" for c in type(mgr).__mro__) else "SyncManager")].__name__)
            self.call(ent, lambda x=x: self.w.step(x), label="step " + x)

    def busy(self):
        with PROBE.as_entry("CloudSync.busy"):
            return self.w.busy()

    def quiet(self, cap=120):
        n = 0
        while n < cap:
            self.steps("LRS")
            n += 3
            if not self.busy():
                self.steps("LRS")
                if not self.busy():
                    return True
        return False


def oid_of(w, side, path):
    i = w.provs[side].info_path(path)
    return i.oid if i else None


def scenario_smart(flavour, variant=0):
    """every public entry point of SmartCloudSync / CloudSync / SmartSyncState once, from the main thread"""
    w = ProbeWorld(flavour, smart=True, storage="sqlite" if variant % 2 else "mock")
    sc = Scenario("smart/%s/%d" % (flavour, variant), w)
    cs = w.cs
    try:
        sc.user(1, "mkdir", "/remote/d")
        sc.user(1, "create", "/remote/a", b"v1")
        sc.user(1, "create", "/remote/d/b", b"v2")
        sc.user(1, "create", "/remote/g", b"" if variant else b"v9")
        sc.user(0, "create", "/local/c.txt", b"v3")
        sc.quiet()
        sc.call("SmartCloudSync.smart_sync_path", lambda: cs.smart_sync_path("/local/a", LOCAL))
        sc.call("SmartCloudSync.smart_sync_oid", lambda: cs.smart_sync_oid(oid_of(w, 1, "/remote/d/b")))
        sc.call("SmartCloudSync.smart_sync_oid", lambda: cs.smart_sync_oid(oid_of(w, 1, "/remote/g")))
        sc.quiet()
        # the local copy disappears behind the engine's back: the request path repairs the entry (clear + update_entry)
        sc.user(0, "delete", "/local/a")
        sc.call("SmartCloudSync.smart_sync_path", lambda: cs.smart_sync_path("/local/a", LOCAL))
        sc.user(0, "delete", "/local/g")
        sc.call("SmartCloudSync.smart_sync_oid", lambda: cs.smart_sync_oid(oid_of(w, 1, "/remote/g")))
        sc.quiet()
        sc.call("SmartCloudSync.smart_listdir_path", lambda: cs.smart_listdir_path("/local"))
        sc.call("SmartCloudSync.smart_info_path", lambda: cs.smart_info_path("/local/a"))
        sc.call("SmartCloudSync.smart_info_oid", lambda: cs.smart_info_oid(oid_of(w, 1, "/remote/a")))
        sc.call("SmartCloudSync.smart_rename", lambda: cs.smart_rename(LOCAL, oid_of(w, 0, "/local/c.txt"), "/local/c2.txt"))
        sc.quiet()
        # a local edit not yet seen by the event thread, then un-request: the whole sync of the entry runs in the caller
        sc.user(0, "write", "/local/a", b"v4")
        sc.call("SmartCloudSync.smart_unsync_path", lambda: cs.smart_unsync_path("/local/a", LOCAL))
        sc.user(0, "write", "/local/d/b", b"v5")
        sc.call("SmartCloudSync.smart_unsync_oid", lambda: cs.smart_unsync_oid(oid_of(w, 1, "/remote/d/b")))
        sc.quiet()
        sc.call("SmartCloudSync.smart_delete_path", lambda: cs.smart_delete_path(oid_of(w, 0, "/local/c2.txt"), "/local/c2.txt"))
        sc.quiet()
        # an un-requested remote file that the sync thread has already looked at; then an auto-sync callback is registered:
        # the public `busy` walks the pending set and requests the entry (SmartSyncState._changeset -> _smart_sync_ent)
        sc.user(1, "create", "/remote/e", b"v6")
        sc.steps("RS")
        sc.call("SmartCloudSync.register_auto_sync_callback", lambda: cs.register_auto_sync_callback(lambda p: True))
        if variant % 2:
            sc.call("SmartSyncState.changes", lambda: list(cs.state.changes))
            sc.call("CloudSync.busy", lambda: cs.busy)
        else:
            sc.call("CloudSync.busy", lambda: cs.busy)
            sc.call("SmartSyncState.changes", lambda: list(cs.state.changes))
        sc.call("CloudSync.change_count", lambda: cs.change_count)
        sc.quiet()
        sc.user(1, "create", "/remote/f", b"v7")
        sc.steps("R")
        sc.call("SmartSyncState.smart_sync_path", lambda: cs.state.smart_sync_path("/remote/f"))
        sc.call("SmartSyncState.smart_sync_oid", lambda: cs.state.smart_sync_oid(oid_of(w, 1, "/remote/f")))
        sc.quiet()
        sc.call("SmartSyncState.smart_unsync_oid", lambda: cs.state.smart_unsync_oid(oid_of(w, 1, "/remote/f")))
        sc.call("SmartSyncState.smart_sync_oid", lambda: cs.state.smart_sync_oid(oid_of(w, 1, "/remote/e")))
        sc.call("SmartSyncState.smart_unsync_ent", lambda: cs.state.smart_unsync_ent(cs.state.lookup_oid(REMOTE, oid_of(w, 1, "/remote/e"))))
        sc.call("SmartSyncState.smart_listdir_path", lambda: cs.state.smart_listdir_path(REMOTE, "/remote"))
        sc.call("SmartSyncState.register_auto_sync_callback", lambda: cs.state.register_auto_sync_callback(lambda p: False))
        for name, fn in plain_entries(cs):
            sc.call(name, fn)
        sc.quiet()
        if variant % 2:
            fault_steps(sc)
        sc.call("CloudSync.forget", lambda: cs.forget())
        sc.quiet()
        sc.final = (tree_lines(w.tree(0)), tree_lines(w.tree(1)))
    finally:
        w.close()
    return sc


def plain_entries(cs):
    from cloudsync.notification import Notification, NotificationType, SourceEnum
    import cloudsync.exceptions as ex
    random.seed(12345)       # CloudSync.do shuffles its managers with the global PRNG
    return [
        ("CloudSync.aging", lambda: cs.aging),
        ("CloudSync.storage_label", lambda: cs.storage_label()),
        ("CloudSync.translate", lambda: cs.translate(REMOTE, "/local/zz")),
        ("CloudSync.prioritize", lambda: cs.prioritize(0, "/local/zz")),
        ("CloudSync.resolve_conflict", lambda: cs.resolve_conflict(None, None)),
        ("CloudSync.handle_notification", lambda: cs.handle_notification(None)),
        ("CloudSync.set_need_walk", lambda: cs.set_need_walk(0, False)),
        ("CloudSync.walk", lambda: cs.walk()),
        ("CloudSync.busy", lambda: cs.busy),
        ("CloudSync.change_count", lambda: cs.change_count),
        ("CloudSync.do", lambda: cs.do()),
        ("NotificationManager.notify", lambda: cs.nmgr.notify(Notification(SourceEnum.SYNC, NotificationType.STARTED, None))),
        ("NotificationManager.notify_from_exception", lambda: cs.nmgr.notify_from_exception(SourceEnum.SYNC, ex.CloudTemporaryError("x"))),
        ("NotificationManager.do", lambda: cs.nmgr.do()),
        ("NotificationManager.do", lambda: cs.nmgr.do()),
    ]


def fault_steps(sc):
    """the engine's exception paths: cursor error / temporary error / token error at event intake, temporary error and an
    unexpected exception inside the synchronisation of an entry (punt + commit), each followed by recovery"""
    import cloudsync.exceptions as ex
    w = sc.w
    for side, exc in ((1, ex.CloudCursorError("scripted")), (0, ex.CloudTemporaryError("scripted")), (1, ex.CloudTokenError("scripted")),
                      (0, ex.CloudDisconnectedError("scripted"))):
        p = w.provs[side]
        orig = p.events

        def bad_events(_exc=exc):
            raise _exc
            yield None      # noqa
        p.events = bad_events
        sc.script.append("fault: provider %d events() raises %s once" % (side, type(exc).__name__))
        try:
            sc.steps("LR"[side])
        finally:
            p.events = orig
        sc.steps("LR"[side] + "S")
    for n, exc in enumerate((ex.CloudTemporaryError("scripted"), RuntimeError("scripted"), ex.CloudFileNotFoundError("scripted"))):
        sc.user(n % 2, "create", "/%s/flt%d" % (("local", "remote")[n % 2], n), b"v%d" % (70 + n))
        armed = {"on": True}

        def hook(side, method, args, _exc=exc, _armed=armed):
            if _armed["on"] and method in ("create", "upload", "mkdir"):
                _armed["on"] = False
                raise _exc
        w.fault_hook = hook
        sc.script.append("fault: next engine create/upload raises %s" % type(exc).__name__)
        try:
            for _ in range(4):
                sc.steps("LRS")
                w.clock.advance(0.5)
        finally:
            w.fault_hook = None
        sc.quiet()


def scenario_plain(flavour, variant=0):
    w = ProbeWorld(flavour, storage="sqlite" if variant % 2 else "mock")
    sc = Scenario("plain/%s/%d" % (flavour, variant), w)
    cs = w.cs
    try:
        sc.user(0, "mkdir", "/local/d")
        sc.user(0, "create", "/local/a", b"v1")
        sc.user(1, "create", "/remote/b", b"")
        sc.steps("LSRSLS")
        sc.user(0, "write", "/local/a", b"v2")
        sc.user(1, "create", "/remote/a", b"v3")      # conflict path
        sc.user(0, "rename", "/local/d", "/local/e")
        sc.quiet()
        sc.user(1, "delete", "/remote/b")
        sc.user(0, "create", "/local/e/f", b"v4")
        for name, fn in plain_entries(cs):
            sc.call(name, fn)
        sc.quiet()
        fault_steps(sc)
        sc.call("CloudSync.forget", lambda: cs.forget())
        sc.quiet()
        sc.call("CloudSync.start", lambda: cs.start())
        _time.sleep(0.05)
        sc.call("CloudSync.stop", lambda: cs.stop(forever=False))
        sc.call("CloudSync.wait", lambda: cs.wait(timeout=5))
        sc.final = (tree_lines(w.tree(0)), tree_lines(w.tree(1)))
    finally:
        w.close()
    return sc


# ---------------------------------------------------------------------------------------------------- (P) parking

def _runner(name, fn, box):
    def body():
        try:
            fn()
        except Exception as e:  # noqa
            if type(e).__name__ != "_BackoffError":
                box.append((name, repr(e)))
    t = threading.Thread(target=body, name=name, daemon=True)
    return t


def parking_case(kind):
    """a thread is parked INSIDE a critical section; the other threads must block on the lock until it leaves.
    Returns dict(kind, intruders=[obs made by the other threads while the first was parked], trace, errors, blocked)"""
    smart = kind == "event-parked"
    w = ProbeWorld("oid-oid", smart=smart)
    cs = w.cs
    PROBE.obs, PROBE.trace, PROBE.attempts = [], [], {}
    errors, res = [], {"kind": kind}
    try:
        if smart:
            w.user(1, "create", "/remote/a", b"v1")
            w.run_to_quiet()
            w.user(1, "create", "/remote/q", b"v2")         # pending remote event
            w.user(1, "write", "/remote/a", b"v3")
            target, first, others = "SyncState._storage_update", (lambda: cs.emgrs[1].do()), [
                ("T2", lambda: cs.smgr.do(), None),
                ("T3", lambda: cs.smart_sync_oid(oid_of(w, 1, "/remote/a")), "SmartCloudSync.smart_sync_oid")]
        else:
            w.user(0, "create", "/local/p", b"v1")
            w.step("L")
            w.clock.advance(1.0)
            w.user(1, "create", "/remote/q", b"v2")          # pending remote event
            target, first, others = "SyncState.unconditionally_get_latest", (lambda: cs.smgr.do()), [
                ("T2", lambda: cs.emgrs[1].do(), None)]
        parked, gate = threading.Event(), threading.Event()

        def hook(qual):
            if qual == target and threading.current_thread().name == "T1" and not parked.is_set():
                res["t1_owned_when_parked"] = PROBE.owned()
                parked.set()
                gate.wait(20)
        PROBE.park_hook = hook
        t1 = _runner("T1", first, errors)
        t1.start()
        if not parked.wait(10):
            res["parked"] = False
            gate.set()
            t1.join(10)
            return res
        res["parked"] = True
        mark = len(PROBE.obs)
        ths = []
        for name, fn, entry in others:
            def body(fn=fn, entry=entry):
                if entry:
                    with PROBE.as_entry(entry):
                        fn()
                else:
                    fn()
            ths.append(_runner(name, body, errors))
        for t in ths:
            t.start()
        # wait until each of the others has tried to take the lock (or has finished / run past it)
        end = _time.time() + 5
        while _time.time() < end and any(t.is_alive() and not PROBE.attempts.get(t.ident) for t in ths):
            _time.sleep(0.002)
        _time.sleep(0.05)
        res["blocked"] = {t.name: t.is_alive() for t in ths}
        res["attempted"] = {t.name: bool(PROBE.attempts.get(t.ident)) for t in ths}
        res["intruders"] = [o for o in PROBE.obs[mark:] if o.thread != "T1" and o.hard]
        gate.set()
        t1.join(20)
        for t in ths:
            t.join(20)
        res["hung"] = [t.name for t in [t1] + ths if t.is_alive()]
        res["trace"] = list(PROBE.trace)
        res["errors"] = errors
    finally:
        PROBE.park_hook = None
        w.close()
    return res


# ---------------------------------------------------------------------------------------------------- (W) waiters

LOCK_APIS = ["forget", "smart_sync_path", "smart_sync_oid", "smart_unsync_path", "smart_unsync_oid", "smart_delete_path", "walk", "busy"]


def waiter_case(api, flavour="oid-oid", variant=0):
    """An application thread calls a public API that takes the state lock and is parked INSIDE its critical section; the event
    thread of the remote side and the sync thread then start a step and block on the lock; the application thread is released,
    everybody proceeds.  Every mutation made in the waiters' critical sections must be owned with respect to the lock object
    `state.lock` denotes at that moment (a waiter that wakes up owning a replaced, orphaned lock object is unowned)."""
    w = ProbeWorld(flavour, smart=True, storage="sqlite" if variant % 2 else "mock")
    cs = w.cs
    PROBE.obs, PROBE.trace, PROBE.attempts = [], [], {}
    errors, res = [], {"kind": "waiter/" + api, "api": api, "flavour": flavour}
    try:
        w.user(1, "create", "/remote/a", b"v1")
        w.user(1, "create", "/remote/g", b"v2")
        w.user(0, "create", "/local/c.txt", b"v3")
        w.run_to_quiet()
        with PROBE.as_entry("SmartCloudSync.smart_sync_path"):
            cs.smart_sync_path("/local/a", LOCAL)
        w.run_to_quiet()
        w.user(1, "write", "/remote/a", b"v4")            # a pending remote event for the event thread
        w.user(1, "create", "/remote/h", b"v5")
        w.user(0, "write", "/local/c.txt", b"v6")
        w.step("L")                                        # a pending change for the sync thread
        w.clock.advance(1.0)
        calls = {
            "forget": ("CloudSync.forget", lambda: cs.forget()),
            "walk": ("CloudSync.walk", lambda: cs.walk()),
            "busy": ("CloudSync.busy", lambda: cs.busy),
            "smart_sync_path": ("SmartCloudSync.smart_sync_path", lambda: cs.smart_sync_path("/local/g", LOCAL)),
            "smart_sync_oid": ("SmartCloudSync.smart_sync_oid", lambda: cs.smart_sync_oid(oid_of(w, 1, "/remote/g"))),
            "smart_unsync_path": ("SmartCloudSync.smart_unsync_path", lambda: cs.smart_unsync_path("/local/a", LOCAL)),
            "smart_unsync_oid": ("SmartCloudSync.smart_unsync_oid", lambda: cs.smart_unsync_oid(oid_of(w, 1, "/remote/a"))),
            "smart_delete_path": ("SmartCloudSync.smart_delete_path", lambda: cs.smart_delete_path(oid_of(w, 0, "/local/c.txt"), "/local/c.txt")),
        }
        entry, fn = calls[api]
        parked, gate = threading.Event(), threading.Event()

        def hook(qual):
            if threading.current_thread().name == "APP" and not parked.is_set() and PROBE.owned():
                res["app_parked_in"] = qual
                parked.set()
                gate.wait(20)
        PROBE.park_hook = hook

        def app():
            with PROBE.as_entry(entry):
                fn()
        t_app = _runner("APP", app, errors)
        t_app.start()
        # an API that takes no lock (walk, busy) simply finishes: the waiters then run unhindered
        t0 = _time.time()
        while not parked.is_set() and t_app.is_alive() and _time.time() - t0 < 10:
            _time.sleep(0.001)
        res["parked"] = parked.is_set()
        waiters = [_runner("W-event", lambda: cs.emgrs[1].do(), errors), _runner("W-sync", lambda: cs.smgr.do(), errors)]
        for t in waiters:
            t.start()
        if parked.is_set():
            end = _time.time() + 5
            while _time.time() < end and any(t.is_alive() and not PROBE.attempts.get(t.ident) for t in waiters):
                _time.sleep(0.002)
            _time.sleep(0.03)
            res["waiters_blocked"] = {t.name: t.is_alive() for t in waiters}
            mark = len(PROBE.obs)
            res["intruders"] = [o for o in PROBE.obs[mark:] if o.thread != "APP" and o.hard]
        gate.set()
        for t in [t_app] + waiters:
            t.join(20)
        res["hung"] = [t.name for t in [t_app] + waiters if t.is_alive()]
        # a further round of steps on the (possibly new) lock object, from a third thread
        t3 = _runner("W-late", lambda: (cs.emgrs[0].do(), cs.emgrs[1].do(), cs.smgr.do()), errors)
        t3.start()
        t3.join(20)
        res["obs"], res["trace"] = list(PROBE.obs), list(PROBE.trace)
        res["errors"] = errors
        res["lock_objects"] = len(PROBE.lock_objects)
        res["rebinds"] = list(PROBE.rebinds)
    finally:
        PROBE.park_hook = None
        w.close()
    return res


# ---------------------------------------------------------------------------------------------------- (R) threaded runs

FILE_KINDS = ["create", "write", "write", "delete", "create"]


def start_engine(cs, production):
    if production:
        cs.start()
        return
    # CloudSync.start (cs.py:242-251) with shorter loop sleeps: same four threads
    from cloudsync.notification import Notification, NotificationType, SourceEnum
    cs.nmgr.notify(Notification(SourceEnum.SYNC, NotificationType.STARTED, None))
    cs.smgr.start(daemon=True, sleep=0.002)
    cs.emgrs[0].start(daemon=True, sleep=0.002)
    cs.emgrs[1].start(daemon=True, sleep=0.002)
    cs.nmgr.start(daemon=True)


def apply_op(rec, o):
    side, kind = o[0], o[1]
    rest = list(o[2:])
    tag = rest.pop() if kind in ("create", "write") else None
    return rec.user(side, kind, *rest, tag=tag)


def threaded_run(seed, idx, flavour, smart, production, nops, budget=8.0, replay_of=None):
    """replay_of = a previous result: same flavour/storage/aging and the same user operations per thread (the thread
    schedule itself is whatever the OS does)"""
    rng = random.Random((seed * 7919 + idx) ^ hash_str("c15thr" + flavour))
    st_kind, aging = ("sqlite" if rng.random() < 0.3 else "mock"), rng.choice([0.0, 0.002, 0.01])
    if replay_of:
        st_kind, aging = replay_of["storage"], replay_of["aging"]
    w = ProbeWorld(flavour, threaded=True, yield_rng=random.Random(rng.random()), smart=smart, storage=st_kind, aging=aging)
    PROBE.obs, PROBE.trace, PROBE.attempts = [], [], {}
    out = {"flavour": flavour, "smart": smart, "production": production, "storage": w.storage_kind, "aging": w.aging, "errors": []}
    cs = w.cs
    old_sw = sys.getswitchinterval()
    try:
        rec = Recorder(w, random.Random(rng.random()))
        rec.spell_roots = False
        if replay_of:
            for o in replay_of["ops_base"]:
                apply_op(rec, o)
            base_ok = rec.quiesce() and trees_converged(w.tree(0), w.tree(1), flavour.endswith("-ci"))
        else:
            base_ok = build_base(rec, rng.randint(0, 3), side=1 if smart else rng.randint(0, 1))
        out["base_ok"] = base_ok or smart
        out["ops_base"] = [tuple(o) for o in rec.ops]
        sys.setswitchinterval(1e-5)
        start_engine(cs, production)
        recs = [Recorder(w, random.Random(rng.random())) for _ in range(2)]
        for i, r in enumerate(recs):
            r.spell_roots = False
            r.next_tag = 1000 * (i + 1) + rec.next_tag
        errs = out["errors"]
        smart_calls = []

        def user_thread(side, n):
            r = recs[side]
            if replay_of:
                for o in replay_of["ops_side"][side]:
                    apply_op(r, o)
                    _time.sleep(r.rng.uniform(0, 0.004))
                return
            for _ in range(n):
                r.random_op(side, kinds=FILE_KINDS)
                _time.sleep(r.rng.uniform(0, 0.004))

        def smart_thread(n):
            r = random.Random(rng.random())
            for _ in range(n):
                files = sorted(k for k, v in w.tree(1).items() if v[0] == "f")
                if not files:
                    _time.sleep(0.002)
                    continue
                rel = r.choice(files)
                lp, rp = "/local" + rel, "/remote" + rel
                what = r.choice(["smart_sync_path", "smart_sync_path", "smart_sync_oid", "smart_unsync_path", "smart_unsync_oid",
                                 "smart_info_path", "smart_listdir_path", "busy", "smart_delete_path"])
                smart_calls.append(what)
                try:
                    with PROBE.as_entry(("CloudSync." if what == "busy" else "SmartCloudSync.") + what):
                        if what == "smart_sync_path":
                            cs.smart_sync_path(lp, LOCAL)
                        elif what == "smart_sync_oid":
                            cs.smart_sync_oid(oid_of(w, 1, rp))
                        elif what == "smart_unsync_path":
                            cs.smart_unsync_path(lp, LOCAL)
                        elif what == "smart_unsync_oid":
                            cs.smart_unsync_oid(oid_of(w, 1, rp))
                        elif what == "smart_info_path":
                            cs.smart_info_path(lp)
                        elif what == "smart_listdir_path":
                            list(cs.smart_listdir_path("/local"))
                        elif what == "smart_delete_path":
                            lo = oid_of(w, 0, lp)
                            if lo:
                                cs.smart_delete_path(lo, lp)
                        else:
                            cs.busy
                except Exception as e:  # noqa  (racing with user deletions: not-found etc. are legitimate answers)
                    errs.append("%s: %s" % (what, type(e).__name__))
                _time.sleep(r.uniform(0, 0.004))

        ths = []
        if smart:
            ths.append(threading.Thread(target=user_thread, args=(1, nops), name="user-remote", daemon=True))
            ths.append(threading.Thread(target=smart_thread, args=(nops + 2,), name="app-smart", daemon=True))
        else:
            ths.append(threading.Thread(target=user_thread, args=(0, nops), name="user-local", daemon=True))
            ths.append(threading.Thread(target=user_thread, args=(1, nops), name="user-remote", daemon=True))
        for t in ths:
            t.start()
        for t in ths:
            t.join(30)
        out["app_hung"] = [t.name for t in ths if t.is_alive()]
        # quiescence: nothing pending for several consecutive polls (and, plain engine, trees equal)
        fold = flavour.endswith("-ci")
        t_end = _time.time() + budget
        calm, quiet = 0, False
        while _time.time() < t_end:
            with PROBE.as_entry("CloudSync.busy"):
                b = cs.busy
            if not b:
                calm += 1
                if calm >= 5:
                    quiet = True
                    break
            else:
                calm = 0
            _time.sleep(0.02)
        out["quiet"] = quiet
        def stop_it():
            with PROBE.as_entry("CloudSync.stop"):
                cs.stop(forever=True, wait=True)
        stopper = threading.Thread(target=stop_it, name="stopper", daemon=True)
        stopper.start()
        stopper.join(25)
        out["stop_hung"] = stopper.is_alive()
        sys.setswitchinterval(old_sw)
        out["lock_free_after_stop"] = PROBE.current_lock().free_now()
        out["L"], out["R"] = w.tree(0), w.tree(1)
        out["ops"] = [list(map(str, o)) for r in [rec] + recs for o in r.ops]
        out["ops_side"] = [[tuple(o) for o in r.ops] for r in recs]
        out["smart_calls"] = smart_calls
        out["obs"], out["trace"] = list(PROBE.obs), list(PROBE.trace)
        out["fold"] = fold
    finally:
        sys.setswitchinterval(old_sw)
        try:
            w.close()
        except Exception:
            pass
    return out


# ---------------------------------------------------------------------------------------------------- verdicts

class Judge:
    """turns observations into verdicts.  `known` = entry points listed as open known findings; `unlocked` = set of
    (entry, function) UNLOCKED rows of the static table; `mutators` = functions the extractor calls mutating."""
    def __init__(self, known, unlocked, mutators, audited_unlocked=None, fixed=(), lockless=()):
        self.known, self.unlocked, self.mutators = set(known), set(unlocked), set(mutators)
        self.lockless = set(lockless)       # open findings that take the lock on no path: identified by entry point alone
        self.fixed = set(fixed)             # entry points of `fixed:` findings: replayed, every mutation must be owned
        self.fixed_replayed = {e: 0 for e in self.fixed}
        self.audited_unlocked = set(audited_unlocked if audited_unlocked is not None else unlocked)
        self.unattributed = 0
        self.violations = []        # concrete failing inputs
        self.crosscheck = []        # static/dynamic disagreements
        self.confirmed = {}         # known entry -> example
        self.lines, self.line_ctx = [], []
        self.pairs_seen = set()
        self.counts = {"observations": 0, "hard": 0, "hard_unowned_known": 0, "unowned_reads": 0, "windows": 0}

    def observations(self, obs, ctx):
        for o in obs:
            self.counts["observations"] += 1
            if o.func in READ_FUNCS or o.func == "SyncState.change":
                if not o.owned:
                    self.counts["unowned_reads"] += 1
                continue
            self.pairs_seen.add((o.entry, o.func, o.owned))
            if o.hard:
                self.counts["hard"] += 1
                if o.owned and o.entry in self.fixed:
                    self.fixed_replayed[o.entry] += 1
            if o.owned:
                continue
            if o.hard:
                fn = o.func.split("@")[-1]          # container mutations are attributed to the innermost active mutating function
                if fn == "None":
                    self.unattributed += 1
                if o.entry in self.known and ((o.entry, fn) in self.audited_unlocked or o.entry in self.lockless) \
                        and not o.func.startswith(("section-split", "lock-rebound", "stale-lock")):
                    self.counts["hard_unowned_known"] += 1
                    self.confirmed.setdefault(o.entry, dict(ctx, function=o.func))
                else:
                    kind = "one atomic step (event application / pick+sync of an entry / on-demand sync) released and re-took the state " \
                           "lock: its critical section is split" if o.func.startswith("section-split") else \
                           "lock identity: state.lock was re-bound to another lock object during the life of the state (threads blocked on or " \
                           "holding the old object no longer exclude the others)" if o.func.startswith("lock-rebound") else \
                           "lock identity: a thread entered its critical section owning only a stale lock object" if o.func.startswith("stale-lock") else \
                           "sync state mutated by a thread that does not own the lock object state.lock denotes at that moment"
                    if o.entry in self.fixed:
                        kind = "regression of fixed finding %s%s: %s" % (FINDING_PREFIX, o.entry, kind)
                    self.violations.append(dict(ctx, kind=kind, observation=o.brief()))
            elif o.func in self.mutators and (o.entry, o.func) not in self.unlocked:
                self.crosscheck.append(dict(ctx, kind="function with a mutating statement entered without the lock on a path the "
                                                     "static table marks locked/absent", observation=o.brief()))

    def keep(self):
        known = self.known

        def k(_t, _tok, entry, depth):
            return not (depth == 0 and entry in known)      # hard observations of known entries are judged by `observations`
        return k

    def trace(self, trace, ctx, maxlen=1500):
        for ln in windows(trace, keep=self.keep(), maxlen=maxlen):
            self.lines.append(ln)
            self.line_ctx.append(ctx)

    def raw_trace_line(self, trace):
        return windows(trace, maxlen=10 ** 9)

    def lean(self):
        verdicts = lockmon(self.lines)
        self.counts["windows"] = len(self.lines)
        self.counts["trace_events"] = sum(len(l.split()) for l in self.lines)
        for v, ctx, ln in zip(verdicts, self.line_ctx, self.lines):
            if not v.startswith("ok"):
                self.violations.append(dict(ctx, kind="recorded lock trace rejected by the Lean model (lockmon)", monitor_verdict=v,
                                            trace_window=ln if len(ln) < 4000 else ln[:4000] + " ..."))
        return verdicts


def j_all_obs(j):
    return [f for (_e, f, _o) in j.pairs_seen]


def scenario_ctx(sc, c):
    return {"scenario": sc.name, "script": sc.script[:c.step + 1], "entry_point": c.name, "exception": c.err}


def judge_scenario(j, sc):
    for c in sc.calls:
        ctx = scenario_ctx(sc, c)
        j.observations(c.obs, ctx)
        j.trace(c.trace, ctx, maxlen=10 ** 9)


def judge_parking(j, r):
    ctx = {"parking": r["kind"], "t1_owned_when_parked": r.get("t1_owned_when_parked"), "blocked": r.get("blocked"),
           "attempted": r.get("attempted")}
    if not r.get("parked"):
        return "not-parked"
    for o in r.get("intruders", []):
        if not (o.entry in j.known and not o.owned):
            j.violations.append(dict(ctx, kind="a second thread mutated sync state while another thread was inside its critical "
                                               "section (no mutual exclusion)", observation=o.brief()))
    if r.get("hung"):
        j.violations.append(dict(ctx, kind="threads did not finish after the parked thread was released", hung=r["hung"]))
    j.trace(r.get("trace", []), ctx, maxlen=10 ** 9)
    return "ok"


def judge_waiter(j, r):
    ctx = {"waiter_case": r["kind"], "flavour": r["flavour"], "application_thread_parked_in": r.get("app_parked_in"),
           "waiters_blocked_while_parked": r.get("waiters_blocked"), "lock_objects_seen": r.get("lock_objects"), "rebinds": r.get("rebinds"),
           "schedule": ["application thread APP calls %s and is parked inside its critical section" % r["api"],
                        "W-event = remote EventManager.do() and W-sync = SyncManager.do() start and block on the lock",
                        "APP released; all three proceed; then W-late runs one more L,R,S round"]}
    j.observations(r.get("obs", []), ctx)
    if r.get("hung"):
        j.violations.append(dict(ctx, kind="threads did not finish after the application thread was released", hung=r["hung"]))
    j.trace(r.get("trace", []), ctx, maxlen=10 ** 9)
    return ctx


def judge_threaded(j, r, idx):
    ctx = {"threaded_run": idx, "flavour": r["flavour"], "smart": r["smart"], "production_sleeps": r["production"], "storage": r["storage"],
           "aging": r["aging"], "user_ops": r.get("ops"), "smart_calls": r.get("smart_calls"),
           "left": tree_lines(r["L"]) if "L" in r else None, "right": tree_lines(r["R"]) if "R" in r else None}
    j.observations(r.get("obs", []), ctx)
    j.trace(r.get("trace", []), ctx)
    if r.get("stop_hung") or r.get("app_hung"):
        j.violations.append(dict(ctx, kind="threads did not stop / finish (possible deadlock)", stop_hung=r.get("stop_hung"), app_hung=r.get("app_hung")))
    elif r.get("lock_free_after_stop") is False:
        j.violations.append(dict(ctx, kind="state lock still held after all engine threads stopped"))
    return ctx


# ---------------------------------------------------------------------------------------------------- run

PART_A = ["CS.Lock.discipline_implies_serializable", "CS.Lock.discipline_implies_serializable_obs", "CS.Lock.access_only_by_holder",
          "CS.Lock.no_two_threads_in_section", "CS.Lock.section_atomic", "CS.Lock.serial_iff", "CS.Lock.okFrom_iff_firstBad",
          "CS.Lock.racy_undisciplined", "CS.Lock.racy_not_serializable", "CS.LockId.serializable_of_stable_identity",
          "CS.LockId.discipline_implies_serializable_stable_lock", "CS.LockId.rebindDemo_disciplined", "CS.LockId.rebindDemo_unstable",
          "CS.LockId.rebind_breaks_exclusion"]


def tolerable_row(d, j, mutators, defined, lockless, delegating=()):
    """Is this difference between the regenerated and the audited table one that cannot hide an unlocked mutation?
    (only consulted when NO unowned mutation and NO static/dynamic disagreement was observed in the whole run)
      more-locked        audited UNLOCKED -> now locked: the set of unlocked rows shrinks;
      gone               audited row -> now absent, provided the function is gone from the sources, or is still classified mutating
                         (merely unreachable from that entry point), or now directly calls a function classified mutating (its mutating
                         statements were moved into a helper whose own rows are judged).  A function that still exists, LOST its
                         mutating status and delegates to no mutating function is NOT tolerated: its mutation may have moved to a place
                         the extractor does not know;
      new-locked         audited absent -> now locked (every path from the entry point passes through `with ...lock`), provided the
                         function was actually executed in this run and every execution observed had the lock owned;
      new-under-lockless audited absent -> now UNLOCKED under an OPEN known-finding entry point that takes the lock on NO path at all
                         (audited and regenerated locked lists both empty): more of the same finding, which is identified by entry point.
    Everything else (locked -> UNLOCKED, a new UNLOCKED row elsewhere, ...) keeps the check strict."""
    e, f, now, aud = d["entry"], d["function"], d["now"], d["audited"]
    if now == "absent":
        if f in defined and f not in mutators and f not in delegating:
            return False, "function still exists but is no longer classified mutating and delegates to no mutating function"
        return True, "gone"
    if aud == "UNLOCKED" and now == "locked":
        return True, "more-locked"
    if aud == "absent" and now == "locked":
        seen = {o for (_e, fn, o) in j.pairs_seen if fn == f}
        if f in mutators and seen == {True}:
            return True, "new-locked"
        return False, "new locked row not confirmed dynamically (executed with the lock owned: %s)" % (sorted(seen) or "never executed")
    if aud == "absent" and now == "UNLOCKED" and e in lockless:
        return True, "new-under-lockless"
    return False, "%s -> %s" % (aud, now)


def audit_part_a():
    """when only the generated table broke the build: do the model theorems (Props/C15.lean) still check, axioms clean?"""
    import re
    import subprocess
    ok, log = lean_build_module("Csverif.Props.C15")
    if not ok:
        return ["Props/C15.lean does not build: " + log[-400:]]
    adir = os.path.join(LEAN, ".lake", "audit")
    os.makedirs(adir, exist_ok=True)
    fn = os.path.join(adir, "Audit_C15a_%d.lean" % os.getpid())
    with open(fn, "w") as f:
        f.write("import Csverif.Props.C15\n" + "".join("#print axioms %s\n" % t for t in PART_A))
    p = subprocess.run(["lake", "env", "lean", fn], cwd=LEAN, capture_output=True, text=True, timeout=1800)
    os.unlink(fn)
    out = p.stdout + p.stderr
    found = {}
    for m in re.finditer(r"'([^']+)' depends on axioms: \[([^\]]*)\]", out):
        found[m.group(1)] = [a.strip() for a in m.group(2).replace("\n", " ").split(",") if a.strip()]
    for m in re.finditer(r"'([^']+)' does not depend on any axioms", out):
        found[m.group(1)] = []
    fails = []
    for t in PART_A:
        if t not in found:
            fails.append("theorem %s missing or does not check" % t)
        elif [a for a in found[t] if a not in ALLOWED_AXIOMS]:
            fails.append("theorem %s depends on disallowed axioms" % t)
    return fails + (["forbidden tokens: %s" % grep_forbidden()[:3]] if grep_forbidden() else [])


QUICK_SCEN = [("smart", "oid-oid", 0), ("smart", "path-oidf", 1), ("plain", "oid-oid", 1), ("plain", "path-path", 0)]
SMART_FLAVOURS = ["oid-oid", "path-oidf", "oid-oid-ci", "path-oidf-ci", "oidci-oidcs", "oidcs-oidci"]


def run(res, tier, seed, proof_broken, replay):
    ents, rows, mutators = gen_lock_sites.table()
    audited = parse_audited()
    diff = table_diff(rows, audited)
    bindings = [tuple(b) for b in gen_lock_sites.lock_bindings()]
    aud_bind = parse_audited_bindings()
    bind_diff = [dict(site=list(b), now="present", audited="absent") for b in bindings if b not in aud_bind] + \
                [dict(site=list(b), now="absent", audited="present") for b in aud_bind if b not in bindings]
    unlocked = {(e, q) for e, q, ok in rows if not ok}
    opens, fixed = load_known_findings(PID)
    known = {i[len(FINDING_PREFIX):]: what for i, what in opens.items() if i.startswith(FINDING_PREFIX)}
    fixed_ents = {i[len(FINDING_PREFIX):]: what for i, what in fixed.items() if i.startswith(FINDING_PREFIX)}
    _classes, _fns, _modfuncs = gen_lock_sites.load()
    gen_lock_sites.analyse(_classes, _fns, _modfuncs)
    defined = set(_fns)
    delegating = {q for q, fn in _fns.items() if any(c in mutators for c, _lk in fn.calls)}
    cur_locked = {}
    for e, q, ok in rows:
        if ok:
            cur_locked.setdefault(e, []).append(q)
    # open findings whose entry point takes the lock on no path at all: any function reached under them is the same finding
    lockless = {e for e in known if not audited.get(e, ([], []))[0] and not cur_locked.get(e)}
    install_probe(mutators)
    PROBE.want_stack = True
    j = Judge(known, {(e, q) for e, q, ok in rows if not ok}, mutators, {(e, q) for e, (_l, u) in audited.items() for q in u},
              fixed=fixed_ents, lockless=lockless)
    widen = bool(proof_broken or diff)
    thorough = tier == "thorough" or widen and tier != "quick"
    rng = rng_for(seed, "c15")
    hist = {"scenarios": 0, "entry_calls": 0, "parking": {}, "threaded": {"plain": 0, "smart": 0, "production": 0, "quiet": 0, "not_quiet": 0,
                                                                           "flavours": {}}}
    c01_lines, c01_ctx = [], []
    phase = {}
    t_ph = _time.time()
    try:
        # ---- (A) every entry point from the main thread
        scen = list(QUICK_SCEN)
        for _ in range(2):      # plus two seeded picks
            kind = rng.choice(["smart", "plain"])
            scen.append((kind, rng.choice(SMART_FLAVOURS if kind == "smart" else list(FLAVOURS)), rng.randint(0, 1)))
        if thorough:
            scen = [("smart", fl, v) for fl in SMART_FLAVOURS for v in (0, 1)] + [("plain", fl, v) for fl in FLAVOURS for v in (0, 1)]
        entry_names = set()
        for kind, fl, v in scen:
            sc = scenario_smart(fl, v) if kind == "smart" else scenario_plain(fl, v)
            judge_scenario(j, sc)
            hist["scenarios"] += 1
            hist["entry_calls"] += len(sc.calls)
            entry_names |= {c.name for c in sc.calls}
        phase["entry_probe_s"] = round(_time.time() - t_ph, 1)
        t_ph = _time.time()
        # ---- (P) parking
        for kind in ("sync-parked", "event-parked"):
            for _ in range(1 if not thorough else 3):
                r = parking_case(kind)
                st = judge_parking(j, r)
                hist["parking"][kind] = {"status": st, "blocked": r.get("blocked"), "attempted": r.get("attempted"),
                                         "t1_owned_when_parked": r.get("t1_owned_when_parked")}
        phase["parking_s"] = round(_time.time() - t_ph, 1)
        t_ph = _time.time()
        # ---- (W) waiters: every lock-taking public API vs. engine threads queued on the lock
        hist["waiters"] = {}
        for k, api in enumerate(LOCK_APIS):
            for fl, v in ([("oid-oid", k)] if not thorough else [("oid-oid", 0), ("path-oidf", 1), ("oid-oid-ci", 0)]):
                r = waiter_case(api, fl, v)
                judge_waiter(j, r)
                hist["waiters"]["%s/%s" % (api, fl)] = {"parked_in": r.get("app_parked_in"), "blocked": r.get("waiters_blocked"),
                                                         "lock_objects": r.get("lock_objects")}
        phase["waiters_s"] = round(_time.time() - t_ph, 1)
        t_ph = _time.time()
        # ---- (R) threaded runs
        n_thr = 10 if not thorough else 400
        for i in range(n_thr):
            smart = i % 3 == 2
            fl = (SMART_FLAVOURS if smart else list(FLAVOURS))[rng.randrange(len(SMART_FLAVOURS if smart else FLAVOURS))]
            production = i % 4 == 1
            r = threaded_run(seed, i, fl, smart, production, rng.randint(3, 8))
            ctx = judge_threaded(j, r, i)
            t = hist["threaded"]
            t["smart" if smart else "plain"] += 1
            t["production"] += int(production)
            t["quiet" if r.get("quiet") else "not_quiet"] += 1
            t["flavours"][fl] = t["flavours"].get(fl, 0) + 1
            if not smart and r.get("quiet") and r.get("base_ok"):
                c01_lines.append("c01 | %s | %s" % (enc_tree(r["L"], r["fold"]), enc_tree(r["R"], r["fold"])))
                c01_ctx.append((ctx, r, i))
            elif not r.get("quiet"):
                res.notes.append("threaded run %d (%s%s) did not go quiet within its time budget (timing; not asserted)" % (i, fl, " smart" if smart else ""))
        phase["threaded_s"] = round(_time.time() - t_ph, 1)
        t_ph = _time.time()
        verdicts = j.lean()
        phase["lean_monitor_s"] = round(_time.time() - t_ph, 1)
        hist["threaded"]["diverged_once"] = 0
        for v, (ctx, r0, i0) in zip(run_driver("monitor", c01_lines) if c01_lines else [], c01_ctx):
            if v == "ok":
                continue
            # the pinned engine was measured to converge in 2699 of 2700 threaded runs of this family: a divergence is reported
            # only if the same history diverges again (the same operations per thread, fresh engine, 3 more threaded runs)
            hist["threaded"]["diverged_once"] += 1
            again = []
            for k in range(3):
                r2 = threaded_run(seed, 100000 + 10 * i0 + k, r0["flavour"], False, r0["production"], 0, replay_of=r0)
                if r2.get("quiet") and r2.get("base_ok"):
                    v2 = run_driver("monitor", ["c01 | %s | %s" % (enc_tree(r2["L"], r2["fold"]), enc_tree(r2["R"], r2["fold"]))])[0]
                    again.append(v2)
            if sum(1 for x in again if x != "ok") >= 2:
                j.violations.append(dict(ctx, kind="threaded runs of this history go quiet with different trees (C01 relation, Lean monitor), "
                                                   "reproduced in %d of %d re-runs" % (sum(1 for x in again if x != "ok"), len(again)),
                                         monitor_verdict=v, rerun_verdicts=again))
            else:
                res.notes.append("threaded run %d (%s) went quiet with different trees once (%s); not reproduced in re-runs %r: noted, not reported"
                                 % (i0, r0["flavour"], v, again))
    finally:
        PROBE.unpatch_all()
        PROBE.lock = None

    # ---- known findings: replayed on the real code on every run
    for ent, what in known.items():
        if ent in j.confirmed:
            res.known.append("%s%s :: %s" % (FINDING_PREFIX, ent, what))
        else:
            res.notes.append("known finding %s%s no longer reproduces (stale)" % (FINDING_PREFIX, ent))
    # ---- fixed findings: the entry point was called from the main thread and every real mutation it made was lock-owned
    for ent in fixed_ents:
        if not j.fixed_replayed.get(ent):
            res.notes.append("fixed finding %s%s: its replay made no real mutation in this run (not exercised)" % (FINDING_PREFIX, ent))
    static_unlocked_entries = sorted({e for e, _q in unlocked})
    seen_pairs = {(e, f) for e, f, _o in j.pairs_seen}
    res.coverage.update({
        "evaluations": j.counts["observations"], "programs": hist["scenarios"] + sum(v for k, v in hist["threaded"].items() if k in ("plain", "smart")) + 2,
        "distinct_nontrivial": len(j.pairs_seen),
        "rule": "distinct (entry point, function, lock owned?) triples observed by the wrappers on the real code, over: every public/thread entry "
                "point called from the main thread in scripted scenarios (smart + plain engine, several provider flavours, dict and Sqlite storage), "
                "two parking cases with real threads, and real threaded runs (4 engine threads + 2 application threads, switch interval 1e-5, "
                "yields in provider calls) over random two-sided file histories / smart-sync call sequences",
        "samples": [{"lockmon_line": (j.lines[0][:300] if j.lines else None), "verdict": verdicts[0] if verdicts else None},
                    {"c01_line": c01_lines[0] if c01_lines else None}],
        "disagreements_checked": len(j.violations) + len(j.crosscheck),
        "traces_validated_against_impl": j.counts["windows"], "trace_events": j.counts.get("trace_events", 0),
        "hard_mutations_observed": j.counts["hard"], "hard_unowned_in_known_findings": j.counts["hard_unowned_known"],
        "unowned_reads_observed": j.counts["unowned_reads"], "container_mutations_outside_any_mutating_function": j.unattributed,
        "static_table": {"entry_points": len(ents), "rows": len(rows), "unlocked_rows": sum(1 for r in rows if not r[2]),
                         "mutating_functions": len(mutators), "diff_vs_audited": diff[:20],
                         "unlocked_entry_points": static_unlocked_entries, "lock_binding_sites": [list(b) for b in bindings],
                         "lock_binding_diff_vs_audited": bind_diff},
        "lock_identity": {"identity_checks": PROBE.identity_polls, "rule": "id(state.lock) recorded when the state is constructed and compared at every "
                          "probe (mutation, read, lock acquisition); ownership is tested against the object state.lock denotes at that moment",
                          "identity_changes_observed": sum(1 for o in j_all_obs(j) if o.startswith("lock-rebound")),
                          "stale_lock_sections_observed": sum(1 for o in j_all_obs(j) if o.startswith("stale-lock"))},
        "static_rows_observed_dynamically": len({(e, q) for e, q, _ok in rows} & seen_pairs),
        "static_unlocked_rows_confirmed_dynamically": len({(e, f) for e, f, o in j.pairs_seen if not o} & unlocked),
        "entry_points_exercised": sorted(entry_names), "histogram": hist, "phase_seconds": phase, "convergence_lines": len(c01_lines),
        "lockmon_verdicts": {v.split(" ")[0]: sum(1 for x in verdicts if x.split(" ")[0] == v.split(" ")[0]) for v in set(verdicts)},
        "fingerprints": fingerprints(FP_SPEC), "known_findings_confirmed": sorted(j.confirmed),
        "fixed_findings_replayed": {e: "%d real mutations, all with the lock owned" % n for e, n in sorted(j.fixed_replayed.items())},
    })
    res.assumptions += [
        "the lock-site extractor (tools/gen_lock_sites.py, syntactic, conservative call graph by method name) is trusted; it is cross-checked "
        "dynamically: every unowned observation must be an UNLOCKED row",
        "CPython threads, the GIL and threading.RLock are trusted (modelled by Model/Lock.lean's re-entrant lock)",
        "OS-level schedules are sampled (switch interval 1e-5, injected yields), not enumerated; the serializability theorem covers all "
        "interleavings of the MODEL; lock ownership at every observed mutation is what ties the code to the model's discipline",
        "unlocked pure reads by public methods (lookup_oid/lookup_path/get_all from smart_info_*/listdir/busy) are counted, not reported: the "
        "property speaks of read-modify-write",
        "subscript stores `ent[side] = x` and private `_last_gotten` writes are not hooked individually (covered at function granularity)",
        "threaded convergence is asserted only for runs that went quiet within the time budget on families measured reliable (two-sided file "
        "create/overwrite/delete); a run that does not go quiet in time is noted, not reported",
    ]
    # ---- verdict
    broken = list(proof_broken)
    if diff:
        broken.append("lock-site table differs from the audited table (theorem CS.Lock.lock_sites_audited): %d rows, first %r" % (len(diff), diff[:3]))
    if bind_diff:
        broken.append("lock identity: the binding sites of the lock attribute differ from the audited list (theorems CS.Lock.lock_bindings_audited, "
                      "lock_identity_stable): %r" % (bind_diff[:4],))
    if j.crosscheck:
        broken.append("static/dynamic cross-check: %r" % (j.crosscheck[0],))
    seen = set()
    for v in j.violations:
        key = (v.get("entry_point") or v.get("threaded_run") or v.get("parking"), v["kind"], str(v.get("observation", {}).get("function")))
        if key in seen:
            continue
        seen.add(key)
        if len(seen) > 4:
            break
        v = dict(v, property=PID, broken=broken[:3], table_diff=diff[:10], lock_binding_diff=bind_diff)
        res.violation(v)
    if broken and not j.violations:
        verdicts_d = [tolerable_row(d, j, mutators, defined, lockless, delegating) for d in diff]
        drift_ok = bool(diff) and all(ok for ok, _why in verdicts_d) and not j.crosscheck and not bind_diff   # binding sites: always strict
        only_table = False
        if drift_ok:
            # the table modules are property-local: when they do not build every theorem of the audit file is reported missing;
            # re-audit Part A (the model theorems, which do not depend on the table) on its own
            rest = audit_part_a()
            only_table = not rest
            res.coverage["part_A_audit_after_table_change"] = rest or "clean"
        if drift_ok and only_table:
            kinds = {}
            for (_ok, why) in verdicts_d:
                kinds[why] = kinds.get(why, 0) + 1
            res.coverage["table_drift_accepted"] = kinds
            res.notes.append("the regenerated lock-site table differs from the audited table only in safe directions (%s) and no unlocked mutation was "
                             "observed: the audited table in Props/C15Table.lean needs a refresh; not a violation"
                             % ", ".join("%d x %s" % (n, k) for k, n in sorted(kinds.items())))
        else:
            res.violation({"property": PID, "kind": "proof obligation / generated table / cross-check no longer checks; no unlocked mutation observed",
                           "broken": broken, "table_diff": diff[:40], "lock_binding_diff": bind_diff, "crosscheck": j.crosscheck[:5],
                           "rows_not_tolerable": [dict(d, why=w) for d, (ok, w) in zip(diff, verdicts_d) if not ok][:20]}, no_input=True)

if __name__ == "__main__":
    gen_lock_sites.write_gen()
    standard_main(PID, run)
