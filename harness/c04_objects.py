"""C04, object-identity family: both sides touch DIFFERENT OBJECTS whose PATHS may be related.

The existing C04 family (`fam_disjoint`, engine_checks.py) gives each side its own top-level subtrees, and its specification is
path based.  Here the specification is the object tree of lean/Csverif/Model/Spec/ObjTree.lean: every object has a stable id,
a parent id (or the root), a name and a kind; the user operations address OBJECTS.  Two sides are object-disjoint if no object is
operated on by both -- a file created inside / moved into / renamed inside / deleted from a folder that the other side renames,
moves or (after emptying it) deletes is object-disjoint although the paths are related.

  * the harness keeps object identity itself: an object is named by the slot (parent object, name) it was created at (base or
    `create`/`mkdir`) and followed through its `move`s; provider ids are never consulted.  To issue an operation on side s the
    harness needs the path the object has ON THAT SIDE NOW (the engine may or may not have propagated the other side's moves of the
    containing folders yet): `ObjRun.resolve` walks the parent chain and tries, for a folder owned by the other side, every slot
    that folder has had so far -- well defined because a slot, once used, is never used again in a run (generator rule G1).
  * per run it emits to the Lean layer `monc04`: the base object tree, both sides' operation sequences (by object id) and the
    final path trees of both sides.  Lean computes the merged object tree, projects it to paths and compares both sides exactly.
    Runs whose sequences are not `Compatible` (some interleaving of them is invalid: name clash, putting something into a folder
    the other side deletes, a move cycle) are answered `skip` and counted.
  * the Python class `OT` mirrors the Lean definitions; it is used to GENERATE (validity, compatibility) and as a cross-check:
    a disagreement between the mirror's verdict and Lean's is a harness error, never a verdict.

Generator rules (measured weak spots of the pinned engine, excluded by construction, see DELIVERY_C04.md):
  G1  a slot (parent object, name) that has ever been occupied in the run (base, either side) is never the target of a later
      create / mkdir / move (no reuse of a freed name; whole run, all flavours);
  G2  a side does not move/rename a folder beneath which THE SAME SIDE has created, written or moved something in since the last
      quiescence (the other side doing so is exactly what this family generates); "beneath" is judged both when the content was
      touched and when the folder is moved (the other side may have moved the touched object's folder beneath it meanwhile);
  G4  no three objects on one ancestor chain are touched (moved/renamed, written, created) in one run (two -- a folder and
      something beneath it, by different sides -- is what the family is about);
  G3  further syntactic filters found by calibration: see `SHAPE_FILTERS`.
"""
import itertools
import os
import random
import sys

sys.path.insert(0, os.path.dirname(os.path.abspath(__file__)))
from histories import *  # noqa  (World, FLAVOURS, enc_rel, enc_tree, content, tag_of, tree_lines, conflicted, run_driver ...)

LAYER = "monc04"


def _install_mock_order():
    """engine.py's determinisation leaves one identity-ordered `set` in the mock provider's folder rename; a replay must be
    reproducible, so the insertion-ordered set is injected there too (harness-level, nothing in /repo changes)."""
    import cloudsync.providers.mock as mk
    mk.set = OrderedSet


# ---------------------------------------------------------------------------------------------------------------
# the Python mirror of lean/Csverif/Model/Spec/ObjTree.lean

class OT:
    """object tree: id -> [parent id or None, name, kind 'd'/'f', tag]"""
    def __init__(self, objs=None):
        self.o = {k: list(v) for k, v in (objs or {}).items()}

    def copy(self):
        return OT(self.o)

    def kids(self, i):
        return [k for k, v in self.o.items() if v[0] == i]

    def anc_self(self, p):
        """p and its ancestors (cycle-guarded)"""
        out = []
        n = len(self.o) + 1
        while p is not None and n > 0 and p in self.o:
            out.append(p)
            p = self.o[p][0]
            n -= 1
        return out

    def path(self, i):
        comps = []
        n = len(self.o) + 1
        while i is not None:
            if i not in self.o or n == 0:
                return None
            comps.append(self.o[i][1])
            i = self.o[i][0]
            n -= 1
        return "/" + "/".join(reversed(comps))

    def slot_free(self, i, p, name, fold=False):
        f = (lambda x: x.lower()) if fold else (lambda x: x)
        return all(k == i or not (v[0] == p and f(v[1]) == f(name)) for k, v in self.o.items())

    def parent_ok(self, p):
        return p is None or (p in self.o and self.o[p][2] == "d")

    def valid(self, op, fold=False):
        k, i = op[0], op[1]
        if k in ("create", "mkdir"):
            return i not in self.o and self.parent_ok(op[2]) and self.slot_free(i, op[2], op[3], fold)
        if k == "write":
            return i in self.o and self.o[i][2] == "f"
        if k == "delete":
            return i in self.o and (self.o[i][2] == "f" or not self.kids(i))
        if k == "move":
            return i in self.o and self.parent_ok(op[2]) and self.slot_free(i, op[2], op[3], fold) and i not in self.anc_self(op[2])
        raise HarnessError("bad op %r" % (op,))

    def apply(self, op):
        k, i = op[0], op[1]
        if k == "create":
            self.o[i] = [op[2], op[3], "f", op[4]]
        elif k == "mkdir":
            self.o[i] = [op[2], op[3], "d", None]
        elif k == "write":
            if i in self.o:
                self.o[i][2], self.o[i][3] = "f", op[2]
        elif k == "delete":
            self.o.pop(i, None)
        elif k == "move":
            if i in self.o:
                self.o[i][0], self.o[i][1] = op[2], op[3]
        return self

    def paths(self):
        out = {}
        for i, v in self.o.items():
            p = self.path(i)
            if p is not None:
                out[p] = ("d", None) if v[2] == "d" else ("f", v[3])
        return out


def all_valid(t, a, b, fold=False):
    """every interleaving of a and b is valid from t (the Lean `allValid`)"""
    if not a:
        u = t.copy()
        for x in b:
            if not u.valid(x, fold):
                return False
            u.apply(x)
        return True
    if not b:
        return all_valid(t, b, a, fold)
    return (t.valid(a[0], fold) and t.valid(b[0], fold)
            and all_valid(t.copy().apply(a[0]), a[1:], b, fold) and all_valid(t.copy().apply(b[0]), a, b[1:], fold))


def op_id(op):
    return op[1]


def obj_disjoint(a, b):
    return not ({op_id(x) for x in a} & {op_id(x) for x in b})


# ---------------------------------------------------------------------------------------------------------------
# wire format for the Lean layer

def enc_oid(p):
    return "~" if p is None else str(p)


def enc_name(n, fold):
    return enc_str(n.lower() if fold else n)


def enc_obj(i, v, fold):
    return "%d:%s:%s:%s" % (i, enc_oid(v[0]), enc_name(v[1], fold), "D" if v[2] == "d" else "F%d" % v[3])


def enc_oop(op, fold):
    k = op[0]
    if k == "create":
        return "C:%d:%s:%s:%d" % (op[1], enc_oid(op[2]), enc_name(op[3], fold), op[4])
    if k == "mkdir":
        return "M:%d:%s:%s" % (op[1], enc_oid(op[2]), enc_name(op[3], fold))
    if k == "write":
        return "W:%d:%d" % (op[1], op[2])
    if k == "delete":
        return "D:%d" % op[1]
    if k == "move":
        return "V:%d:%s:%s" % (op[1], enc_oid(op[2]), enc_name(op[3], fold))
    raise HarnessError("bad op %r" % (op,))


def enc_line(base, ops_l, ops_r, tl, tr, fold):
    return "c04o | %s | %s | %s | %s | %s" % (
        " ".join(enc_obj(i, base.o[i], fold) for i in sorted(base.o)),
        " ".join(enc_oop(o, fold) for o in ops_l), " ".join(enc_oop(o, fold) for o in ops_r),
        enc_tree(tl, fold), enc_tree(tr, fold))


def tag_tree(t):
    return {k: (("d", None) if v[0] == "d" else ("f", tag_of(v[1]))) for k, v in t.items()}


# ---------------------------------------------------------------------------------------------------------------
# one run

class ObjRun:
    """a World + the object bookkeeping of one run"""
    def __init__(self, flavour, rng, storage="mock"):
        self.w = World(flavour, storage=storage)
        _install_mock_order()
        self.rng = rng
        self.fold = flavour.endswith("-ci")
        self.flavour = flavour
        self.trace = []
        self.next_tag = 1
        self.next_id = 1
        self.base = None            # OT at the synchronised base
        self.truth = None           # OT with every accepted operation applied in real-time order
        self.own = [None, None]     # OT: base + this side's accepted operations only
        self.owner = {}             # id -> side
        self.hist = {}              # id -> [(parent, name), ...] every slot the object has had
        self.slots = set()          # every (parent, folded name) ever occupied (G1)
        self.allow_reuse = False    # G1 lifted (REUSE_TEMPLATES only)
        self.ops = [[], []]
        self.order = []             # real-time order of the accepted ops: (side, op)
        self.dirty = [set(), set()]  # ids of folders beneath which the side created / wrote / moved something in (G2)
        self.touched = [set(), set()]  # ids of the objects the side created / wrote / moved since the last quiescence (G2)
        self.rejected = 0
        self.unresolved = 0
        self.notes = []
        # bookkeeping for the shape filters (G3): per side, the folders it moved; the folders from beneath which it deleted a file or
        # moved an object to another parent; the folders beneath which it made a new folder
        self.moved_dirs = [set(), set()]
        self.left_from = [set(), set()]
        self.mkdir_under = [set(), set()]
        self.written = [set(), set()]       # files written / moved by the side, and the folders above a file it both wrote and moved
        self.fmoved = [set(), set()]
        self.wm_under = [set(), set()]
        self.omoved = [set(), set()]        # every object the side moved (files and folders)
        self.created = [set(), set()]       # every object the side created
        self.filtered_by = None

    def close(self):
        self.w.close()

    # -- engine stepping ---------------------------------------------------------------------------
    def engine(self, which):
        self.trace.append(which)
        return self.w.step(which)

    def word(self, word):
        for x in word:
            self.engine(x)

    def quiesce(self, cap=400, order=None):
        """fair stepping to quiet (random permutation of L,R,S per round, or a fixed rotation); True if quiet was reached"""
        quiet_rounds = 0
        n = 0
        while n < cap:
            seq = list(order) if order else list("LRS")
            if not order:
                self.rng.shuffle(seq)
            for x in seq:
                self.engine(x)
                n += 1
            if not self.w.busy():
                quiet_rounds += 1
                if quiet_rounds >= 2:
                    self.dirty = [set(), set()]
                    self.touched = [set(), set()]
                    return True
            else:
                quiet_rounds = 0
        return False

    def fresh_tag(self):
        t = self.next_tag
        self.next_tag += 1
        return t

    def fresh_id(self):
        i = self.next_id
        self.next_id += 1
        return i

    # -- base --------------------------------------------------------------------------------------
    def build_base(self, paths, side):
        """paths: list of (rel, 'd'|'f') in creation order, created on one side, then quiescence; objects get ids in that order"""
        objs = {}
        by_path = {}
        for rel, kind in paths:
            par, name = rel.rsplit("/", 1)
            i = self.fresh_id()
            tag = None
            if kind == "d":
                err = self.w.user(side, "mkdir", self.w.roots[side] + rel)
            else:
                tag = self.fresh_tag()
                err = self.w.user(side, "create", self.w.roots[side] + rel, content(tag))
            if err:
                raise HarnessError("base construction rejected %s: %s" % (rel, err))
            objs[i] = [by_path[par] if par else None, name, kind, tag]
            by_path[rel] = i
        self.trace.append("BASE%d:%s" % (side, ",".join(r for r, _ in paths)))
        ok = self.quiesce()
        self.base = OT(objs)
        self.truth = self.base.copy()
        self.own = [self.base.copy(), self.base.copy()]
        for i, v in objs.items():
            self.hist[i] = [(v[0], v[1])]
            self.slots.add((v[0], v[1].lower()))
        want = self.base.paths()
        return ok and tag_tree(self.w.tree(0)) == want and tag_tree(self.w.tree(1)) == want

    # -- where is object i on side s right now? ------------------------------------------------------
    def resolve(self, s, i, tree=None, seen=()):
        """root-relative path of object i in side s's CURRENT tree, or None.  '' is the root."""
        if i is None:
            return ""
        if i in seen:
            return None         # candidate chains of the two sides' views can close a loop; such a candidate is not where the object is
        seen = seen + (i,)
        tree = tree if tree is not None else self.w.tree(s)
        kind = self.truth.o[i][2] if i in self.truth.o else None
        if self.owner.get(i) == s:
            if i not in self.own[s].o:
                return None
            cands = [tuple(self.own[s].o[i][:2])]
            kind = self.own[s].o[i][2]
        else:
            cands = list(reversed(self.hist.get(i, [])))
            if kind is None:
                kind = "d"
        for par, name in cands:
            pp = self.resolve(s, par, tree, seen)
            if pp is None:
                continue
            rel = pp + "/" + name
            hit = self._lookup(tree, rel)
            if hit is not None and tree[hit][0] == kind:
                return hit
        return None

    def _lookup(self, tree, rel):
        if rel in tree:
            return rel
        if self.fold:
            low = rel.lower()
            for k in tree:
                if k.lower() == low:
                    return k
        return None

    # -- user operations by object -------------------------------------------------------------------
    def admissible(self, s, op, unfiltered=False):
        """generator rules + validity in the real-time truth + compatibility of the two sequences so far
        (unfiltered=True: without G2 and the shape filters G3 -- only for the exact replays of the known findings)"""
        k, i = op[0], op[1]
        if k not in ("create", "mkdir") and self.owner.get(i) != s:
            return False
        if not self.truth.valid(op, self.fold):
            return False
        if k in ("create", "mkdir", "move"):
            if (op[2], op[3].lower()) in self.slots and not self.allow_reuse:
                return False                                                            # G1
        if k == "move" and self.truth.o[i][2] == "d" and not unfiltered:
            if i in self.dirty[s]:
                return False                                                            # G2
            if any(i in self.truth.anc_self(self.truth.o[j][0]) for j in self.touched[s] if j in self.truth.o):
                return False                                                            # G2 (content that ARRIVED beneath the folder later)
        if not unfiltered and self.chain_of_three(op):
            return False                                                                # G4
        mine = self.ops[s] + [op]
        other = self.ops[1 - s]
        a, b = (mine, other) if s == 0 else (other, mine)
        if not all_valid(self.base, a, b, self.fold):
            return False
        return unfiltered or not shape_filtered(self, s, op)

    def chain_of_three(self, op):
        """G4: would this operation put three objects that were touched in this run (moved/renamed, written or created, by either
        side) on ONE ancestor chain?  Two -- a folder and something beneath it -- is what the family is about; three is a measured
        weak spot of the pinned engine (known finding obj-three-touched-on-one-chain)"""
        t = self.truth
        k, i = op[0], op[1]
        touched = (self.omoved[0] | self.omoved[1] | self.written[0] | self.written[1] | self.created[0] | self.created[1]) - {i}
        if k in ("create", "mkdir"):
            above = set(t.anc_self(op[2]))
        elif k == "move":
            above = set(t.anc_self(op[2])) | set(t.anc_self(t.o[i][0]))
        elif k == "write":
            above = set(t.anc_self(t.o[i][0]))
        else:
            return False
        n_up = len(touched & above)
        down = 0
        if k == "move":
            for m in touched:
                if m in t.o:
                    chain = t.anc_self(t.o[m][0])
                    if i in chain:
                        down = max(down, 1 + len([x for x in chain[:chain.index(i)] if x in touched]))
        return n_up + 1 + down >= 3

    def user(self, s, op):
        """issues the operation on side s by path; returns True if the provider accepted it (then it is recorded)"""
        k, i = op[0], op[1]
        tree = self.w.tree(s)
        root = self.w.roots[s]
        if k in ("create", "mkdir"):
            pp = self.resolve(s, op[2], tree)
            if pp is None:
                self.unresolved += 1
                return False
            rel = pp + "/" + op[3]
            err = self.w.user(s, "create", root + rel, content(op[4])) if k == "create" else self.w.user(s, "mkdir", root + rel)
        else:
            src = self.resolve(s, i, tree)
            if src is None:
                self.unresolved += 1
                return False
            if k == "write":
                err = self.w.user(s, "write", root + src, content(op[2]))
            elif k == "delete":
                err = self.w.user(s, "delete", root + src)
            else:
                pp = self.resolve(s, op[2], tree)
                if pp is None:
                    self.unresolved += 1
                    return False
                rel = pp + "/" + op[3]
                err = self.w.user(s, "rename", root + src, root + rel)
        self.trace.append("U%d:%s" % (s, ":".join(str(x) for x in op)))
        if err:
            self.rejected += 1
            self.trace.append("!%s" % err)
            return False
        self.record(s, op)
        return True

    def record(self, s, op):
        k, i = op[0], op[1]
        if k in ("create", "mkdir"):
            self.owner[i] = s
            self.hist[i] = [(op[2], op[3])]
            self.slots.add((op[2], op[3].lower()))
        elif k == "move":
            self.hist[i].append((op[2], op[3]))
            self.slots.add((op[2], op[3].lower()))
        if k in ("create", "mkdir", "move"):
            for a in self.truth.anc_self(op[2]):
                self.dirty[s].add(a)
        if leaves_folder(self.truth, op):
            self.left_from[s].update(self.truth.anc_self(self.truth.o[i][0]))
        if k == "mkdir" or (k == "move" and self.truth.o[i][2] == "d" and i not in self.base.o):
            self.mkdir_under[s].update(self.truth.anc_self(op[2]))
        if k == "write":
            self.written[s].add(i)
        if k == "move":
            self.omoved[s].add(i)
        if k in ("create", "mkdir"):
            self.created[s].add(i)
        if k == "delete" and i in self.omoved[s]:
            self.wm_under[s].update(self.truth.anc_self(self.truth.o[i][0]))
        if k == "move" and self.truth.o[i][2] == "f":
            self.fmoved[s].add(i)
        if k in ("write", "move") and i in self.written[s] and i in self.fmoved[s]:
            self.wm_under[s].update(self.truth.anc_self(self.truth.o[i][0]))
            if k == "move":
                self.wm_under[s].update(self.truth.anc_self(op[2]))
        if k == "move" and self.truth.o[i][2] == "d":
            self.moved_dirs[s].add(i)
        if k == "write":
            for a in self.truth.anc_self(self.truth.o[i][0]):
                self.dirty[s].add(a)
        if k in ("create", "mkdir", "write", "move"):
            self.touched[s].add(i)
        self.truth.apply(op)
        self.own[s].apply(op)
        self.ops[s].append(op)
        self.order.append((s, op))

    # -- result ------------------------------------------------------------------------------------
    def expected(self):
        return self.truth.paths()

    def summary(self, extra=None):
        d = {"flavour": self.flavour, "base": {str(i): v for i, v in self.base.o.items()} if self.base else None,
             "owner": {str(i): s for i, s in self.owner.items()},
             "opsL": [list(o) for o in self.ops[0]], "opsR": [list(o) for o in self.ops[1]],
             "schedule": self.trace, "left": tree_lines(self.w.tree(0)), "right": tree_lines(self.w.tree(1)),
             "expected": sorted("%s %s" % (k, "D" if v[0] == "d" else "F:v%d" % v[1]) for k, v in self.expected().items())}
        if extra:
            d.update(extra)
        return d


# ---------------------------------------------------------------------------------------------------------------
# shape filters found by calibration on the pinned engine (each is a known finding with an exact replay, see KNOWN below)

def leaves_folder(t, op):
    """the operation takes an object out of its parent folder: a FILE is deleted, or any object is moved to another parent"""
    k, i = op[0], op[1]
    if i not in t.o:
        return False
    if k == "delete":
        return t.o[i][2] == "f"
    return k == "move" and op[2] != t.o[i][0]


def f_leave_moved_folder(run, s, op):
    """X1: a file is deleted from / an object is moved out of a folder F (at any depth beneath F) by one side while the other side
    moves or renames F: the pinned engine puts the object back (resurrection / undone move) on some schedules"""
    t, o = run.truth, 1 - s
    if leaves_folder(t, op) and set(t.anc_self(t.o[op[1]][0])) & run.moved_dirs[o]:
        return True
    return op[0] == "move" and t.o[op[1]][2] == "d" and op[1] in run.left_from[o]


def f_mkdir_in_moved_folder(run, s, op):
    """X2: a new folder (made in this run, by mkdir there or by mkdir elsewhere + move) arrives beneath a folder F by one side while
    the other side moves or renames F: the pinned engine re-creates F's old path for the new folder on some schedules (a new FILE
    there, and a folder of the synchronised base moved there, are handled correctly)"""
    t, o = run.truth, 1 - s
    newdir = op[0] == "mkdir" or (op[0] == "move" and t.o[op[1]][2] == "d" and op[1] not in run.base.o)
    if newdir and set(t.anc_self(op[2])) & (run.moved_dirs[o] | run.moved_dirs[s]):
        return True         # (also when the SAME side moved F earlier in the window: the one-sided form of the same weakness)
    return op[0] == "move" and t.o[op[1]][2] == "d" and op[1] in run.mkdir_under[o]


def f_write_and_rename_in_moved_folder(run, s, op):
    """X3: one side both overwrites and renames/moves the same file (either order), or renames and then deletes the same object,
    beneath a folder F while the other side moves or renames F: on some schedules the pinned engine leaves a duplicate of the file
    under its old name with its old content / a '.conflicted' copy of the deleted folder"""
    t, o = run.truth, 1 - s
    k, i = op[0], op[1]
    if k == "delete" and i in run.omoved[s] and set(t.anc_self(t.o[i][0])) & run.moved_dirs[o]:
        return True         # the same weakness with rename + delete of one object (a '.conflicted' copy of the deleted folder appears)
    if (k == "write" and i in run.fmoved[s]) or (k == "move" and i in run.written[s]):
        above = set(t.anc_self(t.o[i][0])) | (set(t.anc_self(op[2])) if k == "move" else set())
        if above & run.moved_dirs[o]:
            return True
    return k == "move" and t.o[i][2] == "d" and i in run.wm_under[o]


SHAPE_FILTERS = {"leave-moved-folder": f_leave_moved_folder, "mkdir-in-moved-folder": f_mkdir_in_moved_folder,
                 "write+rename-in-moved-folder": f_write_and_rename_in_moved_folder}


def shape_filtered(run, s, op):
    for name, f in SHAPE_FILTERS.items():
        if f(run, s, op):
            run.filtered_by = name
            return True
    return False


# ---------------------------------------------------------------------------------------------------------------
# enumerated scenarios.  A template is instantiated with names (both alphabetical orders of old/new names occur); objects are
# referred to by their base path, created objects by a label "+x".  "L"/"R" are the two roles; the roles are mapped to the real
# sides both ways.
#   ("move", obj, new parent or None = root, new name)   ("delete", obj)   ("write", obj)
#   ("create", "+label", parent, name)                   ("mkdir", "+label", parent, name)

def _t(base, own_r, ops_l, ops_r):
    """own_r: base paths owned by role R (everything else by role L)"""
    return {"base": base, "ownR": set(own_r), "L": ops_l, "R": ops_r}


def tpl_movein_rmdir_vs_rename(A, F, D, D2):
    a, d = "/" + A, "/" + D
    return _t([(a, "d"), (a + "/" + F, "f"), (d, "d")], [d],
              [("move", a + "/" + F, d, F), ("delete", a)], [("move", d, None, D2)])


def tpl_movein_rmdir_vs_rename_nonempty(A, F, D, D2):
    a, d = "/" + A, "/" + D
    return _t([(a, "d"), (a + "/" + F, "f"), (d, "d"), (d + "/k.txt", "f")], [d],
              [("move", a + "/" + F, d, F), ("delete", a)], [("move", d, None, D2)])


def tpl_dirrename_vs_filerename(E, E2, F, G):
    e = "/" + E
    return _t([(e, "d"), (e + "/" + F, "f")], [e + "/" + F], [("move", e, None, E2)], [("move", e + "/" + F, e, G)])


def tpl_dirrename_vs_write(E, E2, F, G):
    e = "/" + E
    return _t([(e, "d"), (e + "/" + F, "f")], [e + "/" + F], [("move", e, None, E2)], [("write", e + "/" + F)])


def tpl_dirrename_vs_create(E, E2, F, G):
    e = "/" + E
    return _t([(e, "d"), (e + "/" + F, "f")], [], [("move", e, None, E2)], [("create", "+n", e, G)])


def tpl_dirrename_vs_delete(E, E2, F, G):
    e = "/" + E
    return _t([(e, "d"), (e + "/" + F, "f"), (e + "/" + G, "f")], [e + "/" + F], [("move", e, None, E2)], [("delete", e + "/" + F)])


def tpl_dirrename_vs_delete_last(E, E2, F, G):
    e = "/" + E
    return _t([(e, "d"), (e + "/" + F, "f")], [e + "/" + F], [("move", e, None, E2)], [("delete", e + "/" + F)])


def tpl_dirrename_vs_mkdir_create(E, E2, F, G):
    e = "/" + E
    return _t([(e, "d"), (e + "/" + F, "f")], [], [("move", e, None, E2)], [("mkdir", "+s", e, G), ("create", "+x", "+s", "x.txt")])


def tpl_dirmove_vs_filerename(E, D, F, G):
    e, d = "/" + E, "/" + D
    return _t([(e, "d"), (e + "/" + F, "f"), (d, "d")], [e + "/" + F], [("move", e, d, E)], [("move", e + "/" + F, e, G)])


def tpl_dirmove_vs_create(E, D, F, G):
    e, d = "/" + E, "/" + D
    return _t([(e, "d"), (e + "/" + F, "f"), (d, "d")], [], [("move", e, d, E)], [("create", "+n", e, G)])


def tpl_dirmove_vs_delete(E, D, F, G):
    e, d = "/" + E, "/" + D
    return _t([(e, "d"), (e + "/" + F, "f"), (e + "/" + G, "f"), (d, "d")], [e + "/" + F], [("move", e, d, E)], [("delete", e + "/" + F)])


def tpl_movein_vs_dirmove(A, F, D, E):
    a, d, e = "/" + A, "/" + D, "/" + E
    return _t([(a, "d"), (a + "/" + F, "f"), (d, "d"), (e, "d")], [d], [("move", a + "/" + F, d, F)], [("move", d, e, D)])


def tpl_movein_rmdir_vs_dirmove(A, F, D, E):
    a, d, e = "/" + A, "/" + D, "/" + E
    return _t([(a, "d"), (a + "/" + F, "f"), (d, "d"), (e, "d")], [d],
              [("move", a + "/" + F, d, F), ("delete", a)], [("move", d, e, D)])


def tpl_dirrename_vs_movein(E, E2, D, G):
    e, d = "/" + E, "/" + D
    return _t([(e, "d"), (d, "d"), (d + "/" + G, "f")], [d + "/" + G], [("move", e, None, E2)], [("move", d + "/" + G, e, G)])


def tpl_dirrename_vs_moveout(E, E2, D, F):
    e, d = "/" + E, "/" + D
    return _t([(e, "d"), (e + "/" + F, "f"), (d, "d")], [e + "/" + F], [("move", e, None, E2)], [("move", e + "/" + F, d, F)])


def tpl_dirrename_vs_moveout_root(E, E2, F, G):
    e = "/" + E
    return _t([(e, "d"), (e + "/" + F, "f")], [e + "/" + F], [("move", e, None, E2)], [("move", e + "/" + F, None, G)])


def tpl_nested_dirrenames(E, E2, S, S2):
    e = "/" + E
    s = e + "/" + S
    return _t([(e, "d"), (s, "d"), (s + "/f.txt", "f")], [s], [("move", e, None, E2)], [("move", s, e, S2)])


def tpl_nested_dirrename_vs_deepfile(E, E2, S, G):
    e = "/" + E
    s = e + "/" + S
    return _t([(e, "d"), (s, "d"), (s + "/f.txt", "f")], [s + "/f.txt"], [("move", e, None, E2)], [("move", s + "/f.txt", s, G)])


def tpl_inner_dirrename_vs_deepwrite(E, S, S2, G):
    e = "/" + E
    s = e + "/" + S
    return _t([(e, "d"), (s, "d"), (s + "/f.txt", "f")], [s + "/f.txt"], [("move", s, e, S2)], [("write", s + "/f.txt"), ("create", "+n", s, G)])


def tpl_moveup_vs_inner_rename(E, S, S2, F):
    e = "/" + E
    s = e + "/" + S
    return _t([(e, "d"), (s, "d"), (s + "/" + F, "f"), (s + "/keep.txt", "f")], [s], [("move", s + "/" + F, e, F)], [("move", s, e, S2)])


def tpl_empty_out_two_vs_rename(A, F, D, D2):
    a, d = "/" + A, "/" + D
    return _t([(a, "d"), (a + "/" + F, "f"), (a + "/q.txt", "f"), (d, "d")], [d],
              [("move", a + "/" + F, d, F), ("move", a + "/q.txt", None, "q2.txt"), ("delete", a)], [("move", d, None, D2)])


def tpl_delete_all_rmdir_in_renamed_parent(P, P2, A, F):
    p = "/" + P
    a = p + "/" + A
    return _t([(p, "d"), (a, "d"), (a + "/" + F, "f"), (p + "/other.txt", "f")], [p],
              [("delete", a + "/" + F), ("delete", a)], [("move", p, None, P2)])


def tpl_nested_movein_rmdir_vs_rename(P, A, D, D2):
    p, d = "/" + P, "/" + D
    a = p + "/" + A
    return _t([(p, "d"), (a, "d"), (a + "/f.txt", "f"), (d, "d")], [d],
              [("move", a + "/f.txt", d, "f.txt"), ("delete", a)], [("move", d, None, D2)])


def tpl_movein_rmdir_vs_parent_rename(P, P2, A, D):
    """the emptied folder and the target folder both live inside a folder the other side renames"""
    p = "/" + P
    a, d = p + "/" + A, p + "/" + D
    return _t([(p, "d"), (a, "d"), (a + "/f.txt", "f"), (d, "d")], [p],
              [("move", a + "/f.txt", d, "f.txt"), ("delete", a)], [("move", p, None, P2)])


def tpl_both_rename_sibling_files_in_renamed(E, E2, F, G):
    e = "/" + E
    return _t([(e, "d"), (e + "/" + F, "f"), (e + "/w.txt", "f")], [e + "/" + F],
              [("move", e, None, E2), ("write", e + "/w.txt")], [("move", e + "/" + F, e, G)])


def tpl_dirrename_vs_mkdir(E, E2, F, G):
    e = "/" + E
    return _t([(e, "d"), (e + "/" + F, "f")], [], [("move", e, None, E2)], [("mkdir", "+s", e, G)])


def tpl_dirmove_vs_mkdir(E, D, F, G):
    e, d = "/" + E, "/" + D
    return _t([(e, "d"), (e + "/" + F, "f"), (d, "d")], [], [("move", e, d, E)], [("mkdir", "+s", e, G)])


def tpl_dirrename_vs_mkdir_deep(E, E2, S, G):
    e = "/" + E
    s = e + "/" + S
    return _t([(e, "d"), (s, "d"), (s + "/f.txt", "f")], [], [("move", e, None, E2)], [("mkdir", "+s", s, G)])


def tpl_dirrename_vs_create_deep(E, E2, S, G):
    e = "/" + E
    s = e + "/" + S
    return _t([(e, "d"), (s, "d"), (s + "/f.txt", "f")], [], [("move", e, None, E2)], [("create", "+n", s, G)])


def tpl_dirrename_vs_inner_dir_moveout(E, E2, S, S2):
    e = "/" + E
    s = e + "/" + S
    return _t([(e, "d"), (s, "d"), (s + "/f.txt", "f")], [s], [("move", e, None, E2)], [("move", s, None, S2)])


def tpl_dirrename_vs_rmdir_inside(E, E2, S, S2):
    e = "/" + E
    s = e + "/" + S
    return _t([(e, "d"), (s, "d"), (e + "/f.txt", "f")], [s], [("move", e, None, E2)], [("delete", s)])


def tpl_dirrename_vs_movein_dir(E, E2, D, G):
    e, d = "/" + E, "/" + D
    return _t([(e, "d"), (d, "d"), (d + "/" + G, "f")], [d], [("move", e, None, E2)], [("move", d, e, D)])


def tpl_two_dirrenames_unrelated_plus_cross_move(A, F, D, D2):
    a, d = "/" + A, "/" + D
    return _t([(a, "d"), (a + "/" + F, "f"), (d, "d")], [d],
              [("move", a + "/" + F, d, F), ("move", a, None, A + "9")], [("move", d, None, D2)])


def tpl_dirrename_vs_write_and_filerename(E, E2, F, G):
    e = "/" + E
    return _t([(e, "d"), (e + "/" + F, "f")], [e + "/" + F], [("move", e, None, E2)], [("write", e + "/" + F), ("move", e + "/" + F, e, G)])


def tpl_dirrename_vs_filerename_and_write(E, E2, F, G):
    e = "/" + E
    return _t([(e, "d"), (e + "/" + F, "f")], [e + "/" + F], [("move", e, None, E2)], [("move", e + "/" + F, e, G), ("write", e + "/" + F)])


def tpl_dirrename_vs_filerename_twice(E, E2, F, G):
    e = "/" + E
    return _t([(e, "d"), (e + "/" + F, "f")], [e + "/" + F], [("move", e, None, E2)],
              [("move", e + "/" + F, e, G), ("move", e + "/" + F, e, "h9.txt")])


def tpl_dirrename_twice_vs_filerename(E, E2, F, G):
    e = "/" + E
    return _t([(e, "d"), (e + "/" + F, "f")], [e + "/" + F], [("move", e, None, E2), ("move", e, None, "k9")], [("move", e + "/" + F, e, G)])


def tpl_dirrename_twice_vs_create(E, E2, F, G):
    e = "/" + E
    return _t([(e, "d"), (e + "/" + F, "f")], [], [("move", e, None, E2), ("move", e, None, "k9")], [("create", "+n", e, G)])


def tpl_movein_rmdir_vs_dirrename_twice(A, F, D, D2):
    a, d = "/" + A, "/" + D
    return _t([(a, "d"), (a + "/" + F, "f"), (d, "d")], [d],
              [("move", a + "/" + F, d, F), ("delete", a)], [("move", d, None, D2), ("move", d, None, "k9")])


def tpl_chain_filerename(K, D, D2, G):
    """R moves folder K into D, L renames D and also renames a file beneath K (three folders' worth of related paths)"""
    k, d = "/" + K, "/" + D
    return _t([(k, "d"), (k + "/f.txt", "f"), (d, "d")], [k], [("move", k + "/f.txt", k, G), ("move", d, None, D2)], [("move", k, d, K)])


def tpl_chain_write(K, D, D2, G):
    k, d = "/" + K, "/" + D
    return _t([(k, "d"), (k + "/f.txt", "f"), (d, "d")], [k], [("write", k + "/f.txt"), ("move", d, None, D2)], [("move", k, d, K)])


def tpl_chain_create(K, D, D2, G):
    k, d = "/" + K, "/" + D
    return _t([(k, "d"), (k + "/f.txt", "f"), (d, "d")], [k], [("create", "+n", k, G), ("move", d, None, D2)], [("move", k, d, K)])


def tpl_chain_dirrename_inner(K, D, D2, G):
    k, d = "/" + K, "/" + D
    return _t([(k, "d"), (k + "/s", "d"), (k + "/s/f.txt", "f"), (d, "d")], [k], [("move", k + "/s", k, "s2"), ("move", d, None, D2)], [("move", k, d, K)])


def tpl_chain_nested_filerename(K, D, D2, G):
    """K already inside D: L renames D and a file beneath K, R renames K"""
    d = "/" + D
    k = d + "/" + K
    return _t([(d, "d"), (k, "d"), (k + "/f.txt", "f")], [k], [("move", k + "/f.txt", k, G), ("move", d, None, D2)], [("move", k, d, K + "7")])


def tpl_chain_nested_filerename_moveout(K, D, D2, G):
    """K inside D: L renames D and a file beneath K, R moves K out to the root"""
    d = "/" + D
    k = d + "/" + K
    return _t([(d, "d"), (k, "d"), (k + "/f.txt", "f")], [k], [("move", k + "/f.txt", k, G), ("move", d, None, D2)], [("move", k, None, K + "7")])


def tpl_dirrename_vs_inner_rename_rmdir(E, E2, S, S2):
    e = "/" + E
    s = e + "/" + S
    return _t([(e, "d"), (s, "d"), (e + "/f.txt", "f")], [s], [("move", e, None, E2)], [("move", s, e, S2), ("delete", s)])


def tpl_chain3_inner_twice_deepfile(E, E2, S, S2):
    """three renames on one ancestor chain: R renames e; L renames e/s (twice) and the file beneath it"""
    e = "/" + E
    s = e + "/" + S
    return _t([(e, "d"), (s, "d"), (s + "/f.txt", "f")], [e],
              [("move", s, e, S2), ("move", s, e, "k9"), ("move", s + "/f.txt", s, "g.txt")], [("move", e, None, E2)])


def tpl_chain3_write_deep_outer_rename(E, E2, S, S2):
    """three touched objects on one chain: L renames e (twice) and overwrites e/s/f.txt, R renames e/s"""
    e = "/" + E
    s = e + "/" + S
    return _t([(e, "d"), (s, "d"), (s + "/f.txt", "f")], [s],
              [("move", e, None, E2), ("move", e, None, "k9"), ("write", s + "/f.txt")], [("move", s, e, S2)])


def tpl_replace_dir_by_file(E, K, F, G):
    """round 6 (seed R6-C04): a folder is deleted and a FILE takes its name on the same side; the other side edits another file"""
    return _t([("/" + E, "d"), ("/" + K, "f")], ["/" + K], [("delete", "/" + E), ("create", "+n", None, E)], [("write", "/" + K)])


def tpl_replace_file_by_dir(E, K, F, G):
    """a file is deleted and a FOLDER takes its name on the same side; the other side renames another file"""
    return _t([("/" + E, "f"), ("/" + K, "f")], ["/" + K], [("delete", "/" + E), ("mkdir", "+n", None, E)], [("move", "/" + K, None, G)])


# name tuples: (old, new) pairs in both alphabetical orders
N4 = [("a", "f.txt", "d", "d2"), ("m", "f.txt", "d", "b"), ("a", "f.txt", "e", "a1"), ("z", "g.txt", "e", "e2"),
      ("b", "f.txt", "a", "c"), ("d", "x.txt", "m", "a0")]
NE = [("e", "e2", "f.txt", "g.txt"), ("e", "a1", "f.txt", "b.txt"), ("e", "e2", "g.txt", "f.txt"), ("e", "a1", "m.txt", "z.txt"),
      ("b", "z", "f.txt", "a.txt"), ("m", "c", "b.txt", "y.txt")]
NED = [("e", "d", "f.txt", "g.txt"), ("e", "d", "g.txt", "b.txt"), ("b", "z", "f.txt", "a.txt"), ("m", "c", "k.txt", "z.txt")]
NAFDE = [("a", "f.txt", "d", "e"), ("m", "f.txt", "d", "b"), ("a", "f.txt", "z", "c"), ("z", "g.txt", "b", "y")]
NEED = [("e", "e2", "d", "g.txt"), ("e", "a1", "d", "g.txt"), ("e", "e2", "a", "b.txt"), ("b", "z", "m", "f.txt")]
NESS = [("e", "e2", "s", "s2"), ("e", "a1", "s", "b"), ("e", "e2", "s", "a"), ("m", "c", "k", "z")]
NPAD = [("p", "a", "d", "d2"), ("p", "m", "d", "b"), ("b", "z", "a", "c")]
NREUSE = [("e", "k.txt", "f.txt", "g.txt"), ("m", "a.txt", "f.txt", "z.txt"), ("b", "z.txt", "f.txt", "a0.txt")]
NPPA = [("p", "p2", "a", "d"), ("p", "a1", "m", "b"), ("b", "z", "s", "c")]

TEMPLATES = [
    ("movein+rmdir|dirrename", tpl_movein_rmdir_vs_rename, N4),
    ("movein+rmdir|dirrename(nonempty)", tpl_movein_rmdir_vs_rename_nonempty, N4),
    ("dirrename|filerename-inside", tpl_dirrename_vs_filerename, NE),
    ("dirrename|write-inside", tpl_dirrename_vs_write, NE),
    ("dirrename|create-inside", tpl_dirrename_vs_create, NE),
    ("dirrename|delete-inside", tpl_dirrename_vs_delete, NE),
    ("dirrename|delete-last-inside", tpl_dirrename_vs_delete_last, NE),
    ("dirrename|mkdir+create-inside", tpl_dirrename_vs_mkdir_create, NE),
    ("dirmove|filerename-inside", tpl_dirmove_vs_filerename, NED),
    ("dirmove|create-inside", tpl_dirmove_vs_create, NED),
    ("dirmove|delete-inside", tpl_dirmove_vs_delete, NED),
    ("movein|dirmove", tpl_movein_vs_dirmove, NAFDE),
    ("movein+rmdir|dirmove", tpl_movein_rmdir_vs_dirmove, NAFDE),
    ("dirrename|movein", tpl_dirrename_vs_movein, NEED),
    ("dirrename|moveout", tpl_dirrename_vs_moveout, NEED),
    ("dirrename|moveout-root", tpl_dirrename_vs_moveout_root, NE),
    ("dirrename|inner-dirrename", tpl_nested_dirrenames, NESS),
    ("dirrename|deep-filerename", tpl_nested_dirrename_vs_deepfile, NESS),
    ("inner-dirrename|deep-write+create", tpl_inner_dirrename_vs_deepwrite, NESS),
    ("moveup|inner-dirrename", tpl_moveup_vs_inner_rename, NESS),
    ("empty-out-two+rmdir|dirrename", tpl_empty_out_two_vs_rename, N4),
    ("delete+rmdir|parent-rename", tpl_delete_all_rmdir_in_renamed_parent, NPPA),
    ("nested-movein+rmdir|dirrename", tpl_nested_movein_rmdir_vs_rename, NPAD),
    ("movein+rmdir|parent-rename", tpl_movein_rmdir_vs_parent_rename, NPPA),
    ("dirrename+write|filerename-inside", tpl_both_rename_sibling_files_in_renamed, NE),
    ("dirrename|mkdir-inside", tpl_dirrename_vs_mkdir, NE),
    ("dirmove|mkdir-inside", tpl_dirmove_vs_mkdir, NED),
    ("dirrename|mkdir-deep", tpl_dirrename_vs_mkdir_deep, NESS),
    ("dirrename|create-deep", tpl_dirrename_vs_create_deep, NESS),
    ("dirrename|inner-dir-moveout", tpl_dirrename_vs_inner_dir_moveout, NESS),
    ("dirrename|rmdir-inside", tpl_dirrename_vs_rmdir_inside, NESS),
    ("dirrename|movein-dir", tpl_dirrename_vs_movein_dir, NEED),
    ("movein+dirrename|dirrename", tpl_two_dirrenames_unrelated_plus_cross_move, N4),
    ("dirrename|write+filerename-inside", tpl_dirrename_vs_write_and_filerename, NE),
    ("dirrename|filerename+write-inside", tpl_dirrename_vs_filerename_and_write, NE),
    ("dirrename|filerename-twice-inside", tpl_dirrename_vs_filerename_twice, NE),
    ("dirrename-twice|filerename-inside", tpl_dirrename_twice_vs_filerename, NE),
    ("dirrename-twice|create-inside", tpl_dirrename_twice_vs_create, NE),
    ("movein+rmdir|dirrename-twice", tpl_movein_rmdir_vs_dirrename_twice, N4),
    ("dirrename|inner-dirrename+rmdir", tpl_dirrename_vs_inner_rename_rmdir, NESS),
    ("chain3:inner-dirrename-twice+deepfile|dirrename", tpl_chain3_inner_twice_deepfile, NESS),
    ("chain3:write-deep+outer-rename|inner-dirrename", tpl_chain3_write_deep_outer_rename, NESS),
    ("chain:filerename+dirrename|movein-dir", tpl_chain_filerename, NEED),
    ("chain:write+dirrename|movein-dir", tpl_chain_write, NEED),
    ("chain:create+dirrename|movein-dir", tpl_chain_create, NEED),
    ("chain:inner-dirrename+dirrename|movein-dir", tpl_chain_dirrename_inner, NEED),
    ("chain:nested filerename+dirrename|inner-dirrename", tpl_chain_nested_filerename, NEED),
    ("chain:nested filerename+dirrename|inner-dir-moveout", tpl_chain_nested_filerename_moveout, NEED),
    # round 6: type replacement at one name (appended last: template indices in stored replays stay valid)
    ("replace-dir-by-file|write", tpl_replace_dir_by_file, NREUSE),
    ("replace-file-by-dir|rename", tpl_replace_file_by_dir, NREUSE),
]
# templates that re-use a name on purpose: generator rule G1 (no name slot is occupied twice in one run) is lifted for them.  They are
# calibrated on the stable-id flavours only (10 080 runs of the pinned engine, every interleaving, random schedules: all accepted by the Lean monitor) and are
# drawn by their own block of plan(), so the draws of the other blocks are what they were before round 6
REUSE_TEMPLATES = {"replace-dir-by-file|write", "replace-file-by-dir|rename"}

# templates whose shape the pinned engine itself gets wrong on some schedules (filters X1-X3): not part of the check's generator;
# one exact replay of each is a known finding (KNOWN below)
KNOWN_SHAPES = {"dirrename|delete-inside", "dirrename|delete-last-inside", "dirrename|mkdir+create-inside", "dirmove|delete-inside",
                "dirrename|moveout", "dirrename|moveout-root", "moveup|inner-dirrename", "delete+rmdir|parent-rename",
                "movein+rmdir|parent-rename", "dirrename|mkdir-inside", "dirmove|mkdir-inside", "dirrename|mkdir-deep",
                "dirrename|inner-dir-moveout", "dirrename|write+filerename-inside", "dirrename|filerename+write-inside",
                "dirrename|inner-dirrename+rmdir", "chain3:inner-dirrename-twice+deepfile|dirrename",
                "chain:filerename+dirrename|movein-dir", "chain:inner-dirrename+dirrename|movein-dir",
                "chain:write+dirrename|movein-dir", "chain:create+dirrename|movein-dir", "chain3:write-deep+outer-rename|inner-dirrename", "chain:nested filerename+dirrename|inner-dirrename", "chain:nested filerename+dirrename|inner-dir-moveout"}
LIVE = [i for i, t in enumerate(TEMPLATES) if t[0] not in KNOWN_SHAPES]
TEMPLATE_INDEX = {t[0]: i for i, t in enumerate(TEMPLATES)}
# flavours on which the family is registered: both providers with stable object ids.  On every flavour with a path-id provider
# ('path-oidf', 'path-path', 'oid-path', 'path-oidf-ci') the pinned engine fails 3-25 % of the runs of EVERY template of this family
# (a folder rename re-ids all children there): known finding `obj-related-paths-path-id`, exact replays below.
OBJ_FLAVOURS = ["oid-oid", "oid-oid-ci", "oidci-oidcs", "oidcs-oidci"]

WORDS = [""] + ["".join(p) for k in (1, 2, 3) for p in itertools.product("LRS", repeat=k)]     # 40 gap words
ROTATIONS = ["LRS", "RLS", "SLR", "SRL", "LSR", "RSL", None]                                  # None = random fair


def interleavings(a, b):
    """all order-preserving merges of a and b, as strings over 'L','R'"""
    if not a:
        return ["R" * len(b)]
    if not b:
        return ["L" * len(a)]
    return ["L" + x for x in interleavings(a[1:], b)] + ["R" + x for x in interleavings(a, b[1:])]


def scenario_space(live_only=False):
    """(template index, names index, role map, interleaving) -- the schedule (gap words, rotation) is drawn per run"""
    out = []
    for ti, (name, f, names) in enumerate(TEMPLATES):
        if live_only and ti not in LIVE:
            continue
        for ni in range(len(names)):
            t = f(*names[ni])
            for swap in (0, 1):
                for il in interleavings(t["L"], t["R"]):
                    out.append((ti, ni, swap, il))
    return out


def run_scenario(flavour, ti, ni, swap, il, words, rotation, base_side, rng, storage="mock", unfiltered=False):
    """returns (run, status) with status in 'ok' (went quiet; emit the line), 'noquiet', 'base', 'filtered', 'unissued'"""
    name, f, names = TEMPLATES[ti]
    t = f(*names[ni])
    run = ObjRun(flavour, rng, storage)
    run.allow_reuse = name in REUSE_TEMPLATES
    run.scenario = {"template": name, "names": list(names[ni]), "swap": swap, "interleaving": il, "words": list(words),
                    "rotation": rotation, "base_side": base_side}
    side_of = {"L": swap, "R": 1 - swap}
    if not run.build_base(t["base"], base_side):
        return run, "base"
    label = {}
    for i, v in run.base.o.items():
        label[run.base.path(i)] = i
    for p, i in label.items():
        run.owner[i] = side_of["R"] if p in t["ownR"] else side_of["L"]
    idx = {"L": 0, "R": 0}
    for n, role in enumerate(il):
        s = side_of[role]
        o = t[role][idx[role]]
        idx[role] += 1
        k = o[0]
        if k in ("create", "mkdir"):
            i = run.fresh_id()
            label[o[1]] = i
            par = label[o[2]] if o[2] is not None else None
            op = (k, i, par, o[3]) + ((run.fresh_tag(),) if k == "create" else ())
        elif k == "move":
            op = ("move", label[o[1]], label[o[2]] if o[2] is not None else None, o[3])
        elif k == "write":
            op = ("write", label[o[1]], run.fresh_tag())
        else:
            op = ("delete", label[o[1]])
        if not run.admissible(s, op, unfiltered):
            return run, "filtered"
        if not run.user(s, op):
            return run, "unissued"
        run.word(words[n] if n < len(words) else "")
    if not run.quiesce(order=rotation):
        return run, "noquiet"
    return run, "ok"


# ---------------------------------------------------------------------------------------------------------------
# the random family: random nested base (depth <= 3), random owners, 1-4 operations per side, random real-time order and schedule

DIR_NAMES = ["a", "a1", "b", "c", "d", "d2", "e", "e2", "k", "m", "s", "z"]
FILE_NAMES = ["a.txt", "b.txt", "c.txt", "f.txt", "g.txt", "k.txt", "m.txt", "q.txt", "x.txt", "y.txt", "z.txt"]


def random_base(rng):
    """[(rel, kind)] in creation order: folders nested up to depth 3, files at every level"""
    out = []

    def fill(parent, depth):
        names = rng.sample(DIR_NAMES, len(DIR_NAMES))
        fnames = rng.sample(FILE_NAMES, len(FILE_NAMES))
        nd = rng.choice([2, 2, 3, 3, 4]) if depth == 1 else (rng.choice([0, 1, 1, 2]) if depth == 2 else rng.choice([0, 0, 1]))
        nf = rng.choice([0, 1]) if depth == 1 else rng.choice([0, 1, 1, 2])
        for n in fnames[:nf]:
            out.append((parent + "/" + n, "f"))
        for n in names[:nd]:
            out.append((parent + "/" + n, "d"))
            if depth < 3:
                fill(parent + "/" + n, depth + 1)
            else:
                for fn in rng.sample(FILE_NAMES, rng.choice([0, 1, 1])):
                    out.append((parent + "/" + n + "/" + fn, "f"))
    fill("", 1)
    return out[:14] if len(out) > 14 else out


KINDS = ["frename", "frename", "fmove", "fmove", "write", "write", "fdelete", "create", "create", "mkdir",
         "drename", "drename", "drename", "dmove", "dmove", "rmdir", "emptyout", "emptyout"]


def propose(run, s, rng):
    """one candidate operation LIST for side s (a list because 'emptyout' is move-out/delete of every child, then rmdir)"""
    t = run.truth
    mine = [i for i in t.o if run.owner.get(i) == s]
    files = [i for i in mine if t.o[i][2] == "f"]
    dirs = [i for i in mine if t.o[i][2] == "d"]
    alld = [i for i in t.o if t.o[i][2] == "d"]
    theirs_d = [i for i in alld if run.owner.get(i) != s]

    def depth(i):
        return len(t.anc_self(i))

    def target_folder(exclude=()):
        # bias towards folders of the other side (that is where paths get related), the root sometimes
        pool = [d for d in alld if d not in exclude and depth(d) < 3]
        if not pool or rng.random() < 0.12:
            return None
        pref = [d for d in pool if run.owner.get(d) != s]
        return rng.choice(pref) if pref and rng.random() < 0.7 else rng.choice(pool)

    def fresh_name(parent, kind):
        pool = FILE_NAMES if kind == "f" else DIR_NAMES
        c = [n for n in pool if (parent, n.lower()) not in run.slots]
        return rng.choice(c) if c else None
    k = rng.choice(KINDS)
    if k == "frename" and files:
        i = rng.choice(files)
        n = fresh_name(t.o[i][0], "f")
        return [("move", i, t.o[i][0], n)] if n else None
    if k == "fmove" and files:
        i = rng.choice(files)
        p = target_folder()
        if p == t.o[i][0]:
            return None
        n = t.o[i][1] if (p, t.o[i][1].lower()) not in run.slots and rng.random() < 0.7 else fresh_name(p, "f")
        return [("move", i, p, n)] if n else None
    if k == "write" and files:
        return [("write", rng.choice(files), run.fresh_tag())]
    if k == "fdelete" and files:
        return [("delete", rng.choice(files))]
    if k in ("create", "mkdir"):
        p = target_folder()
        n = fresh_name(p, "f" if k == "create" else "d")
        if not n:
            return None
        return [("create", run.fresh_id(), p, n, run.fresh_tag())] if k == "create" else [("mkdir", run.fresh_id(), p, n)]
    if k == "drename" and dirs:
        i = rng.choice(dirs)
        n = fresh_name(t.o[i][0], "d")
        return [("move", i, t.o[i][0], n)] if n else None
    if k == "dmove" and dirs:
        i = rng.choice(dirs)
        below = [j for j in alld if i in t.anc_self(j)]
        p = target_folder(exclude=below)
        if p == t.o[i][0]:
            return None
        sub = 1 + max([len(t.anc_self(j)) - len(t.anc_self(i)) for j in below] or [0])
        if (0 if p is None else depth(p)) + sub > 3:
            return None
        n = t.o[i][1] if (p, t.o[i][1].lower()) not in run.slots and rng.random() < 0.7 else fresh_name(p, "d")
        return [("move", i, p, n)] if n else None
    if k == "rmdir":
        c = [i for i in dirs if not t.kids(i)]
        return [("delete", rng.choice(c))] if c else None
    if k == "emptyout":
        c = [i for i in dirs if t.kids(i) and len(t.kids(i)) <= 2 and all(run.owner.get(j) == s and t.o[j][2] == "f" for j in t.kids(i))]
        if not c:
            return None
        i = rng.choice(c)
        ops = []
        for j in t.kids(i):
            if rng.random() < 0.75:
                p = target_folder(exclude=[i])
                n = t.o[j][1] if (p, t.o[j][1].lower()) not in run.slots else fresh_name(p, "f")
                if not n:
                    return None
                ops.append(("move", j, p, n))
            else:
                ops.append(("delete", j))
        return ops + [("delete", i)]
    return None


def run_random(flavour, rng, storage="mock", maxops=4):
    run = ObjRun(flavour, rng, storage)
    base_side = rng.randint(0, 1)
    run.scenario = {"template": "random", "base_side": base_side}
    if not run.build_base(random_base(rng), base_side):
        return run, "base"
    for i in run.base.o:
        run.owner[i] = rng.randint(0, 1)
    budget = [rng.randint(1, maxops), rng.randint(1, maxops)]
    starve = rng.choice(["LS", "RS", "LSS", "RSS"]) if rng.random() < 0.5 else None
    run.scenario["starved"] = starve
    tries = 0
    while (budget[0] > 0 or budget[1] > 0) and tries < 60:
        tries += 1
        s = rng.choice([x for x in (0, 1) if budget[x] > 0])
        ops = propose(run, s, rng)
        if not ops or len(ops) > budget[s]:
            continue
        # the whole list must be admissible one after the other; admissibility of a later element is judged after the earlier
        # ones were issued, so a compound may stop half way (that is still a legal history)
        for op in ops:
            if not run.admissible(s, op):
                break
            if not run.user(s, op):
                break
            budget[s] -= 1
            if starve:
                run.word("".join(rng.choice(starve) for _ in range(rng.randint(0, 5))))
            else:
                run.word(rng.choice(WORDS) if rng.random() < 0.8 else "")
    if starve and rng.random() < 0.6:
        run.word((starve[0] + "S") * rng.randint(1, 5))          # the other side's events keep being late for a while
    if not run.ops[0] or not run.ops[1]:
        # one-sided leftovers are legal too, but the family is about two sides
        run.notes.append("one-sided")
    if not run.quiesce(order=rng.choice(ROTATIONS)):
        return run, "noquiet"
    return run, "ok"


def shape_of(run):
    """coarse classification of a run for the evidence histogram: which related-path shapes occur between the two sides"""
    t = run.base.copy()
    tags = set()
    moved = [set(), set()]
    for s, op in run.order:
        k, i = op[0], op[1]
        o = 1 - s
        if k in ("create", "mkdir", "move"):
            inside = set(t.anc_self(op[2]))
            if inside & moved[o]:
                tags.add({"create": "create-in-moved", "mkdir": "mkdir-in-moved", "move": "movein-moved"}[k])
            if any(run.owner.get(a) == o for a in inside):
                tags.add("into-other-owned")
        if k in ("write", "delete", "move") and i in t.o:
            if set(t.anc_self(t.o[i][0])) & moved[o]:
                tags.add({"write": "write-in-moved", "delete": "delete-in-moved", "move": "rename-in-moved"}[k])
        if k == "delete" and i in t.o and t.o[i][2] == "d":
            tags.add("rmdir")
        if k == "move" and i in t.o and t.o[i][2] == "d":
            moved[s].add(i)
            below = [j for j in t.o if i in t.anc_self(t.o[j][0])]
            if any(run.owner.get(j) == o for j in below):
                tags.add("dirmove-over-other-owned")
        t.apply(op)
    # second pass: a folder moved AFTER the other side touched beneath it
    t = run.base.copy()
    touched = [set(), set()]
    for s, op in run.order:
        k, i = op[0], op[1]
        if k == "move" and i in t.o and t.o[i][2] == "d" and i in touched[1 - s]:
            tags.add("dirmove-after-other-touched")
        par = op[2] if k in ("create", "mkdir", "move") else (t.o[i][0] if i in t.o else None)
        touched[s].update(t.anc_self(par))
        if k == "move" and i in t.o:
            touched[s].update(t.anc_self(t.o[i][0]))
        t.apply(op)
    return tuple(sorted(tags))


# ---------------------------------------------------------------------------------------------------------------
# verdict of the Python mirror (generation, calibration and cross-check only; the verdict of record is Lean's)

def mirror_verdict(run):
    if not obj_disjoint(run.ops[0], run.ops[1]):
        return "skip not-disjoint"
    if not all_valid(run.base, run.ops[0], run.ops[1], run.fold):
        return "skip incompatible"
    exp = run.expected()
    if run.fold:
        exp = {k.lower(): v for k, v in exp.items()}
    for side, nm in ((0, "left"), (1, "right")):
        got = tag_tree(run.w.tree(side))
        if run.fold:
            got = {k.lower(): v for k, v in got.items()}
        if got != exp:
            return "reject %s-differs" % nm
    return "ok"


def run_line(run):
    return enc_line(run.base, run.ops[0], run.ops[1], run.w.tree(0), run.w.tree(1), run.fold)


def expected_tokens(run):
    exp = run.expected()
    return sorted(("%s=%s" % (enc_rel(k.lower() if run.fold else k), "D" if v[0] == "d" else "F%d" % v[1])) for k, v in exp.items())


def draw_schedule(rng, nops, maxlen=3):
    """gap words + quiescence rotation.  Two styles: uniform words over {L,R,S}; 'starved': one side's event intake does not run at
    all between the operations (its events arrive late, as a slow remote would deliver them), the words are over the other
    intake and S only and up to 5 steps long -- the engine then acts on one side's news while blind to the other's"""
    r = rng.random()
    if r < 0.25:
        alpha = rng.choice(["LS", "RS", "LSS", "RSS"])
        words = ["".join(rng.choice(alpha) for _ in range(rng.randint(0, 5))) for _ in range(nops)]
    elif r < 0.5:
        # 'delayed': short gaps, then after the last operation k rounds of (one intake, S) before the other intake runs at all
        x = rng.choice("LR")
        words = [rng.choice(["", x, x + "S", "S", "SS"]) for _ in range(nops)]
        words[-1] += (x + "S") * rng.randint(1, 5)
    else:
        words = [rng.choice([w for w in WORDS if len(w) <= maxlen]) for _ in range(nops)]
    return words, rng.choice(ROTATIONS)


# ---------------------------------------------------------------------------------------------------------------
# known findings: shapes of this family on which the pinned engine itself violates C04 (exact deterministic replays; the shape is
# excluded from the generator by the syntactic filters X1-X3 / by OBJ_FLAVOURS, never by weakening the monitor)

def _k(flavour, template, il, words, ni=0, swap=0, rotation="SRL", base_side=0):
    return dict(flavour=flavour, template=template, ni=ni, swap=swap, il=il, words=words, rotation=rotation, base_side=base_side)


KNOWN = {
    # R deletes e/f.txt while L renames e -> e2; steps S R L S S ...: the file is put back on both sides (resurrection)
    "obj-delete-in-moved-folder": [_k("oid-oid", "dirrename|delete-last-inside", "LR", ["", ""])],
    # R moves e/f.txt to the root as g.txt while L renames e -> e2: the move is undone on both sides
    "obj-moveout-of-moved-folder": [_k("oid-oid", "dirrename|moveout-root", "LR", ["", ""])],
    # R makes folder e/g.txt while L renames e -> e2: the old path e is re-created for the new folder on both sides
    "obj-mkdir-in-moved-folder": [_k("oid-oid", "dirrename|mkdir-inside", "LR", ["", ""])],
    # R overwrites e/f.txt and renames it to e/g.txt while L renames e -> e2: e2/f.txt with the OLD content stays next to e2/g.txt
    "obj-write+rename-in-moved-folder": [_k("oid-oid", "dirrename|write+filerename-inside", "LRR", ["", "", ""]),
                                         _k("oid-oid", "dirrename|filerename+write-inside", "LRR", ["", "", ""])],
    # R renames folder e/s -> e/s2 (synced), L renames e -> e2, R deletes the (empty) folder: it comes back on both sides
    "obj-rename+delete-in-moved-folder": [_k("oid-oid", "dirrename|inner-dirrename+rmdir", "RLR", ["RS", "LS", "SS"])],
    # R renames e/f.txt -> e/g.txt, L moves folder e into e2, then R renames e2 -> d (a folder beneath which content R touched has
    # ARRIVED meanwhile): the file rename is undone on both sides
    # ... and: L renames e/s -> e/s2 (synced), renames it again, renames the file beneath it, then R renames e: the file rename is undone.
    # Common form: three objects on ONE ancestor chain renamed/moved in one unsynced window (generator rule G4)
    # ... and: L renames e (twice) and overwrites e/s/f.txt while R renames e/s: a '.conflicted' copy with the new content appears
    "obj-three-touched-on-one-chain": [_k("oid-oid", "chain:filerename+dirrename|movein-dir", "LRL", ["R", "LSS", ""], swap=1, rotation="LRS", base_side=1),
                                       _k("oid-oid", "chain3:inner-dirrename-twice+deepfile|dirrename", "LLLR", ["LS", "", "", ""], rotation="LRS"),
                                       _k("oid-oid", "chain3:write-deep+outer-rename|inner-dirrename", "LRLL", ["L", "S", "", ""], rotation="LRS")],
    # any path-id provider: an edit / rename / creation / move-in beneath a folder the other side renames is lost or duplicated
    "obj-related-paths-path-id": [_k("path-path", "dirrename|write-inside", "LR", ["", "L"]),
                                  _k("oid-path", "dirrename|filerename-inside", "LR", ["", "L"]),
                                  _k("path-oidf", "movein+rmdir|dirrename", "LLR", ["", "", "R"]),
                                  _k("path-oidf-ci", "dirrename|create-inside", "LR", ["", "R"], swap=1)],
}


def run_known(k):
    return run_scenario(k["flavour"], TEMPLATE_INDEX[k["template"]], k["ni"], k["swap"], k["il"], k["words"], k["rotation"], k["base_side"],
                        random.Random(1), unfiltered=True)


# ---------------------------------------------------------------------------------------------------------------
# the case generators of the check

def plan(tier, seed):
    """the runs of one check: list of (kind, flavour, params).  kinds: 'enum' sampled enumerated scenario x random schedule,
    'prefix' / 'gaps' exhaustive schedule blocks of one scenario, 'random' the random family"""
    rng = rng_for(seed, "c04-objects-plan")
    full_space = scenario_space(live_only=True)
    space = [x for x in full_space if TEMPLATES[x[0]][0] not in REUSE_TEMPLATES]
    out = []
    quick = tier == "quick"
    n_enum = 260 if quick else 2200
    n_rand = 130 if quick else 1500
    for fl in OBJ_FLAVOURS:
        for _ in range(n_enum):
            ti, ni, swap, il = rng.choice(space)
            words, rot = draw_schedule(rng, len(il))
            out.append(("enum", fl, (ti, ni, swap, il, words, rot, rng.randint(0, 1), rng.getrandbits(32))))
        for _ in range(n_rand):
            out.append(("random", fl, (rng.getrandbits(32),)))
    # exhaustive schedule blocks: (A) all words of length <= 4 over {L,R,S} after the last operation (no steps between the
    # operations), then a fixed rotation; (B) for two-operation scenarios all gap assignments with words of length <= 2
    prefixes = [""] + ["".join(p) for k in (1, 2, 3, 4) for p in itertools.product("LRS", repeat=k)]          # 121
    short = [w for w in WORDS if len(w) <= 2]                                                                      # 13
    blocks_a = 3 if quick else 34
    blocks_b = 1 if quick else 16
    two_op = [x for x in space if len(x[3]) == 2]
    key = [x for x in space if TEMPLATES[x[0]][0] in ("movein+rmdir|dirrename", "dirrename|filerename-inside", "dirrename|write-inside",
                                                     "movein+rmdir|dirrename(nonempty)", "empty-out-two+rmdir|dirrename",
                                                     "dirmove|filerename-inside", "dirrename|create-inside", "movein+rmdir|dirmove")]
    for b in range(blocks_a):
        ti, ni, swap, il = rng.choice(key if b % 2 == 0 else space)
        fl = OBJ_FLAVOURS[(b + seed) % len(OBJ_FLAVOURS)]
        rot = rng.choice(ROTATIONS[:6])
        bs = rng.randint(0, 1)
        for w in prefixes:
            out.append(("prefix", fl, (ti, ni, swap, il, [""] * (len(il) - 1) + [w], rot, bs, 1)))
    # (C) delayed-intake blocks: scenarios that empty a folder and delete it (and the other key shapes): for X = the intake of either
    # side, every assignment of the gap words {"", X, XS} x a tail of k = 2..5 rounds (X, S) after the last operation during which the
    # OTHER side's events are not taken in at all (a slow remote), then the fair rotation
    rmdir = [x for x in space if "rmdir" in TEMPLATES[x[0]][0] and len(x[3]) == 3]
    blocks_c = 2 if quick else 20
    for b in range(blocks_c):
        ti, ni, swap, il = rng.choice(rmdir if b % 3 != 2 else [x for x in key if len(x[3]) <= 3])
        fl = OBJ_FLAVOURS[(b + seed + 2) % len(OBJ_FLAVOURS)]
        rot = rng.choice(ROTATIONS[:6])
        bs = rng.randint(0, 1)
        for x in "LR":
            gw = ["", x, x + "S"]
            for ws in itertools.product(gw, repeat=len(il)):
                for k in (2, 3, 4, 5):
                    words = list(ws)
                    words[-1] = words[-1] + (x + "S") * k
                    out.append(("delayed", fl, (ti, ni, swap, il, words, rot, bs, 1)))
    for b in range(blocks_b):
        ti, ni, swap, il = rng.choice(two_op)
        fl = OBJ_FLAVOURS[(b + seed + 1) % len(OBJ_FLAVOURS)]
        rot = rng.choice(ROTATIONS[:6])
        bs = rng.randint(0, 1)
        for w1 in short:
            for w2 in short:
                out.append(("gaps", fl, (ti, ni, swap, il, [w1, w2], rot, bs, 1)))
    # round 6: type replacement at one name (own block, own generator state)
    rng2 = rng_for(seed, "c04-objects-plan-reuse")
    reuse = [x for x in full_space if TEMPLATES[x[0]][0] in REUSE_TEMPLATES]
    for fl in OBJ_FLAVOURS:
        for _ in range(40 if quick else 600):
            ti, ni, swap, il = rng2.choice(reuse)
            words, rot = draw_schedule(rng2, len(il))
            out.append(("enum", fl, (ti, ni, swap, il, words, rot, rng2.randint(0, 1), rng2.getrandbits(32))))
    return out


def execute(kind, fl, params):
    if kind == "random":
        return run_random(fl, random.Random(params[0]))
    ti, ni, swap, il, words, rot, bs, rs = params
    return run_scenario(fl, ti, ni, swap, il, words, rot, bs, random.Random(rs))


def spec_tie_cases(n, seed):
    """differential tie between the Python mirror `OT` (which GENERATES the histories) and the Lean definitions (which JUDGE them):
    random small object trees, random pairs of operation sequences -- valid and invalid, disjoint and not, compatible and not --
    and a path tree that is the expected one or a perturbed one.  No engine involved.  Returns (lines, mirror verdicts, expected)"""
    rng = rng_for(seed, "c04-objects-spec-tie")
    lines, want, exps = [], [], []
    names = ["a", "b", "c", "d"]
    for _ in range(n):
        t = OT()
        nid = 1
        for _k in range(rng.randint(1, 6)):
            dirs = [None] + [i for i, v in t.o.items() if v[2] == "d"]
            par = rng.choice(dirs)
            nm = rng.choice(names)
            if not t.slot_free(nid, par, nm):
                continue
            if rng.random() < 0.5:
                t.o[nid] = [par, nm, "d", None]
            else:
                t.o[nid] = [par, nm, "f", nid]
            nid += 1
        ids = list(t.o) + [nid, nid + 1]
        tag = [100]

        def rnd_op():
            i = rng.choice(ids)
            dirs = [None] + [j for j, v in t.o.items() if v[2] == "d"] + [rng.choice(ids)]
            k = rng.choice(["create", "mkdir", "write", "delete", "move", "move"])
            tag[0] += 1
            if k == "create":
                return ("create", rng.choice([nid, nid + 1, i]), rng.choice(dirs), rng.choice(names), tag[0])
            if k == "mkdir":
                return ("mkdir", rng.choice([nid, nid + 1, i]), rng.choice(dirs), rng.choice(names))
            if k == "write":
                return ("write", i, tag[0])
            if k == "delete":
                return ("delete", i)
            return ("move", i, rng.choice(dirs), rng.choice(names))
        a = [rnd_op() for _k in range(rng.randint(0, 3))]
        b = [rnd_op() for _k in range(rng.randint(0, 3))]
        if rng.random() < 0.6:
            # steer towards valid, disjoint sequences: keep only operations valid when met, on ids not used by the other side
            u = t.copy()
            a2 = []
            for x in a:
                if u.valid(x):
                    u.apply(x)
                    a2.append(x)
            b2 = []
            used = {op_id(x) for x in a2}
            for x in b:
                if op_id(x) not in used and u.valid(x):
                    u.apply(x)
                    b2.append(x)
            a, b = a2, b2
        if not obj_disjoint(a, b):
            v = "skip not-disjoint"
            u = None
        elif not all_valid(t, a, b):
            v = "skip incompatible"
            u = None
        else:
            u = t.copy()
            for x in a + b:
                u.apply(x)
            v = "ok"
        exp = u.paths() if u is not None else {}
        left = {k: (val[0], content(val[1]) if val[0] == "f" else None) for k, val in exp.items()}
        right = dict(left)
        if u is not None and rng.random() < 0.4:
            side = rng.choice(["left", "right"])
            tgt = left if side == "left" else right
            r = rng.random()
            if tgt and r < 0.4:
                tgt.pop(rng.choice(sorted(tgt)))
            elif tgt and r < 0.7:
                k = rng.choice(sorted(tgt))
                tgt[k] = ("f", content(9999))
            else:
                tgt["/zz.conflicted"] = ("f", content(1))
            if left != right or tag_tree(tgt) != exp:
                v = "reject %s-differs" % ("left" if tag_tree(left) != exp else "right")
        lines.append(enc_line(t, a, b, left, right, False))
        want.append(v)
        exps.append(sorted("%s=%s" % (enc_rel(k), "D" if val[0] == "d" else "F%d" % val[1]) for k, val in exp.items()) if u is not None else None)
    return lines, want, exps


def spec_tie(n, seed):
    import collections
    lines, want, exps = spec_tie_cases(n, seed)
    got = run_driver(LAYER, lines)
    bad = []
    hist = collections.Counter()
    for ln, w, g, e in zip(lines, want, got, exps):
        word = g.split(" | ")[0]
        hist[" ".join(w.split(" ")[:2])] += 1
        ok = word.split(" ")[:2] == w.split(" ")[:2]
        if ok and e is not None and " | " in g:
            ok = sorted(g.split(" | ")[1].split()) == e
        if not ok:
            bad.append({"line": ln, "mirror": w, "lean": g})
    return len(lines), bad, dict(hist)


def attach(res, tier, seed, proof_broken=None):
    """C04's object-identity family: runs the plan, pipes one line per run to the Lean layer `monc04`, reports rejects as
    violations with the run as replay; replays the known findings.  Fills res.coverage['object_family']."""
    import collections
    import time as _t
    t0 = _t.time()
    hist = collections.Counter()
    shapes = collections.Counter()
    tpl = collections.Counter()
    nops = collections.Counter()
    lines, sums, mirrors, exps, keys, hard = [], [], [], [], [], []
    sample = None
    for kind, fl, params in plan(tier, seed):
        run, st = execute(kind, fl, params)
        try:
            hist["%s:%s" % (kind, st)] += 1
            name = run.scenario.get("template")
            if st == "ok":
                lines.append(run_line(run))
                summ = run.summary({"scenario": run.scenario, "kind": kind, "params": list(params)})
                sums.append(summ)
                mirrors.append(mirror_verdict(run))
                exps.append(expected_tokens(run))
                keys.append((fl, tuple(map(tuple, run.ops[0])), tuple(map(tuple, run.ops[1])), tuple(x for x in run.trace if not x.startswith("BASE"))))
                shapes[shape_of(run)] += 1
                tpl[name] += 1
                nops[(len(run.ops[0]), len(run.ops[1]))] += 1
                hist["rejected-ops"] += run.rejected
                hist["unresolved-ops"] += run.unresolved
                if sample is None and kind == "enum":
                    sample = {"monitor_line": lines[-1], "run": summ}
            elif st in ("noquiet", "base"):
                hard.append(run.summary({"scenario": run.scenario, "kind": kind, "params": list(params),
                                         "failure": "engine did not go quiet within the step cap" if st == "noquiet"
                                         else "the one-sided base tree did not synchronise"}))
        finally:
            run.close()
    # known findings: exact replays, decided by the same Lean layer
    opens, _fixed = load_known_findings(res.pid)
    klines, kmeta = [], []
    for ident, reps in KNOWN.items():
        for k in reps:
            run, st = run_known(k)
            try:
                if st == "ok":
                    klines.append(run_line(run))
                    kmeta.append((ident, k, None))
                else:
                    kmeta.append((ident, k, st))
            finally:
                run.close()
    # the generator's own notion of validity / compatibility / expected tree against Lean's, on random inputs without the engine
    n_tie, tie_bad, tie_hist = spec_tie(600 if tier == "quick" else 6000, seed)
    if tie_bad:
        raise HarnessError("the Python mirror of ObjTree.lean and the Lean definitions disagree: %r" % tie_bad[:2])
    verdicts = run_driver(LAYER, lines + klines) if (lines or klines) else []
    v_runs, v_known = verdicts[:len(lines)], verdicts[len(lines):]
    rejects, skips = [], collections.Counter()
    for v, summ, mv, ex in zip(v_runs, sums, mirrors, exps):
        word = v.split(" | ")[0]
        if word.startswith("skip"):
            skips[word] += 1
        if word.startswith("bad"):
            raise HarnessError("monc04 answered %r for %r" % (v, summ.get("scenario")))
        # cross-check of the harness's own bookkeeping against Lean (a disagreement is a harness error, never a verdict)
        if word.split(" ")[:2] != mv.split(" ")[:2] and not (word.startswith("reject") and mv.startswith("reject")):
            raise HarnessError("mirror %r / Lean %r disagree on %r" % (mv, v, summ))
        if " | " in v and sorted(v.split(" | ")[1].split()) != ex:
            raise HarnessError("expected tree differs: mirror %r / Lean %r on %r" % (ex, v, summ))
        if word.startswith("reject"):
            rejects.append((word, summ))
    hist["skipped-incompatible"] = sum(skips.values())
    # known findings
    it = iter(v_known)
    status = collections.defaultdict(list)
    for ident, k, st in kmeta:
        v = next(it).split(" | ")[0] if st is None else st
        status[ident].append((k["flavour"], k["template"], v))
    known_out = {}
    for ident, lst in status.items():
        fails = [x for x in lst if x[2].startswith("reject") or x[2] == "noquiet"]
        known_out[ident] = {"replays": len(lst), "still_failing": len(fails), "verdicts": [list(x) for x in lst]}
        if ident in opens:
            if fails:
                res.known.append("%s :: %s" % (ident, opens[ident]))
            else:
                res.notes.append("known finding %s no longer reproduces (stale)" % ident)
        elif fails:
            res.notes.append("shape %s fails on this tree but is not listed in known_findings.txt (replay only, excluded from the generator)" % ident)
    n = len(lines) + len(hard)
    distinct = len(set(keys))
    res.coverage["object_family"] = {
        "runs": n, "distinct_runs": distinct, "flavours": OBJ_FLAVOURS, "outcomes": dict(hist),
        "templates": dict(tpl), "ops_per_side": {"%d+%d" % k: v for k, v in sorted(nops.items())},
        "related_path_shapes": {"+".join(k) or "none": v for k, v in sorted(shapes.items(), key=lambda kv: -kv[1])[:40]},
        "skipped": dict(skips), "rejects": len(rejects), "known_findings": known_out, "sample": sample,
        "spec_tie": {"cases": n_tie, "disagreements": 0, "verdicts": tie_hist,
                     "what": "Python mirror OT (generator) vs Lean definitions valid/CompatibleSeqs/objMerge/toPaths/objMergeOk on random object "
                             "trees x operation-sequence pairs (valid and invalid, disjoint and not) x exact or perturbed path trees"},
        "rule": "object-identity family: a one-sided synchronised base with folders nested up to depth 3, every object owned by exactly "
                "one side; each side applies 1-4 operations to objects it owns or creates (creations and moves may go INSIDE folders of the "
                "other side), engine steps interleaved: (a) enumerated scenario templates x names in both alphabetical orders x both role "
                "assignments x every real-time interleaving x random gap words over {L,R,S} (<= 3 steps per gap) x quiescence rotation; "
                "(b) exhaustive schedule blocks: all 121 words of length <= 4 after the last operation, and all 13x13 gap assignments of "
                "two-operation scenarios; (c) random histories.  The Lean layer monc04 computes the merged object tree, projects it to "
                "paths and compares both sides exactly.  distinct by (flavour, both op sequences, executed schedule)",
        "wall_s": round(_t.time() - t0, 1),
    }
    for k in ("evaluations", "programs", "traces_validated_against_impl"):
        if isinstance(res.coverage.get(k), int):
            res.coverage[k] += n
    if isinstance(res.coverage.get("distinct_nontrivial"), int):
        res.coverage["distinct_nontrivial"] += distinct
    res.coverage["disagreements_checked"] = res.coverage.get("disagreements_checked", 0) + len(rejects) + len(hard)
    fp = res.coverage.get("fingerprints")
    if isinstance(fp, dict):
        fp.update(fingerprints({"cloudsync/sync/manager.py": ["SyncManager._handle_dir_delete_not_empty", "SyncManager.handle_cloud_file_not_found_error"],
                                "cloudsync/sync/state.py": ["SyncState.get_kids", "SyncState.lookup_path"]}))
    res.assumptions.append("object family: the harness tracks object identity itself (slot at creation + moves; no provider ids); a slot is "
                           "never re-used inside a run; registered for the id-stable flavours %s only; shapes X1-X3 (see c04_objects.py) on which the "
                           "pinned engine itself fails are excluded from the generator and replayed as known findings" % ", ".join(OBJ_FLAVOURS))
    for word, summ in rejects[:3]:
        d = dict(summ)
        d["monitor_verdict"] = word
        d["property"] = res.pid
        res.violation(d)
    for summ in hard[:3]:
        d = dict(summ)
        d["property"] = res.pid
        res.violation(d)
    return n, rejects, hard


# ---------------------------------------------------------------------------------------------------------------
# exact replay of a recorded run (the `schedule` of a summary is the complete executed trace: engine steps and user operations)

def parse_op(tok):
    """'U0:move:2:1:e' -> (0, ('move', 2, 1, 'e'))"""
    f = tok.split(":")
    s = int(f[0][1:])
    k = f[1]

    def oid(x):
        return None if x == "None" else int(x)
    if k == "create":
        return s, ("create", int(f[2]), oid(f[3]), f[4], int(f[5]))
    if k == "mkdir":
        return s, ("mkdir", int(f[2]), oid(f[3]), f[4])
    if k == "write":
        return s, ("write", int(f[2]), int(f[3]))
    if k == "delete":
        return s, ("delete", int(f[2]))
    return s, ("move", int(f[2]), oid(f[3]), f[4])


def replay_trace(flavour, base, base_side, owner, tokens, settle=0):
    """base: {id: [parent, name, kind, tag]}; owner: {id: side}; tokens: 'L' 'R' 'S' and 'U<side>:<op>' in executed order.
    settle > 0 appends that many fair rounds L,R,S.  Returns the run (caller closes it) and whether every operation was issued."""
    run = ObjRun(flavour, random.Random(1))
    b = OT({int(i): v for i, v in base.items()})
    paths = [(b.path(i), b.o[i][2]) for i in sorted(b.o)]
    if not run.build_base(paths, base_side):
        return run, False
    run.next_id = max(run.next_id, 1 + max([int(i) for i in owner] + list(b.o)))
    for i, sd in owner.items():
        if int(i) in run.base.o:
            run.owner[int(i)] = sd
    ok = True
    for tok in tokens:
        if tok in ("L", "R", "S"):
            run.engine(tok)
        elif tok.startswith("U"):
            sd, op = parse_op(tok)
            if op[0] == "write" or op[0] == "create":
                run.next_tag = max(run.next_tag, op[-1] + 1)
            if not run.truth.valid(op, run.fold) or not run.user(sd, op):
                ok = False
    for _ in range(settle):
        for x in "LRS":
            run.engine(x)
    return run, ok


def replay_summary(summ, settle=0):
    toks = [t for t in summ["schedule"] if not t.startswith("BASE") and not t.startswith("!")]
    # the first quiescence (of the base) is part of the recorded schedule: drop it, build_base does its own
    first = next((n for n, t in enumerate(toks) if t.startswith("U")), len(toks))
    bs = summ.get("scenario", {}).get("base_side", 0)
    return replay_trace(summ["flavour"], summ["base"], bs, {int(k): v for k, v in summ["owner"].items()}, toks[first:], settle)


def shrink(summ, verbose=False):
    """greedy minimisation of a failing recorded run: drop user operations, then engine steps, while the mirror still rejects"""
    toks = [t for t in summ["schedule"] if not t.startswith("BASE") and not t.startswith("!")]
    first = next((n for n, t in enumerate(toks) if t.startswith("U")), len(toks))
    toks = toks[first:]
    bs = summ.get("scenario", {}).get("base_side", 0)
    owner = {int(k): v for k, v in summ["owner"].items()}

    def fails(tk):
        run, ok = replay_trace(summ["flavour"], summ["base"], bs, owner, tk, settle=12)
        try:
            return ok and mirror_verdict(run).startswith("reject")
        finally:
            run.close()
    if not fails(toks):
        return None
    changed = True
    while changed:
        changed = False
        for n in range(len(toks)):
            if toks[n].startswith("U"):
                cand = toks[:n] + toks[n + 1:]
                if fails(cand):
                    toks, changed = cand, True
                    break
    changed = True
    while changed:
        changed = False
        for n in range(len(toks) - 1, -1, -1):
            if not toks[n].startswith("U"):
                cand = toks[:n] + toks[n + 1:]
                if fails(cand):
                    toks, changed = cand, True
                    break
    return toks


def replay_file(res, path):
    """./check C04 --replay <replay json of the object family>: re-executes the recorded trace exactly and lets Lean judge it"""
    import json
    summ = json.load(open(path))
    if "base" not in summ or "schedule" not in summ or "owner" not in summ:
        return False
    run, ok = replay_summary(summ)
    try:
        v = run_driver(LAYER, [run_line(run)])[0]
        res.notes.append("replay %s: every operation issued=%s, monc04 verdict %s" % (os.path.basename(path), ok, v.split(" | ")[0]))
        print("REPLAY %s -> %s" % (path, v.split(" | ")[0]))
        if v.startswith("reject"):
            res.violation(run.summary({"scenario": summ.get("scenario"), "property": res.pid, "monitor_verdict": v.split(" | ")[0], "replayed_from": path}))
    finally:
        run.close()
    return True


# ---------------------------------------------------------------------------------------------------------------
# calibration (measurements of the pinned engine; not part of the check)

def calibrate_random(n, seed, flavours=None, verbose=True):
    import collections
    import time as _t
    rng = random.Random(seed)
    stats = collections.defaultdict(collections.Counter)
    fails = []
    t0 = _t.time()
    for fl in (flavours or list(FLAVOURS)):
        for k in range(n):
            run, st = run_random(fl, random.Random(rng.getrandbits(32)))
            try:
                v = st if st != "ok" else mirror_verdict(run)
                stats[fl][v] += 1
                if v == "ok":
                    stats["shapes"][shape_of(run)] += 1
                    stats["nops"][(len(run.ops[0]), len(run.ops[1]))] += 1
                    stats["rej"][run.rejected] += 1
                    stats["unres"][run.unresolved] += 1
                if v != "ok" and not v.startswith("skip"):
                    fails.append((fl, "random", v, run.summary({"scenario": run.scenario})))
            finally:
                run.close()
    if verbose:
        print("time %.1fs" % (_t.time() - t0))
        for fl in (flavours or list(FLAVOURS)):
            print(fl, dict(stats[fl]))
        for k in ("rej", "unres"):
            print(k, sorted(stats[k].items(), key=lambda kv: -kv[1])[:40])
    return stats, fails


def calibrate(n, seed, flavours=None, templates=None, verbose=True, unfiltered=False):
    import collections
    import time as _t
    space = scenario_space()
    if templates is not None:
        space = [x for x in space if x[0] in templates]
    rng = random.Random(seed)
    stats = collections.defaultdict(collections.Counter)
    fails = []
    t0 = _t.time()
    for fl in (flavours or list(FLAVOURS)):
        for k in range(n):
            ti, ni, swap, il = rng.choice(space)
            words, rot = draw_schedule(rng, len(il))
            bs = rng.randint(0, 1)
            run, st = run_scenario(fl, ti, ni, swap, il, words, rot, bs, random.Random(rng.getrandbits(32)), unfiltered=unfiltered)
            try:
                v = st if st != "ok" else mirror_verdict(run)
                stats[fl][v.split()[0] if v.startswith("skip") else v] += 1
                stats[TEMPLATES[ti][0]][(fl, v.split()[0])] += 1
                if v not in ("ok",) and not v.startswith("skip") and v not in ("filtered",):
                    fails.append((fl, TEMPLATES[ti][0], v, run.summary({"scenario": run.scenario})))
            finally:
                run.close()
    if verbose:
        print("time %.1fs" % (_t.time() - t0))
        for fl in (flavours or list(FLAVOURS)):
            print(fl, dict(stats[fl]))
    return stats, fails


def calibrate_plan(tier, seeds, verbose=True):
    """runs exactly the check's plan for the given seeds with the Python mirror as judge (what the check will see on this tree)"""
    import collections
    c = collections.Counter()
    fails = []
    for seed in seeds:
        for kind, fl, params in plan(tier, seed):
            run, st = execute(kind, fl, params)
            try:
                v = st if st != "ok" else mirror_verdict(run)
                c[(fl, kind, v)] += 1
                if v != "ok" and not v.startswith("skip") and v not in ("filtered", "unissued"):
                    fails.append((fl, kind, v, run.summary({"scenario": run.scenario, "params": list(params)})))
            finally:
                run.close()
    if verbose:
        for k, v in sorted(c.items()):
            print(v, k)
    return c, fails


if __name__ == "__main__":
    import json
    fails = None
    if len(sys.argv) > 1 and sys.argv[1] == "--calibrate":
        n = int(sys.argv[2]) if len(sys.argv) > 2 else 50
        seed = int(sys.argv[3]) if len(sys.argv) > 3 else 0
        fls = sys.argv[4].split(",") if len(sys.argv) > 4 and sys.argv[4] != "-" else None
        stats, fails = calibrate(n, seed, fls, unfiltered="--unfiltered" in sys.argv)
    elif len(sys.argv) > 1 and sys.argv[1] == "--calibrate-random":
        n = int(sys.argv[2]) if len(sys.argv) > 2 else 50
        seed = int(sys.argv[3]) if len(sys.argv) > 3 else 0
        fls = sys.argv[4].split(",") if len(sys.argv) > 4 and sys.argv[4] != "-" else None
        stats, fails = calibrate_random(n, seed, fls)
    elif len(sys.argv) > 1 and sys.argv[1] == "--calibrate-plan":
        tier = sys.argv[2] if len(sys.argv) > 2 else "quick"
        seeds = [int(x) for x in sys.argv[3].split(",")] if len(sys.argv) > 3 else [0]
        c, fails = calibrate_plan(tier, seeds)
    if fails is not None:
        import collections
        c = collections.Counter((f[0], f[1], f[2]) for f in fails)
        for k, v in sorted(c.items()):
            print(v, k)
        out = os.path.join("/dev/shm" if os.path.isdir("/dev/shm") else "/tmp", "c04_fails_last.json")
        json.dump(fails, open(out, "w"), default=str)
        print("failures written to", out)
