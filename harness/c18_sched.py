"""C18 — deterministic, schedule-controlled execution of the REAL cloudsync.runnable.Runnable.

The real `start()/stop()/wake()/wait()` run on a real *caller* thread and the real `run()` on a real *service* thread, but every
thread is single-stepped by the controller (`Ctl`) at statement granularity:

 * `sys.settrace` line events inside the protocol methods of `Runnable` park the executing thread in front of every statement
   that touches a flag shared between the two threads (__stopping, __shutdown, __interrupt, __stopped, __thread) or calls
   do()/done().  Which lines these are is computed from the ACTUAL source by tools/gen_runnable_sites.significant (an `ast`
   pass), never from the model;
 * `threading` inside cloudsync.runnable is replaced by a shim: `Thread` is a stub whose start() hands the target to the controller
   (which runs it on a real, traced thread), whose join() parks the caller as "blocked:join", and whose is_alive() reflects
   whether the target has returned; `Event` is a stub whose wait() parks the caller as "blocked:evwait"; `current_thread()` maps
   the real service thread to its stub;
 * one schedule tick `C`/`S` grants exactly one parked/blocked thread the right to run up to its next parking point; the
   controller then waits (binary-semaphore handshake, no polling, no sleeps) until that thread has parked again, blocked, or
   ended.  A blocked thread is only granted a step when the thing it waits for has happened (event set / thread ended) or the
   tick says that the timed wait gives up.  A tick for a thread that is not enabled is a no-op (same rule in the model).

Nothing depends on wall-clock time: all waits are semaphore handshakes; the only timeouts are watchdogs (default 120 s per
handshake, VERIF_C18_HANDSHAKE_S) that raise HarnessError (exit 2) — never a verdict.  A "hang" of the real code is therefore
never inferred from elapsed time: the oracle of c18_runnable.py reports "the loop does not end / sleeps through the stop" only
from the schedule itself (a service tick that is not enabled, or 12 executed service statements without the thread ending).

Stand-alone use:  printf 'call start\nC F\n...' | /venv/bin/python harness/c18_sched.py   (one schedule token per line; prints the
observable summary after every tick).  Tokens: `call start` | `call stop <forever T/F> <wait T/F>` | `call wake` | `call wait <timed T/F>` |
`C <timed join gives up T/F>` | `S <sleep times out T/F> <outcome of do(): S N B E X F> <until() T/F>`."""
import os
import sys
import threading as _th
import time as _time
from fractions import Fraction

sys.path.insert(0, os.path.dirname(os.path.abspath(__file__)))
from common import HarnessError, import_repo, REPO, VERIF  # noqa

sys.path.insert(0, os.path.join(VERIF, "tools"))
import gen_runnable_sites  # noqa

WATCHDOG_S = float(os.environ.get("VERIF_C18_HANDSHAKE_S", "120"))

# parameters of the harness service (exact in binary floating point; the driver layer `threads` uses the same)
MIN_B, MAX_B, MULT_B, SLEEP = 0.25, 4.0, 2.0, 0.125

_CUR = [None]          # the controller of the run in progress (one at a time)
_PARK_CACHE = {}


def parking_lines():
    """{(method, lineno): label} of the actual source (cached per process)"""
    if "park" not in _PARK_CACHE:
        _PARK_CACHE["park"] = gen_runnable_sites.significant(gen_runnable_sites.read_source())
    return _PARK_CACHE["park"]


class _EventStub:
    def __init__(self):
        self.flag = False

    def is_set(self):
        return self.flag

    def set(self):
        self.flag = True

    def clear(self):
        self.flag = False

    def wait(self, timeout=None):
        ctl = _CUR[0]
        role = ctl.role_of_current() if ctl else None
        if ctl is None or role is None or ctl.free:
            return self.flag
        tok = ctl.arrive(role, "blocked", ("evwait", self, timeout))
        if tok == "timeout":
            return False
        return self.flag


class _ThreadStub:
    def __init__(self, group=None, target=None, name=None, args=(), kwargs=None, daemon=None):
        self.target, self.args, self.kwargs = target, args, dict(kwargs or {})
        self.name = name
        self.daemon = daemon
        self.started = False
        self.done = False
        self.real = None

    def start(self):
        if self.started:
            raise RuntimeError("threads can only be started once")
        _CUR[0].spawn_service(self)

    def is_alive(self):
        return self.started and not self.done

    def join(self, timeout=None):
        if not self.started:
            raise RuntimeError("cannot join thread before it is started")
        ctl = _CUR[0]
        role = ctl.role_of_current() if ctl else None
        if ctl is None or role is None or ctl.free:
            return
        ctl.arrive(role, "blocked", ("join", self, timeout))


class _ShimModule:
    """stands in for the `threading` module inside cloudsync.runnable (anything else is passed through to the real module)"""
    Thread = _ThreadStub
    Event = _EventStub

    @staticmethod
    def current_thread():
        ctl = _CUR[0]
        if ctl is not None:
            st = ctl.stub_of_current()
            if st is not None:
                return st
        return _th.current_thread()

    def __getattr__(self, name):
        return getattr(_th, name)


_Shim = _ShimModule()


class Ctl:
    """controller of one run: one Runnable instance, at most one caller call in flight, at most one live service thread"""

    def __init__(self):
        import_repo()
        import cloudsync.runnable as rmod
        self.rmod = rmod
        self.mx = _th.Lock()
        self.sems = {}
        self.st = {}            # role -> (status, label, info)   status: running | parked | blocked | done
        self.grant = {}         # role -> token
        self.free = False
        self.roles = {}         # real thread ident -> role
        self.stubs = {}         # real thread ident -> _ThreadStub (service threads)
        self.reals = []
        self.cur = {"out": "S", "untl": False}
        self.dos = []
        self.n_done = 0
        self.n_spawn = 0
        self.last_ret = "-"
        self.svc_exc = None
        self.svc_stub = None
        self.sleep_req = None
        park = parking_lines()
        R = rmod.Runnable
        self.codes = {}
        for m in gen_runnable_sites.METHODS:
            attr = "_Runnable" + m if m.startswith("__") else m
            fn = R.__dict__.get(attr)
            if isinstance(fn, property):
                fn = fn.fget
            if fn is not None and hasattr(fn, "__code__"):
                self.codes[fn.__code__] = m
        self.park = park
        ctl = self

        class Svc(R):
            min_backoff, max_backoff, mult_backoff = MIN_B, MAX_B, MULT_B

            def do(self):
                if ctl.free:
                    return
                o = ctl.cur["out"]
                ctl.dos.append(o)
                if o == "N":
                    self.nothing_happened()
                elif o == "B":
                    self.backoff()
                elif o == "E":
                    raise ValueError("scripted")
                elif o == "X":
                    raise KeyboardInterrupt("scripted base exception")
                elif o == "F":
                    self.nothing_happened()
                    raise ValueError("scripted failure after a no-op")

            def done(self):
                ctl.n_done += 1

        self.svc = Svc()
        self._saved_threading = rmod.threading
        rmod.threading = _Shim
        _CUR[0] = self

    # ---------------------------------------------------------------- thread side

    def role_of_current(self):
        return self.roles.get(_th.get_ident())

    def stub_of_current(self):
        return self.stubs.get(_th.get_ident())

    def _tracer(self, role):
        codes, park = self.codes, self.park

        def loc(frame, event, _arg):
            if event == "line" and not self.free:
                lab = park.get((codes[frame.f_code], frame.f_lineno))
                if lab is not None:
                    self.arrive(role, "parked", lab)
            return loc

        def glob(frame, event, _arg):
            if event == "call" and frame.f_code in codes:
                return loc
            return None
        return glob

    def _sem(self, kind, role):
        """binary semaphores (raw locks, initially taken): 'go' = the thread may run; 'arr' = the thread has arrived"""
        key = (kind, role)
        lk = self.sems.get(key)
        if lk is None:
            with self.mx:
                lk = self.sems.get(key)
                if lk is None:
                    lk = _th.Lock()
                    lk.acquire()
                    self.sems[key] = lk
        return lk

    @staticmethod
    def _post(lk):
        try:
            lk.release()
        except RuntimeError:
            pass

    def arrive(self, role, status, info):
        """called by a controlled thread at a scheduling point; returns the token of the grant"""
        if status == "blocked" and info[0] == "evwait":
            self.sleep_req = info[2]
        go = self._sem("go", role)
        self.st[role] = (status, info)
        self._post(self._sem("arr", role))
        end = _time.monotonic() + WATCHDOG_S * 4
        while not self.free:
            if go.acquire(timeout=5.0):
                break
            if _time.monotonic() > end:
                self.free = True              # abandoned by the controller: run free so that the thread can end
        if self.free:
            return "free"
        return self.grant.pop(role)

    def _finish(self, role, stub=None):
        if stub is not None:
            stub.done = True
        self.st[role] = ("done", None)
        self._post(self._sem("arr", role))

    def spawn_service(self, stub):
        """_ThreadStub.start(): run the target on a real traced thread; returns (like Thread.start) once the new thread exists —
        here: once it has reached its first scheduling point"""
        def body():
            me = _th.get_ident()
            self.roles[me] = "S"
            self.stubs[me] = stub
            sys.settrace(self._tracer("S"))
            try:
                stub.target(*stub.args, **stub.kwargs)
            except BaseException as e:  # noqa  (run() lets TimeoutError etc. escape)
                self.svc_exc = repr(e)
            finally:
                sys.settrace(None)
                self.roles.pop(me, None)          # thread identifiers are reused by later threads
                self.stubs.pop(me, None)
                self._finish("S", stub)
        stub.started = True
        self.n_spawn += 1
        self.svc_stub = stub
        self.st["S"] = ("running", None)
        t = _th.Thread(target=body, name="c18-service", daemon=True)
        stub.real = t
        self.reals.append(t)
        t.start()
        self._await("S")

    def _await(self, role):
        """wait until `role` has arrived at its next scheduling point (parked again, blocked, or done)"""
        if not self._sem("arr", role).acquire(timeout=WATCHDOG_S):
            raise HarnessError("C18 scheduler: thread %s did not reach a scheduling point within %.0f s (state %r)"
                               % (role, WATCHDOG_S, self.st.get(role)))

    # ---------------------------------------------------------------- controller side

    def status(self, role):
        return self.st.get(role, ("absent", None))

    def call(self, what, *args):
        """the idle caller thread begins an API call; returns False if a call is still in progress"""
        if self.status("C")[0] not in ("absent", "done"):
            return False
        svc = self.svc
        if what == "start":
            fn = lambda: svc.start(daemon=True, sleep=SLEEP, until=self._until)  # noqa
        elif what == "stop":
            fn = lambda: svc.stop(forever=args[0], wait=args[1])  # noqa
        elif what == "wake":
            fn = lambda: svc.wake()  # noqa
        elif what == "wait":
            fn = lambda: svc.wait(timeout=1.0 if args[0] else None)  # noqa
        else:
            raise HarnessError("unknown call %r" % (what,))
        self.last_ret = "-"

        def body():
            me = _th.get_ident()
            self.stubs.pop(me, None)
            self.roles[me] = "C"
            sys.settrace(self._tracer("C"))
            try:
                r = fn()
                self.last_ret = "ok:%s" % (r,)
            except BaseException as e:  # noqa
                self.last_ret = type(e).__name__
                self.last_exc = repr(e)
            finally:
                sys.settrace(None)
                self.roles.pop(me, None)
                self._finish("C")
        self.st["C"] = ("running", None)
        t = _th.Thread(target=body, name="c18-caller", daemon=True)
        self.reals.append(t)
        t.start()
        self._await("C")
        return True

    def _until(self):
        return True if self.free else bool(self.cur["untl"])

    def enabled(self, role, tmo):
        status, info = self.status(role)
        if status == "parked":
            return "go"
        if status == "blocked":
            kind, obj, timeout = info
            if kind == "evwait":
                return "go" if obj.flag else ("timeout" if tmo else None)
            if kind == "join":
                return "go" if obj.done else ("timeout" if (tmo and timeout is not None) else None)
        return None

    def tick(self, role, tmo=False, out="S", untl=False):
        """one schedule tick; returns False if the thread was not enabled (nothing happened)"""
        tok = self.enabled(role, tmo)
        if tok is None:
            return False
        self.cur["out"], self.cur["untl"] = out, untl
        self.grant[role] = tok
        self.st[role] = ("running", None)
        self._post(self._sem("go", role))
        self._await(role)
        return True

    # ---------------------------------------------------------------- observation (same format as the driver layer `threads`)

    def _enc_thread(self, role):
        status, info = self.status(role)
        if status == "parked":
            return "parked@" + info
        if status == "blocked":
            if info[0] == "evwait":
                fr = Fraction(info[2]) if info[2] is not None else None
                return "blocked:evwait:" + ("%d/%d" % (fr.numerator, fr.denominator) if fr is not None else "None")
            return "blocked:join"
        if role == "S":
            return "none" if status == "absent" else "dead"
        return "idle"

    def obs(self):
        s = self.svc
        b = lambda x: "T" if x else "F"  # noqa
        ev = s._Runnable__interrupt
        thr = s._Runnable__thread
        fb = Fraction(s.in_backoff)
        return "svc=%s|cal=%s|stopping=%s shutdown=%s stopped=%s intr=%s thr=%s alive=%s do=%d done=%d starts=%d outs=%s ret=%s b=%d/%d" % (
            self._enc_thread("S"), self._enc_thread("C"), b(s._Runnable__stopping), b(s._Runnable__shutdown), b(s._Runnable__stopped),
            "absent" if ev is None else ("set" if ev.flag else "clear"), b(thr is not None), b(bool(thr is not None and thr.is_alive())),
            len(self.dos), self.n_done, self.n_spawn, "".join(self.dos) or "-", self.last_ret, fb.numerator, fb.denominator)

    def facts(self):
        """observables used by the property oracle"""
        s = self.svc
        thr = s._Runnable__thread
        return {"do": len(self.dos), "done": self.n_done, "alive": bool(thr is not None and thr.is_alive()),
                "cal": self.status("C")[0], "svc": self.status("S")[0], "ret": self.last_ret, "stopped_prop": bool(s.stopped),
                "started_prop": bool(s.started), "svc_exc": self.svc_exc}

    # ---------------------------------------------------------------- teardown

    def close(self):
        """let every thread run free to its end (flags set so that the loop leaves), restore the module"""
        leaked = 0
        try:
            self.free = True
            try:
                self.svc._Runnable__stopping = True
                self.svc._Runnable__shutdown = True
            except Exception:  # noqa
                pass
            ev = getattr(self.svc, "_Runnable__interrupt", None)
            if ev is not None:
                ev.flag = True
            for role in ("C", "S"):
                self._post(self._sem("go", role))
            for t in self.reals:
                t.join(WATCHDOG_S / 4)
                if t.is_alive():
                    leaked += 1
        finally:
            self.rmod.threading = self._saved_threading
            if _CUR[0] is self:
                _CUR[0] = None
        return leaked


def parse_tick(tok):
    """schedule token -> ("call", what, args) | ("C", tmo) | ("S", tmo, out, untl)"""
    p = tok.split()
    if p[0] == "call":
        if p[1] == "stop":
            return ("call", "stop", (p[2] == "T", p[3] == "T"))
        if p[1] == "wait":
            return ("call", "wait", (p[2] == "T",))
        return ("call", p[1], ())
    if p[0] == "C":
        return ("C", p[1] == "T")
    if p[0] == "S":
        return ("S", p[1] == "T", p[2], p[3] == "T")
    raise HarnessError("bad schedule token %r" % tok)


def run_real(sched, want_obs=True):
    """execute a schedule (list of tokens of the `threads` driver layer, without the reset) on the real Runnable.
    -> (list of observation lines, one per token; list of fact dicts; leaked thread count)"""
    ctl = Ctl()
    out, facts = [], []
    try:
        for tok in sched:
            t = parse_tick(tok)
            if t[0] == "call":
                moved = ctl.call(t[1], *t[2])
            elif t[0] == "C":
                moved = ctl.tick("C", tmo=t[1])
            else:
                moved = ctl.tick("S", tmo=t[1], out=t[2], untl=t[3])
            if want_obs:
                out.append(ctl.obs())
            f = ctl.facts()
            f["moved"] = bool(moved)
            facts.append(f)
    finally:
        leaked = ctl.close()
    return out, facts, leaked


if __name__ == "__main__":
    import subprocess
    sched = [ln.strip() for ln in sys.stdin if ln.strip()]
    o, f, lk = run_real(sched)
    for a, b in zip(sched, o):
        print("%-16s %s" % (a, b))
    print("leaked", lk)
