"""History / schedule generators and the run recorder shared by the engine-level checks (C01-C07, C10, C12, C14).
User operations are drawn against the current tree of the side (so they are mostly valid); every accepted operation is
recorded with fresh content tags; engine steps are interleaved by a seeded schedule."""
import os
import sys

sys.path.insert(0, os.path.dirname(os.path.abspath(__file__)))
from engine import *  # noqa

NAMES = ["a", "b", "c.txt", "d"]


def content(tag):
    return b"v%d" % tag


def tag_of(data):
    try:
        if data.startswith(b"v"):
            return int(data[1:])
    except ValueError:
        pass
    return 10 ** 9 + (sum(data) % 997)


def enc_rel(rel):
    comps = [c for c in rel.split("/") if c]
    return "@" if not comps else ",".join(enc_str(c) for c in comps)


def dec_rel(tok):
    if tok == "@":
        return "/"
    return "/" + "/".join(dec_str(c) for c in tok.split(","))


def enc_tree(t, fold=False):
    out = []
    for k in sorted(t):
        v = t[k]
        kk = k.lower() if fold else k
        out.append("%s=%s" % (enc_rel(kk), "D" if v[0] == "d" else "F%d" % tag_of(v[1])))
    return " ".join(out)


def t_is_dir(tree, rel):
    v = tree.get(rel)
    return v is not None and v[0] == "d"


class Recorder:
    """drives a World through a history and records what the monitors need"""
    def __init__(self, world, rng):
        self.w = world
        self.rng = rng
        self.next_tag = 1
        self.ops = []            # (side, kind, rel args..., tag?) accepted user operations
        self.ledger = []         # ledger events tokens
        self.rejected = 0
        self.engine_steps = 0
        self.origin_changed_steps = [0, 0]
        self.trace = []          # schedule actually executed
        self.spell_roots = True
        # names freed (deleted / renamed away) since the last quiescence, per side: reusing such a name inside the unsynced
        # window is a measured weak spot of the pinned engine (known finding); the generator avoids it by construction
        self.freed = [set(), set()]
        self.avoid_reuse = True
        # paths created / written / moved-to since the last quiescence: a folder with such (possibly unsynced) content beneath
        # it is not renamed inside the same window (measured weak spot of the pinned engine: folder rename with unsynced children)
        self.touched = set()

    def fresh(self):
        t = self.next_tag
        self.next_tag += 1
        return t

    def abs(self, side, rel):
        root = self.w.roots[side]
        if not self.w.provs[side].case_sensitive and not self.w.provs[side].oid_is_path and self.spell_roots:
            # a case-insensitive account: users may spell the root folder in any case
            root = self.rng.choice([root, root.upper(), root.title(), root])
        return root + rel

    def engine(self, which, watch_side=None):
        before = self.w.tree(watch_side) if watch_side is not None else None
        r = self.w.step(which)
        self.engine_steps += 1
        self.trace.append(which)
        if watch_side is not None and self.w.tree(watch_side) != before:
            self.origin_changed_steps[watch_side] += 1
        return r

    def user(self, side, kind, *rels, tag=None):
        """applies a user operation given root-relative paths; returns True if the provider accepted it"""
        w = self.w
        t = w.tree(side)
        killed = None
        if kind in ("write", "delete") and rels[0] in t and t[rels[0]][0] == "f":
            killed = tag_of(t[rels[0]][1])
        if kind == "rename" and rels[1] in t and t[rels[1]][0] == "f":
            pass
        if self.avoid_reuse and kind in ("create", "mkdir", "rename"):
            dest = rels[-1]
            fold = (lambda x: x.lower()) if not self.w.provs[side].case_sensitive else (lambda x: x)
            for f in self.freed[0] | self.freed[1]:
                if fold(dest) == fold(f) or fold(dest).startswith(fold(f) + "/") or fold(f).startswith(fold(dest) + "/"):
                    self.rejected += 1
                    return False
        if self.avoid_reuse and kind == "rename":
            src = rels[0]
            if any(t == src or t.startswith(src + "/") for t in self.touched if t != src) and t_is_dir(self.w.tree(side), src):
                self.rejected += 1
                return False
        args = [self.abs(side, r) for r in rels]
        if kind in ("create", "write"):
            args.append(content(tag))
        err = w.user(side, kind, *args)
        self.trace.append("U%d:%s:%s" % (side, kind, ",".join(rels) + (":%d" % tag if tag is not None else "")))
        if err:
            self.rejected += 1
            return False
        self.ops.append((side, kind) + tuple(rels) + ((tag,) if tag is not None else ()))
        if kind in ("delete", "rename"):
            self.freed[side].add(rels[0])
        if kind in ("create", "write", "mkdir", "rename"):
            self.touched.add(rels[-1])
        if kind == "create":
            self.ledger.append("W:%d:~" % tag)
        elif kind == "write":
            self.ledger.append("W:%d:%s" % (tag, "~" if killed is None else killed))
        elif kind == "delete" and killed is not None:
            self.ledger.append("D:%d" % killed)
        return True

    # ---- random operation against the current tree, restricted to a set of allowed top-level names ------
    def random_op(self, side, allowed_tops=None, kinds=None, max_depth=3, new_tops=None):
        rng, t = self.rng, self.w.tree(side)

        def ok(rel):
            if allowed_tops is None:
                return True
            top = rel.split("/")[1]
            return top in allowed_tops
        files = [k for k, v in t.items() if v[0] == "f" and ok(k) and not conflicted(k)]
        dirs = [k for k, v in t.items() if v[0] == "d" and ok(k) and not conflicted(k)]
        parents = [""] + [d for d in dirs if d.count("/") < max_depth - 1]
        if allowed_tops is not None:
            parents = [d for d in dirs if d.count("/") < max_depth - 1]
        tops = list(new_tops if new_tops is not None else (allowed_tops if allowed_tops is not None else NAMES))

        def new_name(parent):
            if parent == "":
                cands = ["/" + n for n in tops]
            else:
                cands = [parent + "/" + n for n in NAMES]
            cands = [c for c in cands if c not in t]
            return rng.choice(cands) if cands else None
        kinds = kinds or ["create", "create", "write", "write", "rename", "move", "delete", "mkdir", "rmdir", "dirrename", "caserename"]
        for _ in range(8):
            k = rng.choice(kinds)
            if k == "create":
                par = rng.choice(parents) if parents else None
                if par is None:
                    continue
                n = new_name(par)
                if n:
                    return self.user(side, "create", n, tag=self.fresh())
            elif k == "write" and files:
                return self.user(side, "write", rng.choice(files), tag=self.fresh())
            elif k == "delete" and files:
                return self.user(side, "delete", rng.choice(files))
            elif k == "mkdir":
                par = rng.choice(parents) if parents else None
                if par is None:
                    continue
                n = new_name(par)
                if n:
                    return self.user(side, "mkdir", n)
            elif k == "rmdir":
                empties = [d for d in dirs if not any(x.startswith(d + "/") for x in t)]
                if empties:
                    return self.user(side, "delete", rng.choice(empties))
            elif k == "rename" and files:
                f = rng.choice(files)
                par = f.rsplit("/", 1)[0]
                n = new_name(par) if (par != "" or allowed_tops is None or True) else None
                if par == "" and allowed_tops is not None:
                    n = None
                    cands = ["/" + x for x in tops if "/" + x not in t]
                    n = rng.choice(cands) if cands else None
                if n:
                    return self.user(side, "rename", f, n)
            elif k == "move" and files and parents:
                f = rng.choice(files)
                par = rng.choice(parents)
                n = new_name(par)
                if n and not n.startswith(f + "/"):
                    return self.user(side, "rename", f, n)
            elif k == "caserename" and (files or dirs) and not self.w.provs[0].case_sensitive and not self.w.provs[1].case_sensitive:
                x = rng.choice(files + dirs)
                head, leaf = x.rsplit("/", 1)
                if leaf.swapcase() != leaf:
                    return self.user(side, "rename", x, head + "/" + leaf.swapcase())
            elif k == "dirrename" and dirs:
                d = rng.choice(dirs)
                par = rng.choice(parents) if parents else ""
                if par == d or par.startswith(d + "/"):
                    continue
                n = new_name(par)
                if n and not n.startswith(d + "/") and n != d:
                    return self.user(side, "rename", d, n)
        return False

    def interleave(self, nmax=3, watch_side=None):
        for _ in range(self.rng.randint(0, nmax)):
            self.engine(self.rng.choice("LRS"), watch_side)

    def quiesce(self, cap=400, watch_side=None):
        """fair random stepping to quiet; returns True if quiet was reached"""
        quiet_rounds = 0
        n = 0
        while n < cap:
            seq = list("LRS")
            self.rng.shuffle(seq)
            for x in seq:
                self.engine(x, watch_side)
                n += 1
            if not self.w.busy():
                quiet_rounds += 1
                if quiet_rounds >= 2:
                    # on path-id providers the id of a freed name is reused by whatever is created there later and tombstoned
                    # entries linger: reuse stays excluded for the whole run there (measured weak spot, known finding)
                    if not (self.w.provs[0].oid_is_path or self.w.provs[1].oid_is_path):
                        self.freed = [set(), set()]
                    self.touched = set()
                    return True
            else:
                quiet_rounds = 0
        return False


def build_base(rec, n_ops, side=None):
    """a synchronised base tree: random creations on one or both sides, then quiesce; returns True if converged"""
    # a base is built from one side only: concurrent file-vs-folder name clashes are a known weak spot of the pinned engine
    if side is None:
        side = rec.rng.randint(0, 1)
    for _ in range(n_ops):
        rec.random_op(side, kinds=["create", "create", "mkdir", "create", "mkdir"])
    ok = rec.quiesce()
    return ok and trees_converged(rec.w.tree(0), rec.w.tree(1), fold_case=rec.w.flavour.endswith("-ci"))


# ---------------------------------------------------------------------------------------------------------------
# Families.  Each returns a dict describing the run: quiet reached, trees, and what the monitors need.
# A family is registered for a check only for the flavours on which the pinned engine was measured reliable
# (see DESIGN.md "engine families"); the measured unreliable shapes are known findings with exact replays.

def fam_settled(rec, nops, sides=(0, 1), kinds=None):
    """every user operation is followed by quiescence under a random fair schedule"""
    fold = rec.w.flavour.endswith("-ci")
    checkpoints = []
    for _ in range(nops):
        s = rec.rng.choice(sides)
        if not rec.random_op(s, kinds=kinds):
            continue
        q = rec.quiesce()
        checkpoints.append((q, rec.w.tree(0), rec.w.tree(1)))
        if not q or not trees_converged(checkpoints[-1][1], checkpoints[-1][2], fold):
            break
    return checkpoints


def fam_onesided(rec, nops, side, kinds=None, interleave=2):
    """operations on one side only, engine steps interleaved; returns data for the C03 monitor"""
    origin_before_ops = rec.w.tree(side)
    expected = None
    for _ in range(nops):
        rec.random_op(side, kinds=kinds)
        expected = rec.w.tree(side)
        for _ in range(rec.rng.randint(0, interleave)):
            rec.engine(rec.rng.choice("LRS"), watch_side=side)
    expected = rec.w.tree(side)
    q = rec.quiesce(watch_side=side)
    n_calls = len(rec.w.calls)
    extra = 0
    if q:
        for _ in range(4):
            for x in "LRS":
                rec.engine(x, watch_side=side)
        extra = len([c for c in rec.w.calls[n_calls:] if c.by == "engine" and c.method != "download" and not c.error])
    return {"quiet": q, "expected_origin": expected, "origin": rec.w.tree(side), "mirror": rec.w.tree(1 - side),
            "origin_changed_steps": rec.origin_changed_steps[side], "writes_after_quiet": extra}


def fam_disjoint(rec, nops):
    """both sides change disjoint top-level subtrees concurrently (C04).  Returns ops per side for the merge monitor."""
    base_l = rec.w.tree(0)
    tops = sorted({k.split("/")[1] for k in base_l})
    rec.rng.shuffle(tops)
    half = len(tops) // 2
    mine = (set(tops[:half]) | {"lx", "ly.txt"}, set(tops[half:]) | {"rx", "ry.txt"})
    new_tops = (["lx", "ly.txt"], ["rx", "ry.txt"])
    start = len(rec.ops)
    for _ in range(nops):
        s = rec.rng.randint(0, 1)
        rec.random_op(s, allowed_tops=mine[s], new_tops=new_tops[s])
        rec.interleave(2)
    q = rec.quiesce()
    ops = rec.ops[start:]
    return {"quiet": q, "base": base_l, "opsL": [o for o in ops if o[0] == 0], "opsR": [o for o in ops if o[0] == 1],
            "L": rec.w.tree(0), "R": rec.w.tree(1)}


def fam_conflict(rec, nops):
    """both sides create / overwrite / delete the same files concurrently (C02, C05): files only"""
    for _ in range(nops):
        s = rec.rng.randint(0, 1)
        rec.random_op(s, kinds=["create", "write", "write", "delete", "create"])
        rec.interleave(2)
    q = rec.quiesce()
    return {"quiet": q, "L": rec.w.tree(0), "R": rec.w.tree(1), "ledger": list(rec.ledger)}


def op_token(o, fold=False):
    kind = o[1]
    if fold:
        o = tuple(x.lower() if isinstance(x, str) and x.startswith("/") else x for x in o)
    if kind == "create":
        return "C:%s:%d" % (enc_rel(o[2]), o[3])
    if kind == "write":
        return "W:%s:%d" % (enc_rel(o[2]), o[3])
    if kind == "mkdir":
        return "M:%s" % enc_rel(o[2])
    if kind == "delete":
        return "D:%s" % enc_rel(o[2])
    if kind == "rename":
        return "R:%s:%s" % (enc_rel(o[2]), enc_rel(o[3]))
    raise HarnessError("bad op " + repr(o))
