"""C11 helper: deterministic wrapper around the real cloudsync.sync.state.SyncState.

* virtual clock injected as module attribute `time` of cloudsync.sync.state
* insertion-ordered `set` replacement injected as module global `set` of cloudsync.sync.state
* entries are named by creation order (SyncEntry.__init__ is wrapped to register every new entry)
* two MockProviders supply join / is_subpath / paths_match / normalize_path_separators; `info_path` and
  `prioritize` are deterministic oracles (the Lean model takes the same functions as parameters)
* `apply(op)` executes one state-level operation, `dump()` renders indexes, pending set, dirty set and every
  entry's fields in the canonical text form the Lean driver prints.
"""
import os
import sys

sys.path.insert(0, os.path.dirname(os.path.abspath(__file__)))
from common import import_repo, enc_str, HarnessError  # noqa

SIDES = (0, 1)


class Clock:
    """virtual `time` module: only `time()` is used by state.py"""
    def __init__(self):
        self.ms = 1000000

    def time(self):
        return self.ms / 1000.0

    def monotonic(self):
        return self.ms / 1000.0

    def sleep(self, _s):
        pass


class OrderedSet:
    """insertion-ordered set with the operations state.py uses"""
    def __init__(self, it=()):
        self._d = {}
        for x in it:
            self._d[x] = None

    def add(self, x):
        self._d[x] = None

    def discard(self, x):
        self._d.pop(x, None)

    def remove(self, x):
        del self._d[x]

    def clear(self):
        self._d.clear()

    def copy(self):
        return OrderedSet(self._d)

    def __contains__(self, x):
        return x in self._d

    def __iter__(self):
        return iter(list(self._d))

    def __len__(self):
        return len(self._d)

    def __bool__(self):
        return bool(self._d)


class FakeStorage:
    """read-only storage used for the `reload` operation"""
    def __init__(self, rows):
        self.rows = rows

    def read_all(self, tag=None):
        return dict(self.rows)

    def create(self, tag, ser):
        raise HarnessError("storage write during C11 run")

    update = delete = read = create


HASHES = {}


def hash_val(n):
    if n is None:
        return None
    return b"" if n == 0 else ("h%d" % n).encode()


def hash_tok(v):
    if v is None:
        return "~"
    if v == b"" or v == "":
        return "0"
    if isinstance(v, str):
        v = v.encode()
    return v[1:].decode()


def prio_fn(mode):
    """prioritize oracle: mode 0 = the default (always 0); mode 1: 'z' in path -> 2, 'y' in path -> -1, else 0"""
    if mode == 0:
        return None

    def f(_side, path):
        if "z" in path:
            return 2
        if "y" in path:
            return -1
        return 0
    return f


def info_oid(mode, path):
    """info_path oracle used by _update_kids on path-id providers: the oid of the object at `path`, or None.
    mode 0: nothing exists; mode 1: everything exists with oid = path; mode 2: exists unless 'n' in path."""
    if mode == 0:
        return None
    if mode == 2 and "n" in path:
        return None
    return path


class Real:
    """cfg = (oipL, oipR, csL, csR, prio_mode, info_mode)"""
    installed = False

    def __init__(self):
        import_repo()
        import cloudsync.sync.state as S
        from cloudsync.providers.mock import MockProvider
        from cloudsync.types import OInfo, IgnoreReason, OType
        self.S, self.MockProvider, self.OInfo = S, MockProvider, OInfo
        self.IR, self.OT = IgnoreReason, OType
        self.clock = Clock()
        self.reg = []
        if not Real.installed:
            S.time = self.clock
            S.set = OrderedSet
            orig = S.SyncEntry.__init__
            holder = self

            def init(this, *a, **k):
                Real.current.reg.append(this)
                orig(this, *a, **k)
            init.__annotations__ = getattr(orig, "__annotations__", {})
            S.SyncEntry.__init__ = init
            Real.installed = True
            Real.clock = self.clock
        else:
            self.clock = Real.clock
        Real.current = self
        self.IGN = {"n": IgnoreReason.NONE, "d": IgnoreReason.DISCARDED, "c": IgnoreReason.CONFLICT,
                    "t": IgnoreReason.TEMP_RENAME, "i": IgnoreReason.IRRELEVANT}
        self.IGN_R = {v: k for k, v in self.IGN.items()}
        self.OTY = {"d": OType.DIRECTORY, "f": OType.FILE, "n": OType.NOTKNOWN}
        self.OTY_R = {v: k for k, v in self.OTY.items()}
        E = S.Exists
        self.EX = {"u": E.UNKNOWN, "e": E.EXISTS, "t": E.TRASHED, "m": E.MISSING, "l": E.LIKELY_TRASHED, "c": E.CORRUPT}
        self.EX_R = {v: k for k, v in self.EX.items()}
        self.state = None

    # ------------------------------------------------------------ construction
    def reset(self, cfg):
        self.cfg = cfg
        oipL, oipR, csL, csR, pm, im = cfg
        provs = []
        for side, (oip, cs) in enumerate(((oipL, csL), (oipR, csR))):
            p = self.MockProvider(oip, cs)
            p.default_sleep = 0.01 * (side + 1)          # punt_secs = 1 ms / 2 ms
            OInfo, FILE = self.OInfo, self.OT.FILE

            def info_path(path, use_cache=True, _im=im):
                o = info_oid(_im, path)
                return None if o is None else OInfo(otype=FILE, oid=o, hash=None, path=path)
            p.info_path = info_path
            provs.append(p)
        self.provs = tuple(provs)
        self.clock.ms = 1000000
        self.reg = []
        Real.current = self
        self.state = self.S.SyncState(self.provs, prioritize=prio_fn(pm))

    def reload(self):
        """serialise every entry reachable from the id indexes (get_all(discarded=True) order) and build a new
        SyncState from that storage; entries are renumbered in load order"""
        ents = list(self.state.get_all(discarded=True))
        rows = {i + 1: e.serialize() for i, e in enumerate(ents)}
        self.reg = []
        Real.current = self
        pm = self.cfg[4]
        st = self.S.SyncState(self.provs, storage=FakeStorage(rows), tag="t", prioritize=prio_fn(pm))
        st._storage = None
        st._tag = None
        self.state = st

    # ------------------------------------------------------------ naming
    def ix(self, ent):
        for i, e in enumerate(self.reg):
            if e is ent:
                return i
        raise HarnessError("entry not registered")

    # ------------------------------------------------------------ operations
    def exval(self, t):
        if t == "T":
            return True
        if t == "F":
            return False
        if t == "~":
            return None
        return self.EX[t]

    def chg(self, v):
        if v is None:
            return None
        if v == "F":
            return False
        return v / 1000.0 if v % 1000 else float(v // 1000)

    def apply(self, op):
        """returns (status, result-string)"""
        st = self.state
        k = op[0]
        res = "-"
        try:
            if k == "T":
                self.clock.ms += op[1]
            elif k == "P":
                self.reg[op[1]][op[2]].path = op[3]
            elif k == "O":
                self.reg[op[1]][op[2]].oid = op[3]
            elif k == "C":
                self.reg[op[1]][op[2]].changed = self.chg(op[3])
            elif k == "I":
                self.reg[op[1]].ignored = self.IGN[op[2]]
            elif k == "R":
                self.reg[op[1]].priority = op[2]
            elif k == "X":
                self.reg[op[1]][op[2]].exists = self.exval(op[3])
            elif k == "H":
                self.reg[op[1]][op[2]].hash = hash_val(op[3])
            elif k == "SH":
                self.reg[op[1]][op[2]].sync_hash = hash_val(op[3])
            elif k == "SP":
                self.reg[op[1]][op[2]].sync_path = op[3]
            elif k == "OT":
                self.reg[op[1]][op[2]].otype = self.OTY[op[3]]
            elif k == "SZ":
                self.reg[op[1]][op[2]].size = op[3]
            elif k == "MT":
                self.reg[op[1]][op[2]].mtime = op[3]
            elif k == "U":
                _, side, ot, oid, path, h, ex, prior, size, mtime, acc = op
                st.update(side, self.OTY[ot], oid, path=path, hash=hash_val(h), exists=self.exval(ex), prior_oid=prior,
                          size=size, mtime=mtime, accurate=acc)
            elif k == "UE":
                _, e, side, oid, path, h, ex, ch, ot, size, mtime, acc = op
                st.update_entry(self.reg[e], side, oid, path=path, file_hash=hash_val(h), exists=self.exval(ex),
                                changed=(False if ch is None else self.chg(ch)), otype=(None if ot is None else self.OTY[ot]),
                                size=size, mtime=mtime, accurate=acc)
            elif k == "SPL":
                st.split(self.reg[op[1]])     # returns (ent, REMOTE, new entry, LOCAL); the new entry is visible in the dump
            elif k == "SI":
                self.reg[op[1]][op[2]] = self.reg[op[3]][op[4]]
            elif k == "FG":
                st.forget_oid(op[1], op[2])
            elif k == "CL":
                self.reg[op[1]][op[2]].clear()
            elif k == "MK":
                st.mark_changed(op[2], self.reg[op[1]])
            elif k == "PU":
                self.reg[op[1]].punt()
            elif k == "UI":
                self.reg[op[1]].unignore(self.IGN[op[2]])
            elif k == "CM":
                st.storage_commit()
            elif k == "RL":
                self.reload()
            elif k == "K":
                res = ",".join("%d:%s" % (self.ix(e), enc_str(rel)) for e, rel in st.get_kids(op[2], op[1])) or "-"
            elif k == "LP":
                res = ",".join(str(self.ix(e)) for e in st.lookup_path(op[1], op[2], stale=op[3])) or "-"
            elif k == "LO":
                e = st.lookup_oid(op[1], op[2])
                res = "~" if e is None else str(self.ix(e))
            else:
                raise HarnessError("bad op %r" % (op,))
        except AssertionError:
            return "Assert", "-"
        except KeyError:
            return "Key", "-"
        except ValueError:
            return "Value", "-"
        except RecursionError:
            return "Recursion", "-"
        except HarnessError:
            raise
        except Exception as e:  # noqa
            return "Other:" + type(e).__name__, "-"
        return "ok", res

    # ------------------------------------------------------------ dump
    @staticmethod
    def num(x):
        if x is None:
            return "~"
        if x is False:
            return "F"
        return str(int(round(x * 1000)))

    def side_str(self, sd):
        d = sd.__dict__
        return " ".join([
            self.OTY_R.get(d["_otype"], "?"), hash_tok(d["_hash"]), self.num(d["_changed"]), hash_tok(d["_sync_hash"]),
            enc_str(d["_sync_path"]), enc_str(d["_path"]), enc_str(d["_oid"]), self.EX_R[d["_exists"]],
            "~" if d["_saved_exists"] is None else self.EX_R[d["_saved_exists"]],
            "~" if d["_size"] is None else str(d["_size"]), "~" if d["_mtime"] is None else str(d["_mtime"]),
            self.num(d["_last_gotten"])])

    def dump(self):
        st = self.state
        parts = ["n=%d %d %d" % (len(self.reg), self.clock.ms, int(round(st._last_changed_time * 1000)))]
        for side in SIDES:
            parts.append("O%d " % side + (",".join("%s:%d" % (enc_str(k), self.ix(e)) for k, e in st._oids[side].items()) or "-"))
        for side in SIDES:
            parts.append("P%d " % side + (";".join(
                "%s=%s" % (enc_str(p), ",".join("%s:%d" % (enc_str(k), self.ix(e)) for k, e in b.items()) or "-")
                for p, b in st._paths[side].items()) or "-"))
        parts.append("CS " + (",".join(str(self.ix(e)) for e in st._changeset_storage) or "-"))
        parts.append("D " + (",".join(str(self.ix(e)) for e in st._dirtyset) or "-"))
        try:
            parts.append("GA " + (",".join(str(self.ix(e)) for e in st.get_all()) or "-"))
        except AssertionError:
            parts.append("GA !")
        for i, e in enumerate(self.reg):
            parts.append("E%d %s %s / %s / %s" % (i, self.IGN_R[e._ignored], e._priority, self.side_str(e[0]), self.side_str(e[1])))
        return " | ".join(parts)
