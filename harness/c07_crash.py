"""C07 — crash consistency: dying immediately before any individual storage write or immediately after any individual
engine-issued provider write loses nothing.

Two layers (TASK_ENGINE):
 (1) Lean specification lean/Csverif/Model/Spec/Crash.lean (effect-log checker `check`, theorems in Props/C07.lean: every prefix of
     an accepted log is `Consistent` — stored cursor never ahead of the committed events, a storage row claims content X as synced
     on a side only after a provider write put X there) + the decision-table model of `_create_synced` / `create_synced` /
     the same-hash merge of `handle_split_conflict`, tied differentially to the real functions.
 (2) Trace refinement on the REAL engine: the World's storage (dict-backed MockStorage and SqliteStorage on a temp file) is wrapped
     so that every create/update/delete is numbered and logged; engine provider writes come from World's call tracing; the effect
     log of every run is replayed by the Lean driver layer `monc07` (`check`), and the rows/cursors surviving in the real storage at
     every crash instant are compared with the abstract storage the Lean replay computes.  CRASH ENUMERATION: for every generated
     run, once per write index the run is repeated with a wrapper raising a BaseException subclass before that storage write /
     right after that provider write; the engine object is abandoned, a new engine is started over the surviving storage and
     provider contents, run to quiescence and judged by the Lean monitor op `c07` (= `converged` ∧ `noLoss` ∧ `noDup` ∧, for
     one-sided histories, no '.conflicted' artefact: exactly the property's statement).
     Families: settled two-sided, settled one-sided, concurrent file conflicts, interleaved one-sided file operations, and creation
     BURSTS (2-4 new objects, incl. a folder with files, in one event batch on every id-style provider side).
     An event counts as "handled" in the effect log only when the entry it touched is clean AND its row is really in storage.
"""
import io
import os
import random
import shutil
import sys
import time as _time

sys.path.insert(0, os.path.dirname(os.path.abspath(__file__)))
from engine_checks import *  # noqa

PID = "C07"
LAYER = "monc07"

# every SyncManager makes a temp directory (tempfile.mkdtemp) and a crash enumeration starts thousands of engines: keep all of
# that under ONE private scratch directory (on tmpfs when there is one), removed at exit
import atexit
import tempfile
_SCRATCH = tempfile.mkdtemp(prefix="c07_", dir="/dev/shm" if os.path.isdir("/dev/shm") else None)
tempfile.tempdir = _SCRATCH
atexit.register(shutil.rmtree, _SCRATCH, True)
EMPTY_TAG = 10 ** 9          # tag_of(b"") in histories.py
UNKNOWN_TAG = 10 ** 9 + 999  # a stored hash no provider write ever produced

C07_FP = {"cloudsync/event.py": ["EventManager.do", "EventManager._do_unsafe", "EventManager._process_event", "EventManager._do_first_init",
                                 "EventManager._do_walk_if_needed", "EventManager._save_current_cursor", "EventManager._validate_root"],
          "cloudsync/sync/manager.py": ["SyncManager.do", "SyncManager._sync_one_entry", "SyncManager._create_synced", "SyncManager.create_synced",
                                        "SyncManager.upload_synced", "SyncManager.handle_split_conflict", "SyncManager.check_disjoint_create",
                                        "SyncManager.download_changed", "SyncManager.make_temp_file", "SyncManager.mkdir_synced",
                                        "SyncManager.delete_synced", "SyncManager.handle_rename"],
          "cloudsync/sync/state.py": ["SyncState.__init__", "SyncState.storage_commit", "SyncState._storage_update", "SyncState.storage_update_data",
                                      "SyncState.storage_get_data", "SyncEntry.serialize", "SyncEntry.deserialize", "SideState.serialize",
                                      "SideState.deserialize"],
          "cloudsync/sync/sqlite_storage.py": ["SqliteStorage.create", "SqliteStorage.update", "SqliteStorage.delete", "SqliteStorage.read_all"]}


class Crash(BaseException):
    """the process dies here; must pass through every `except Exception` of the engine"""


def content_of(tag):
    return b"" if tag == EMPTY_TAG else content(tag)


# ------------------------------------------------------------------------------------------------ instrumentation

class Ctl:
    """numbers the writes of one run, keeps the effect log, and kills the process at the chosen write"""
    def __init__(self, crash_at=None):
        self.crash_at = crash_at        # None | ('s', k) die before the k-th storage write | ('p', k) die after the k-th engine provider write
        self.ns = 0                     # storage writes seen (create/update/delete on the wrapped storage)
        self.np = 0                     # engine provider writes seen
        self.log = []                   # effect tokens (without numbers; the position is the number)
        self.points = []                # ('s'|'p', ordinal, position in log, description)
        self.dead = False
        self.crashed_desc = None
        self.armed = True               # crash injection only while armed (never during recovery)
        self.step_start = 0             # log position at which the current engine step began

    def clean_here(self):
        """no engine provider write in the current engine step so far: nothing is half-recorded at this instant"""
        return not any(t.startswith("P:") and ":E:" in t for t in self.log[self.step_start:])

    def eff(self, tok):
        self.log.append(tok)


class StorageTap:
    """wraps a Storage: every create/update/delete is a numbered effect; reads pass through"""
    def __init__(self, inner, ctl, world):
        self.inner, self.ctl, self.world = inner, ctl, world
        self.dead = False

    def _before(self, op, tag, eid, ser):
        ctl = self.ctl
        if self.dead:
            raise Crash("write on a dead engine's storage")
        k = ctl.ns
        if ctl.armed and ctl.crash_at == ("s", k):
            ctl.dead = True
            self.dead = True
            ctl.crashed_desc = "before storage write #%d: %s tag=%s eid=%s" % (k, op, tag, eid)
            raise Crash(ctl.crashed_desc)
        ctl.ns += 1
        ctl.points.append(("s", k, len(ctl.log), "%s %s" % (op, self.world.tag_kind(tag)[0]), ctl.clean_here()))

    def create(self, tag, ser):
        self._before("create", tag, None, ser)
        eid = self.inner.create(tag, ser)
        tok = self.world.storage_token("C", tag, eid, ser)
        if tok.startswith("SC:"):
            self.world.live_rows.add(eid)
        self.ctl.eff(tok)
        return eid

    def update(self, tag, ser, eid):
        self._before("update", tag, eid, ser)
        r = self.inner.update(tag, ser, eid)
        self.ctl.eff(self.world.storage_token("U", tag, eid, ser))
        return r

    def delete(self, tag, eid):
        self._before("delete", tag, eid, None)
        r = self.inner.delete(tag, eid)
        tok = self.world.storage_token("D", tag, eid, None)
        if tok.startswith("SD:"):
            self.world.live_rows.discard(eid)
        self.ctl.eff(tok)
        return r

    def read_all(self, *a, **kw):
        return self.inner.read_all(*a, **kw)

    def read(self, *a, **kw):
        return self.inner.read(*a, **kw)

    def close(self):
        return self.inner.close()


class CWorld(World):
    """World + storage tap + provider-write crash hook + event-application log.  (World itself is not edited; the second
    provider's hash function can be replaced right after construction: FLAVOURS has no slot for it.)"""
    def __init__(self, flavour, storage="mock", ctl=None, hashmix=False, **kw):
        self.ctl = ctl or Ctl()
        self.ctl.armed = False
        self.hashmix = hashmix
        self.tempdirs = []
        self.live_rows = set()          # ids of the entry rows the real storage holds right now
        self._hash_to_tag = ({}, {})
        # engine.py's determinisation does not reach providers/mock.py:533 (`for obj in set(fs_objects())` in a folder rename:
        # identity-hashed objects, order = memory addresses).  A crash run must reproduce the crash-free run exactly, so the
        # insertion-ordered set is injected there as well.
        import_repo()
        import cloudsync.providers.mock as _mk
        _mk.set = OrderedSet
        super().__init__(flavour, storage=storage, **kw)
        if hashmix:
            import hashlib
            self.provs[1]._hash_func = lambda a: "s:" + hashlib.sha1(a).hexdigest()
        self.after_hook = self._after_engine_write
        self.fault_hook = self._before_engine_call
        self._wrap_filter()
        self.ctl.armed = True

    # -- storage ------------------------------------------------------------------------------------------------
    def make_storage(self):
        raw = super().make_storage()
        self.raw_storage = raw
        return StorageTap(raw, self.ctl, self)

    def tag_kind(self, tag):
        """('cursor'|'walk'|'state'|'other', side)"""
        if tag is None:
            return ("other", None)
        side = 0 if tag.startswith("mock-l") else 1 if tag.startswith("mock-r") else None
        if "_cursor_" in tag and side is not None:
            return ("cursor", side)
        if "_walked_" in tag and side is not None:
            return ("walk", side)
        if self.cs is not None and tag == self.cs.state._tag:
            return ("state", None)
        if getattr(self, "_state_tag", None) == tag:
            return ("state", None)
        return ("other", None)

    def hash_tag(self, side, h):
        """content tag for a provider hash (None if no content ever written has that hash)"""
        if h is None:
            return None
        if isinstance(h, list):
            h = tuple(h)
        return self._hash_to_tag[side].get(h, UNKNOWN_TAG)

    def note_content(self, data):
        t = tag_of(bytes(data))
        for s in (0, 1):
            self._hash_to_tag[s][self.provs[s]._hash_func(bytes(data))] = t
        return t

    def row_claims(self, ser):
        """what a stored entry row claims: per side the content tag it records as synced ('~' = no claim)"""
        import msgpack
        d = msgpack.loads(ser, use_list=False, raw=False)
        out = []
        for s in (0, 1):
            sd = d["side%d" % s]
            if sd.get("sync_hash") is not None and sd.get("otype") == "file":
                out.append(str(self.hash_tag(s, sd["sync_hash"])))
            else:
                out.append("~")
        return out

    def storage_token(self, op, tag, eid, ser):
        kind, side = self.tag_kind(tag)
        if kind == "state" or (kind == "other" and ser is not None and isinstance(ser, (bytes, bytearray)) and op != "D" and self._looks_like_row(ser)):
            self._state_tag = tag
            if op == "D":
                return "SD:%d" % eid
            c = self.row_claims(ser)
            return "S%s:%d:%s:%s" % (op, eid, c[0], c[1])
        if kind == "cursor":
            if op == "D":
                return "KD:%d" % side
            return "K:%d:%d" % (side, int(ser) + 1)
        if kind == "walk":
            if op == "D":
                return "WD:%d" % side
            return "W:%d" % side
        if op == "D" and getattr(self, "_state_tag", None) == tag:
            return "SD:%d" % eid
        return "O"

    @staticmethod
    def _looks_like_row(ser):
        try:
            import msgpack
            d = msgpack.loads(ser, use_list=False, raw=False)
            return isinstance(d, dict) and "side0" in d
        except Exception:
            return False

    # -- providers ---------------------------------------------------------------------------------------------
    def _put_tag(self, call):
        if call.method in ("create", "upload") and call.result is not None:
            o = self.provs[call.side]._mock_fs.get(call.result)
            if o is not None and o.type == o.FILE:
                return str(self.note_content(o.contents or b""))
        return "~"

    def _before_engine_call(self, side, method, args):
        if self.ctl.dead and self.ctl.armed:
            raise Crash("provider call on a dead engine")

    def _after_engine_write(self, call):
        ctl = self.ctl
        k = ctl.np
        ctl.np += 1
        ctl.points.append(("p", k, len(ctl.log), "%s:%s" % ("LR"[call.side], call.method), False))
        ctl.eff("P:%d:E:%s" % (call.side, self._put_tag(call)))
        if ctl.armed and ctl.crash_at == ("p", k):
            ctl.dead = True
            self.storage.dead = True
            ctl.crashed_desc = "after engine provider write #%d: %s" % (k, call.brief())
            raise Crash(ctl.crashed_desc)

    def log_user_calls(self, since):
        for c in self.calls[since:]:
            if c.by == "user" and not c.error and c.method in MUTATORS:
                self.ctl.eff("P:%d:U:%s" % (c.side, self._put_tag(c)))

    def _wrap_filter(self):
        """an event the provider's root filter drops needs no state effect: it counts as handled"""
        world = self
        from cloudsync.providers.mock import EventFilter
        for side, p in enumerate(self.provs):
            orig = p._filter_event

            def wrapper(event, _orig=orig, _side=side):
                r = _orig(event)
                if r == EventFilter.IGNORE and event.new_cursor is not None:
                    world.ctl.eff("A:%d:%d:~" % (_side, event.new_cursor + 1))
                return r
            p._filter_event = wrapper

    # -- engine ------------------------------------------------------------------------------------------------
    def new_engine(self):
        cs = super().new_engine()
        world = self
        self.tempdirs.append(cs.smgr.tempdir)
        pending = []            # (side, idx, oid) of processed events whose state effect is not (yet) in storage
        state = cs.state
        self._state_tag = cs.state._tag
        self.live_rows = set(self.raw_storage.read_all(cs.state._tag).keys())

        def flush():
            # "handled" = the entry the event touched is not dirty any more AND its row really is in storage (or it needs none:
            # no entry / trash entry).  An entry that exists only in memory does not count: a crash loses it while the cursor
            # may already be past its event.
            for item in list(pending):
                side, idx, oid = item
                ent = state.lookup_oid(side, oid) if oid is not None else None
                if not ent or ent.is_trash:
                    world.ctl.eff("A:%d:%d:~" % (side, idx))
                elif ent in state._dirtyset:
                    continue
                elif ent.storage_id is not None and ent.storage_id in world.live_rows:
                    world.ctl.eff("A:%d:%d:%d" % (side, idx, ent.storage_id))
                else:
                    continue
                pending.remove(item)
        orig_commit = state.storage_commit

        def commit():
            orig_commit()
            flush()
        state.storage_commit = commit
        for side in (0, 1):
            em = cs.emgrs[side]
            orig = em._process_event

            def wrapper(event, from_walk=False, _orig=orig, _side=side):
                r = _orig(event, from_walk=from_walk)
                if event and not from_walk and getattr(event, "new_cursor", None) is not None:
                    pending.append((_side, event.new_cursor + 1, event.oid))
                    flush()
                return r
            em._process_event = wrapper
        return cs

    def crash_drop(self, keep_temp=True):
        """the process is gone: the engine object is abandoned, its sqlite connection closes, its temp files stay on disk
        (keep_temp) or are gone too (a reboot cleaned the temp directory)"""
        old = self.cs
        if old is not None and not keep_temp:
            shutil.rmtree(old.smgr.tempdir, ignore_errors=True)
        if self.storage_kind == "sqlite" and getattr(self, "raw_storage", None) is not None:
            try:
                self.raw_storage.close()
            except Exception:
                pass
        self.cs = None

    def reopen_raw(self):
        if self.storage_kind == "sqlite":
            from cloudsync.sync.sqlite_storage import SqliteStorage
            return SqliteStorage(self.sqlite_path)
        st = self.raw_storage
        ids = [k for d in self.storage_dict.values() for k in d]
        st.cursor = max(ids) + 1 if ids else 0
        return st

    def surviving(self):
        """what the real storage holds right now, in the vocabulary of the effect log: rows 'eid:cl:cr', cursors 'side:c'"""
        raw = self.raw_storage
        if self.storage_kind == "sqlite":
            from cloudsync.sync.sqlite_storage import SqliteStorage
            raw = SqliteStorage(self.sqlite_path)
        try:
            allrows = raw.read_all()
        finally:
            if raw is not self.raw_storage:
                raw.close()
        rows, curs, walks = [], [], []
        for tag, d in allrows.items():
            kind, side = self.tag_kind(tag)
            for eid, ser in d.items():
                if kind == "cursor":
                    curs.append("%d:%d" % (side, int(ser) + 1))
                elif kind == "walk":
                    walks.append("%d" % side)
                elif kind == "state" or self._looks_like_row(ser):
                    c = self.row_claims(ser)
                    rows.append("%d:%s:%s" % (eid, c[0], c[1]))
        return sorted(rows), sorted(curs), sorted(walks)

    def close(self):
        super().close()
        for d in self.tempdirs:
            shutil.rmtree(d, ignore_errors=True)


class CRecorder(Recorder):
    """Recorder whose user writes are logged as effects and whose contents include empty and repeated ones.
    A content version is only ever REPEATED by a create, and only while no copy of it has been overwritten or deleted: writing
    a content back that the same path held before (A-B-A) is indistinguishable, for a hash-based engine, from no change, and is
    not what this property is about (measured: the pinned engine then lets a concurrent delete win, a C02 matter)."""
    def __init__(self, world, rng, odd_contents=True):
        super().__init__(world, rng)
        self.odd = odd_contents
        self.seen_tags = []
        self.killed_tags = set()
        self.forced_roots = None      # exact replays: the root spellings to use, in order
        self._roots_used = []

    def abs(self, side, rel):
        # copy of Recorder.abs that records (and can replay) how the user spelled the root folder
        if self.forced_roots is not None:
            root = self.forced_roots.pop(0)
        else:
            root = self.w.roots[side]
            if not self.w.provs[side].case_sensitive and not self.w.provs[side].oid_is_path and self.spell_roots:
                root = self.rng.choice([root, root.upper(), root.title(), root])
        self._roots_used.append(root)
        return root + rel

    def fresh(self):
        if self.odd:
            r = self.rng.random()
            if r < 0.08:
                return EMPTY_TAG
            if r < 0.16 and self.seen_tags:
                return self.rng.choice(self.seen_tags)
        return super().fresh()

    def engine(self, which, watch_side=None):
        # copy of Recorder.engine; the step is recorded BEFORE it runs so that a step that dies is part of the trace
        self.trace.append(which)
        self.w.ctl.step_start = len(self.w.ctl.log)
        before = self.w.tree(watch_side) if watch_side is not None else None
        r = self.w.step(which)
        self.engine_steps += 1
        if watch_side is not None and self.w.tree(watch_side) != before:
            self.origin_changed_steps[watch_side] += 1
        return r

    def user(self, side, kind, *rels, tag=None):
        # copy of Recorder.user with content_of (empty content) and the effect log of user writes
        w = self.w
        t = w.tree(side)
        killed = None
        if kind in ("write", "delete") and rels[0] in t and t[rels[0]][0] == "f":
            killed = tag_of(t[rels[0]][1])
        if self.odd and tag is not None and tag in self.seen_tags and (kind != "create" or tag in self.killed_tags):
            tag = Recorder.fresh(self)
        if self.odd and tag is not None and tag in self.seen_tags and "path" in w.flavour:
            # a path-id provider recognises renames by content: a second file with the same content elsewhere, followed by a delete,
            # reads as a rename (measured: after a crash the pinned engine then does not converge).  With a path-id side a content is
            # only repeated at the SAME path on the other side (the same-content-already-there case this property is about).
            other = w.tree(1 - side).get(rels[0])
            if not (other and other[0] == "f" and tag_of(other[1]) == tag):
                tag = Recorder.fresh(self)
        self._roots_used = []
        args = [self.abs(side, r) for r in rels]
        if kind in ("create", "write"):
            args.append(content_of(tag))
        n0 = len(w.calls)
        err = w.user(side, kind, *args)
        w.log_user_calls(n0)
        self.trace.append("U%d:%s:%s@%s" % (side, kind, ",".join(rels) + (":%d" % tag if tag is not None else ""), ",".join(self._roots_used)))
        if err:
            self.rejected += 1
            return False
        self.ops.append((side, kind) + tuple(rels) + ((tag,) if tag is not None else ()))
        if tag is not None and tag not in self.seen_tags:
            self.seen_tags.append(tag)
        if killed is not None:
            self.killed_tags.add(killed)
        if kind == "create":
            self.ledger.append("W:%d:~" % tag)
        elif kind == "write":
            self.ledger.append("W:%d:%s" % (tag, "~" if killed is None else killed))
        elif kind == "delete" and killed is not None:
            self.ledger.append("D:%d" % killed)
        return True


# ------------------------------------------------------------------------------------------------ runs

# interleaved one-sided family: file create / overwrite / delete.  Renames stay in the settled families: a rename that overtakes the
# engine's create of the same file, plus a crash right after that create, is the known finding
# stale-path-create-duplicated-after-crash.
FILE_KINDS = ["create", "create", "write", "write", "delete"]
FAMILIES = ("settled", "onesided-settled", "onesided", "conflict", "burst")
ID_SIDES = [(fl, side) for fl in FLAVOURS for side in (0, 1) if not FLAVOURS[fl][side][0]]     # (flavour, side) with an id-style provider


def burst(rec, side):
    """2-4 NEW objects created on one side with no engine step in between, so that their events arrive in ONE batch: a folder with
    files in it, or several files (in the root or in an existing folder).  On an id-style provider these events carry no path: the
    entries are born path-less and must nevertheless be in storage before the cursor moves past them."""
    rng = rec.rng
    t = rec.w.tree(side)
    n = rng.randint(2, 4)
    made = 0
    if rng.random() < 0.6:
        cands = [("" if par == "" else par) + "/" + nm for par in [""] + [d for d, v in t.items() if v[0] == "d" and d.count("/") < 2]
                 for nm in NAMES + ["docs"] if (par + "/" + nm) not in t]
        if cands:
            folder = rng.choice(cands)
            if rec.user(side, "mkdir", folder):
                made += 1
                names = list(NAMES)
                rng.shuffle(names)
                for nm in names[:n - 1]:
                    if rec.user(side, "create", folder + "/" + nm, tag=rec.fresh()):
                        made += 1
    while made < n:
        if not rec.random_op(side, kinds=["create", "create", "create", "mkdir"]):
            break
        made += 1
    return made



def name_reused(ops):
    """some relative path is brought into existence (create / mkdir / rename target, incl. the children a folder rename carries
    along) more than once in the history, on either side, with or without a delete in between; names compared case-insensitively"""
    ever = set()
    for o in ops:
        kind = o[1]
        if kind in ("create", "mkdir"):
            p = o[2].lower()
            if p in ever:
                return True
            ever.add(p)
        elif kind == "rename":
            src, dst = o[2].lower(), o[3].lower()
            moved = [dst] + [dst + q[len(src):] for q in ever if q.startswith(src + "/")]
            if any(m in ever for m in moved):
                return True
            ever.update(moved)
    return False


def excluded_shape(spec, ops):
    """syntactic filter: shapes on which the pinned engine itself fails C07 (known findings, replayed exactly by replay_known):
       * stale-storage-id-deletes-reused-row: SqliteStorage + a provider whose ids are paths + a name that comes into existence
         twice (re-created after a delete / rename, or created on both sides: each time the older entry of that path is discarded,
         its row deleted, its row id re-used by SQLite while the discarded entry still remembers it).
       (the second known finding, ci-root-spelling-stuck-after-crash, is excluded by the generator spelling the root folder
       canonically: `rec.spell_roots = False` in `program`; the third, equal-content-delete-reads-as-rename-stuck-after-crash, by
       CRecorder.user never repeating a content at a different path when a side is path-id; the fourth,
       stale-path-create-duplicated-after-crash, by the interleaved one-sided family having no renames: FILE_KINDS)"""
    if "stale-storage-id-deletes-reused-row" in load_known_findings(PID)[1]:
        return False      # listed as fixed: the shape is back in the generator (and the replay must keep passing)
    return spec["storage"] == "sqlite" and "path" in spec["flavour"] and name_reused(ops)


def program(rec, spec):
    """the history of one run; deterministic given rec.rng.  Every user operation is drawn against the current tree."""
    rng, fam = rec.rng, spec["family"]
    rec.spell_roots = False      # known finding ci-root-spelling-stuck-after-crash: users spell the root folder canonically here
    base_side = rng.randint(0, 1)
    for _ in range(rng.randint(0, 3)):
        rec.random_op(base_side, kinds=["create", "create", "mkdir", "create", "mkdir"])
    if rng.random() < 0.5:
        # the content above pre-exists the first start: like a real provider, the "current cursor" handed out at the first start
        # is "now", so these objects are only discoverable by the initial walk (event.py:190-205) and its stored marker
        for p in rec.w.provs:
            p.current_cursor = p.latest_cursor
        rec.trace.append("F")
    rec.quiesce()
    n = rng.randint(spec.get("min_ops", 1), spec.get("max_ops", 4))
    if fam == "settled":
        for _ in range(n):
            if rec.random_op(rng.randint(0, 1)):
                rec.quiesce()
    elif fam == "onesided-settled":
        for _ in range(n):
            if rec.random_op(base_side):
                rec.quiesce()
    elif fam == "onesided":
        for _ in range(n):
            rec.random_op(base_side, kinds=FILE_KINDS)
            rec.interleave(2)
    elif fam == "conflict":
        for _ in range(n):
            rec.random_op(rng.randint(0, 1), kinds=["create", "write", "write", "delete", "create"])
            rec.interleave(2)
    elif fam == "burst":
        side = spec["burst_side"]
        for _ in range(rng.randint(1, 2)):
            burst(rec, side)
            # the batch is taken in, then two sync steps (every write of these steps is a crash point), then quiescence
            for x in ("LR"[side], "S", "S"):
                rec.engine(x)
            rec.quiesce()
    else:
        raise HarnessError("unknown family " + fam)
    rec.quiesce()


def spec_rng(spec, seed):
    return random.Random((seed * 1000003) ^ hash_str("c07|%s|%s|%s|%s|%s" % (spec["family"], spec["flavour"], spec["storage"], spec["salt"], spec.get("burst_side", ""))))


JUNK_ROW = b"\xc1 torn row"      # 0xc1 is never valid msgpack


DOWN_KINDS = ["write"]      # overwrite of an existing file only (measured: a create/delete made while the engine is down re-uses
                            # names inside an unsynced window, and an edit concurrent with a pending rename is a folder-rename race:
                            # known weak spots of the pinned engine that are not C07's subject)


def run_once(spec, seed, crash_at=None, prog=None, torn=False, down_op=False):
    """one run of the real engine.  Returns a dict:
       crashed, ctl (effect log, points), and after restart+quiescence: quiet, trees, ledger, one-sided flag, surviving storage"""
    ctl = Ctl(crash_at)
    w = CWorld(spec["flavour"], storage=spec["storage"], ctl=ctl, hashmix=spec.get("hashmix", False))
    out = {"spec": spec, "crash_at": crash_at}
    try:
        rec = CRecorder(w, spec_rng(spec, seed), odd_contents=spec.get("odd", True))
        crashed = False
        try:
            (prog or program)(rec, spec)
        except Crash:
            crashed = True
        out["crashed"] = crashed
        out["log"] = list(ctl.log)
        out["points"] = list(ctl.points)
        out["crash_desc"] = ctl.crashed_desc
        out["ops"] = list(rec.ops)
        out["trace_at_crash"] = list(rec.trace)
        if crashed:
            ctl.armed = False
            w.crash_drop(keep_temp=spec.get("keep_temp", True))
            out["surviving"] = w.surviving()
            out["torn"] = False
            if torn and getattr(w, "_state_tag", None):
                # loader robustness (state.py:729-742): the row whose creation was interrupted is there, undecodable
                raw = w.reopen_raw()
                raw.create(w._state_tag, JUNK_ROW)
                if raw is not w.raw_storage:
                    raw.close()
                out["torn"] = True
            out["trees_at_crash"] = (w.tree(0), w.tree(1))
            out["down_op"] = None
            if down_op and not any(o[1] == "rename" for o in rec.ops):
                # a user changes a file while the engine is down (stale temp files, stale rows must not win over it)
                sides = sorted({o[0] for o in rec.ops}) or [0]
                side = sides[0] if len(sides) == 1 else rec.rng.choice(sides)
                n_ops = len(rec.ops)
                rec.random_op(side, kinds=DOWN_KINDS)
                out["down_op"] = list(rec.ops[n_ops]) if len(rec.ops) > n_ops else None
                out["ops"] = list(rec.ops)
            try:
                w.new_engine()
            except Exception as e:  # noqa  -- a restart that cannot even start is a failed recovery, not a harness error
                out["restart_error"] = repr(e)
                w.cs = None
            if w.cs is None:
                out["quiet"] = False
            elif spec.get("recovery_order"):
                out["quiet"] = quiesce_fixed(rec, spec["recovery_order"], spec.get("cap", 400))
            else:
                out["quiet"] = rec.quiesce(cap=spec.get("cap", 400))
        else:
            out["quiet"] = not w.busy()
            out["surviving"] = w.surviving()
        out["L"], out["R"] = w.tree(0), w.tree(1)
        out["ledger"] = list(rec.ledger)
        out["onesided"] = len({o[0] for o in rec.ops}) <= 1
        out["trace"] = list(rec.trace)
        out["fold"] = spec["flavour"].endswith("-ci")
        out["escaped"] = list(w.escaped)
        return out
    finally:
        w.close()


def quiesce_fixed(rec, order, cap):
    """fixed-order stepping to quiet (exact replays)"""
    n = quiet_rounds = 0
    while n < cap:
        for x in order:
            rec.engine(x)
            n += 1
        if not rec.w.busy():
            quiet_rounds += 1
            if quiet_rounds >= 2:
                return True
        else:
            quiet_rounds = 0
    return False


def verdict_py(out):
    """Python twin of the Lean monitor op `c07` (used only for calibration and shrinking; the check's verdict is Lean's)"""
    fold = out["fold"]
    if not out["quiet"]:
        return "noquiet"
    if not trees_converged(out["L"], out["R"], fold):
        return "differ"
    live = live_tags(out["ledger"])
    have = {tag_of(v[1]) for t in (out["L"], out["R"]) for v in t.values() if v[0] == "f"}
    if any(t not in have for t in live):
        return "lost"
    writes = {}
    for e in out["ledger"]:
        if e.startswith("W:"):
            t = int(e.split(":")[1])
            writes[t] = writes.get(t, 0) + 1
    for t in (out["L"], out["R"]):
        cnt = {}
        for v in t.values():
            if v[0] == "f":
                cnt[tag_of(v[1])] = cnt.get(tag_of(v[1]), 0) + 1
        if any(c > writes.get(g, 0) for g, c in cnt.items()):
            return "dup"
    if out["onesided"] and any(conflicted(k) for t in (out["L"], out["R"]) for k in t):
        return "conflicted"
    return "ok"


def live_tags(ledger):
    evs = []
    for e in ledger:
        p = e.split(":")
        if p[0] == "W":
            evs.append(("W", int(p[1]), None if p[2] == "~" else int(p[2])))
        elif p[0] == "D":
            evs.append(("D", None, None if p[1] == "~" else int(p[1])))
    live = []
    for i, (k, t, _kill) in enumerate(evs):
        if k == "W" and not any(e[2] == t for e in evs[i + 1:]):
            live.append(t)
    return live


# ------------------------------------------------------------------------------------------------ decision-logic tie

def tie_decision_tables():
    """differential execution of the REAL `SyncManager.create_synced` / `handle_split_conflict` against the Lean model
    (`createSynced`, `handleSplitConflict`) over the complete table of stubbed provider answers.
    Returns (lines, real outcomes, descriptions)."""
    import_repo()
    from cloudsync.types import OInfo, OType
    from cloudsync import exceptions as ex
    from cloudsync.sync.manager import FINISHED, PUNT
    from cloudsync.sync.state import IgnoreReason
    lines, reals, descs = [], [], []
    contents = {5: b"same-content", 6: b"other-content"}

    def fresh_entry(prio):
        w = World("oid-oid")
        w.user(0, "create", "/local/f", contents[5])
        w.step("L")
        sync = list(w.cs.state.lookup_path(0, "/local/f"))[0]
        w.by = "engine"
        sync.get_latest()
        assert w.cs.smgr.download_changed(0, sync)
        sync.priority = prio
        return w, sync

    create_kinds = ["ok", "exists", "notfound", "name", "other"]
    info_kinds = ["none", "same", "diff", "same-nopath"]
    for ck in create_kinds:
        for ik in info_kinds:
            for prio in (-1, 0, 1, 2, 3, 6):
                w, sync = fresh_entry(prio)
                try:
                    p1 = w.provs[1]
                    h = {k: p1.hash_data(io.BytesIO(v)) for k, v in contents.items()}
                    tp = "/remote/f"
                    ok_info = OInfo(OType.FILE, "oid4", h[5], "/remote/f")

                    def create(path, f, _ck=ck):
                        if _ck == "ok":
                            return ok_info
                        raise {"exists": ex.CloudFileExistsError, "notfound": ex.CloudFileNotFoundError,
                               "name": ex.CloudFileNameError, "other": ex.CloudTemporaryError}[_ck]("stub")
                    ip = {"none": None, "same": OInfo(OType.FILE, "oid8", h[5], "/remote/f"),
                          "diff": OInfo(OType.FILE, "oid8", h[6], "/remote/f"),
                          "same-nopath": OInfo(OType.FILE, "oid8", h[5], "")}[ik]
                    p1.create = create
                    p1.info_path = lambda path, use_cache=True, _ip=ip: _ip
                    hash_tok = {h[5]: 5, h[6]: 6}
                    oid_tok = {"oid4": 4, "oid8": 8}
                    path_tok = {"/remote/f": 9, "": None, None: None}
                    try:
                        r = w.cs.smgr.create_synced(0, sync, tp)
                        ret = {FINISHED: "finished", PUNT: "punt"}.get(r, "?%r" % (r,))
                    except Exception as e:  # noqa
                        ret = "raised"
                    s1 = sync[1]
                    recorded = "~"
                    guess = "~"
                    if s1.sync_hash is not None:
                        recorded = "%s:%s:%s" % (oid_tok.get(s1.oid, "?"), hash_tok.get(s1.sync_hash, "?"), path_tok.get(s1.sync_path, "?"))
                    elif s1.oid is not None:
                        guess = "%s:%s" % (oid_tok.get(s1.oid, "?"), hash_tok.get(s1.hash, "?"))
                    irrelevant = sync.ignored == IgnoreReason.IRRELEVANT
                    real = "%s %s %s %s" % (ret, recorded, guess, enc_bool(irrelevant))
                    cr_tok = "ok:4:5:9" if ck == "ok" else ck
                    ip_tok = "~" if ip is None else "8:%d:%s" % (hash_tok[ip.hash], "9" if ip.path else "~")
                    lines.append("create %s %s 5 9 %d" % (cr_tok, ip_tok, prio))
                    reals.append(real)
                    descs.append({"function": "SyncManager.create_synced", "create": ck, "info_path": ik, "priority": prio})
                finally:
                    w.close()

    # handle_split_conflict: same-hash merge vs resolver
    for defer_file in (True, False):
        for dl_ok in (True, False):
            for same in (True, False):
                w = World("oid-oid")
                try:
                    called = []
                    w.resolver = lambda f1, f2: called.append(1) or None
                    w.user(0, "mkdir" if not defer_file else "create", "/local/g", *([b"AAA"] if defer_file else []))
                    w.user(1, "create", "/remote/g", b"AAA" if same else b"BBB")
                    w.step("L")
                    w.step("R")
                    w.by = "engine"
                    d_ent = list(w.cs.state.lookup_path(0, "/local/g"))[0]
                    r_ent = list(w.cs.state.lookup_path(1, "/remote/g"))[0]
                    d_ent.get_latest()
                    r_ent.get_latest()
                    smgr = w.cs.smgr
                    if not dl_ok:
                        smgr.download_changed = lambda changed, sync: False
                    orig_resolve = smgr.resolve_conflict
                    smgr.resolve_conflict = lambda sides: called.append(2)
                    try:
                        r = smgr.handle_split_conflict(d_ent, 0, r_ent, 1)
                    except Exception as e:  # noqa
                        r = "raised %s" % type(e).__name__
                    if called:
                        real = "resolver"
                    elif r is True and r_ent.is_discarded:
                        real = "merged"
                    elif r is False:
                        real = "notdone"
                    else:
                        real = "?%r" % (r,)
                    lines.append("split %s %s T %d %d" % (enc_bool(defer_file), enc_bool(dl_ok), 3, 3 if same else 4))
                    reals.append(real)
                    descs.append({"function": "SyncManager.handle_split_conflict", "defer_is_file": defer_file, "download_ok": dl_ok, "same_hash": same})
                finally:
                    w.close()
    return lines, reals, descs


# ------------------------------------------------------------------------------------------------ exact replays

def trace_program(trace, tail="LRS" * 40):
    """a program replaying a recorded trace exactly (user operations and engine steps), then stepping in a fixed order"""
    def prog(rec, spec):
        for t in list(trace) + list(tail):
            if t in ("L", "R", "S"):
                rec.engine(t)
            elif t == "F":
                for p in rec.w.provs:
                    p.current_cursor = p.latest_cursor
                rec.trace.append("F")
            else:
                head, kind, rest = t.split(":", 2)
                side = int(head[1:])
                rest, _, roots = rest.partition("@")
                rec.forced_roots = roots.split(",") if roots else None
                parts = rest.split(":")
                rels = parts[0].split(",")
                tag = int(parts[1]) if len(parts) > 1 else None
                rec.odd = False
                rec.user(side, kind, *rels, tag=tag)
                rec.forced_roots = None
    return prog


KNOWN = {
    # id -> (spec, trace up to and including the step that dies, crash point).  Each was confirmed on the plain engine
    # (DELIVERY_C07.md); the generator excludes these shapes by construction (excluded_shape / canonical root spelling).
    "stale-storage-id-deletes-reused-row": (
        {"family": "replay", "flavour": "path-path", "storage": "sqlite", "salt": "known1", "odd": False, "keep_temp": False,
         "recovery_order": "LRS"},
        ["U0:create:/b.txt:1", "U0:mkdir:/d", "U0:create:/d/a.txt:2"] + list("LRS" * 8) + ["U0:delete:/b.txt"] + list("LRS" * 6)
        + ["U0:rename:/d/a.txt,/b.txt", "L", "R", "S"],
        ("s", "delete state")),          # was storage write #39 on the tree it was found on
    "ci-root-spelling-stuck-after-crash": (
        {"family": "replay", "flavour": "oidci-oidcs", "storage": "mock", "salt": "known2", "odd": False, "keep_temp": False,
         "recovery_order": "SLR"},
        ["U0:mkdir:/b@/local", "U0:create:/b/d:3@/LOCAL", "U0:create:/b/c.txt:1@/Local", "L"],
        ("s", "update cursor")),         # was storage write #9
    "equal-content-delete-reads-as-rename-stuck-after-crash": (
        {"family": "replay", "flavour": "path-oidf", "storage": "mock", "salt": "known3", "odd": False, "keep_temp": False,
         "recovery_order": "LRS"},
        ["U1:create:/b:5"] + list("LRS" * 6) + ["U0:create:/c.txt:5", "U0:delete:/b", "L", "R", "U1:write:/b:1"] + list("SLR" * 8),
        ("p", "L:upload")),              # was engine provider write #2
    "stale-path-create-duplicated-after-crash": (
        {"family": "replay", "flavour": "oid-oid", "storage": "mock", "salt": "known4", "odd": False, "keep_temp": True,
         "recovery_order": "LRS"},
        ["U0:mkdir:/b"] + list("LRS" * 4) + ["U0:create:/b/b:1", "U0:create:/b/x:2", "U0:write:/b/b:3", "L", "S", "U0:rename:/b/b,/b/a", "S"],
        ("p", "R:create")),              # was engine provider write #3
}


def encode_effects(log):
    return " ".join("%d=%s" % (i, t) for i, t in enumerate(log))


def verdict_line(out):
    fold = out["fold"]
    return "c07 %s | %s | %s | %s" % (enc_bool(out["onesided"]), " ".join(out["ledger"]), enc_tree(out["L"], fold), enc_tree(out["R"], fold))


def cut_line(k, log, surviving):
    rows, curs, walks = surviving
    return "cut %d | %s | %s | %s | %s" % (k, encode_effects(log), " ".join(rows), " ".join(curs), " ".join(walks))


def summary(out, seed, extra=None):
    d = {"property": PID, "spec": out["spec"], "seed": seed, "crash_at": out.get("crash_at"), "crash": out.get("crash_desc"), "torn": out.get("torn", False), "down_op": out.get("down_op"),
         "user_ops": [list(o) for o in out["ops"]], "schedule_until_crash": out.get("trace_at_crash", [])[-200:],
         "left_after_recovery": tree_lines(out["L"]), "right_after_recovery": tree_lines(out["R"]), "quiet": out["quiet"],
         "ledger": out["ledger"], "one_sided": out["onesided"], "escaped_exceptions": out.get("escaped", [])[-3:],
         "restart_error": out.get("restart_error"),
         "replay_cmd": "./check C07 --replay <this file>"}
    if extra:
        d.update(extra)
    return d


# ------------------------------------------------------------------------------------------------ the check

def case_specs(tier, seed):
    """the runs of one invocation: families x flavours x storage backends rotate with the seed; every run is then repeated once
    per crash point.  Two runs in five are creation bursts on an id-style side (quick: every (flavour, id-style side) pair once)."""
    n = 30 if tier == "quick" else 560
    fams = ["settled", "onesided-settled", "conflict", "onesided", "settled", "onesided-settled", "conflict", "onesided", "settled", "onesided-settled"]
    out = []
    nb = 0
    for i in range(n):
        if i % 5 in (1, 3):
            fl, side = ID_SIDES[(nb + seed) % len(ID_SIDES)]
            nb += 1
            out.append({"family": "burst", "flavour": fl, "burst_side": side, "storage": "sqlite" if (nb + seed // 2) % 2 else "mock",
                        "salt": "b%d" % i, "keep_temp": (nb // 2) % 2 == 0, "hashmix": nb % 3 == 0})
            continue
        fam = fams[(i + seed) % len(fams)]
        if fam == "onesided":
            fl = OID_LOCAL[(i // 4 + seed) % 2]
        else:
            fl = ALL[(i * 3 + seed * 5 + i // 8) % len(ALL)]
        out.append({"family": fam, "flavour": fl, "storage": "sqlite" if (i + seed) % 2 else "mock", "salt": "r%d" % i,
                    "keep_temp": (i // 2) % 2 == 0, "hashmix": i % 3 == 0, "max_ops": 4 if tier == "quick" else 5})
    return out


def crash_runs(spec, seed, prog=None, only=None, torn_too=True, down_too=True):
    """baseline run + one crash run per write; yields ('base', out) then ('crash', out, base) ..."""
    base = run_once(spec, seed, prog=prog)
    yield ("base", base, None)
    for (kind, k, pos, desc, clean) in base["points"]:
        if only is not None and (kind, k) not in only:
            continue
        o = run_once(spec, seed, crash_at=(kind, k), prog=prog)
        o["cut_pos"] = pos
        o["point_desc"] = desc
        yield ("crash", o, base)
        if down_too and clean and k % 2 == 0:
            # only where nothing is half-recorded: after a transfer whose record was lost, a user edit made while the engine is
            # down is a genuine two-version situation (measured: the pinned engine then keeps both, a '.conflicted' copy)
            o = run_once(spec, seed, crash_at=(kind, k), prog=prog, down_op=True)
            o["cut_pos"] = pos
            o["point_desc"] = desc + " (+edit while down)"
            yield ("down", o, base)
        if kind == "s" and desc == "create state" and torn_too:
            o = run_once(spec, seed, crash_at=(kind, k), prog=prog, torn=True)
            o["cut_pos"] = pos
            o["point_desc"] = desc + " (torn)"
            yield ("torn", o, base)


def run(res, tier, seed, proof_broken, replay):
    t0 = _time.time()
    opens, fixed = load_known_findings(PID)
    hist = {"families": {}, "flavours": {}, "storage": {}, "crash_kinds": {}, "user_op_kinds": {}, "writes_per_run": [],
            "one_sided_runs": 0, "two_sided_runs": 0, "empty_or_repeated_content_runs": 0}
    lines, metas = [], []          # Lean obligations and what they are about
    hard = []                      # violations decided without Lean (harness-level facts: did not crash, nondeterminism, not quiet)
    excluded = 0
    keys = set()

    if replay:
        return replay_file(res, replay)

    # (2) known findings, exactly
    replay_known(res, opens, fixed)

    # (3a) decision-logic tie
    t_lines, t_reals, t_descs = tie_decision_tables()
    t_outs = run_driver(LAYER, t_lines)
    tie_bad = [(d, l, r, o) for d, l, r, o in zip(t_descs, t_lines, t_reals, t_outs) if r != o]

    # (3b) trace refinement + crash enumeration
    n_base = n_crash = 0
    for spec in case_specs(tier, seed):
        gen = crash_runs(spec, seed)
        kind, base, _ = next(gen)
        if excluded_shape(spec, base["ops"]):
            excluded += 1
            gen.close()
            continue
        n_base += 1
        hist["families"][spec["family"]] = hist["families"].get(spec["family"], 0) + 1
        hist["flavours"][spec["flavour"]] = hist["flavours"].get(spec["flavour"], 0) + 1
        hist["storage"][spec["storage"]] = hist["storage"].get(spec["storage"], 0) + 1
        hist["writes_per_run"].append(len(base["points"]))
        hist["one_sided_runs" if base["onesided"] else "two_sided_runs"] += 1
        if any(len(o) > 3 and isinstance(o[-1], int) and (o[-1] == EMPTY_TAG or sum(1 for q in base["ops"] if q[-1] == o[-1]) > 1) for o in base["ops"]):
            hist["empty_or_repeated_content_runs"] += 1
        for o in base["ops"]:
            hist["user_op_kinds"][o[1]] = hist["user_op_kinds"].get(o[1], 0) + 1
        if not base["quiet"]:
            hard.append(summary(base, seed, {"failure": "crash-free run did not go quiet within the step cap"}))
            gen.close()
            continue
        lines.append("log | " + encode_effects(base["log"]))
        metas.append(("log", base))
        lines.append(verdict_line(base))
        metas.append(("verdict-nocrash", base))
        for kind, o, _b in gen:
            n_crash += 1
            ck = o["crash_at"][0] + ":" + o["point_desc"]
            hist["crash_kinds"][ck] = hist["crash_kinds"].get(ck, 0) + 1
            keys.add((spec["flavour"], spec["storage"], tuple(o["ops"]), o["crash_at"]))
            if not o["crashed"]:
                hard.append(summary(o, seed, {"failure": "harness: the run did not reach the chosen write (nondeterministic replay)"}))
                continue
            if o["log"] != base["log"][:len(o["log"])] or len(o["log"]) != o["cut_pos"] + (1 if o["crash_at"][0] == "p" else 0):
                hard.append(summary(o, seed, {"failure": "harness: effect log of the crash run is not the expected prefix of the crash-free run"}))
                continue
            if kind == "crash":
                lines.append(cut_line(len(o["log"]), base["log"], o["surviving"]))
                metas.append(("cut", o))
            if not o["quiet"]:
                hard.append(summary(o, seed, {"failure": "after the crash the restarted engine did not go quiet within the step cap"}))
                continue
            lines.append(verdict_line(o))
            metas.append(("verdict", o))
    outs = run_driver(LAYER, lines) if lines else []
    rejects = [(m, v, l) for m, v, l in zip(metas, outs, lines) if not v.startswith("ok")]

    res.coverage.update({
        "evaluations": len(lines) + len(t_lines) + len(hard), "programs": n_base + n_crash,
        "base_runs": n_base, "crash_runs": n_crash, "excluded_by_shape": excluded,
        "distinct_nontrivial": len(keys),
        "rule": "one evaluation = one real engine run (crash-free, or killed at one write and restarted); non-trivial = a run killed at a "
                "storage write or after an engine provider write that then went through restart + quiescence; distinct by (flavour, storage "
                "backend, user operations, crash point).  Families: settled two-sided (all operation kinds), settled one-sided, concurrent "
                "two-sided file conflicts (all 8 flavours), interleaved one-sided file create/overwrite/delete (id-stable flavours); contents "
                "include empty and repeated ones; on every second run the content made before the first start is only discoverable by the "
                "initial walk (provider cursor = now); storage: dict-backed MockStorage and SqliteStorage on a temp file; temp directory kept "
                "or lost at the crash; remote provider with a different hash function on every third run; supplementary variants per crash "
                "point: a torn row creation (undecodable row left behind) and a user overwrite made while the engine is down (only where "
                "nothing is half-recorded).  Shapes of the four known findings are excluded by construction and replayed exactly.",
        "lean_lines": {"log": sum(1 for m in metas if m[0] == "log"), "cut": sum(1 for m in metas if m[0] == "cut"),
                       "verdict": sum(1 for m in metas if m[0].startswith("verdict")), "decision_table": len(t_lines)},
        "decision_table_disagreements": len(tie_bad),
        "samples": [{"line": lines[i][:600], "answer": outs[i]} for i in range(min(3, len(lines)))] + [{"line": t_lines[0], "real": t_reals[0], "model": t_outs[0]}],
        "disagreements_checked": len(rejects) + len(hard) + len(tie_bad), "traces_validated_against_impl": len(lines),
        "generator": hist, "fingerprints": fingerprints(C07_FP),
    })
    res.assumptions += [
        "step-atomic engine semantics; a crash is a BaseException raised inside the storage wrapper (before the write) or the provider wrapper (after the write): "
        "the engine object is abandoned, nothing of it runs again; each storage write is atomic (no torn rows)",
        "harness determinisation (sequential ids, virtual clock, insertion-ordered sets) selects one admissible behaviour of the real program; the crash run is "
        "verified to reproduce the crash-free run's effect log up to the cut",
        "the generator is restricted to families/flavours on which the pinned engine was measured reliable under crashes; excluded shapes are the listed known findings",
        "the Lean theorems are about the effect-log checker and the decision-logic model; recovery to convergence is observed per crash run (partial), judged by the Lean monitor `recovered`",
    ]
    rejects.sort(key=lambda r: 0 if r[0][0].startswith("verdict") else 1)      # a failed recovery is the most telling replay
    for m, v, l in rejects[:4]:
        o = m[1]
        res.violation(summary(o, seed, {"obligation": m[0], "monitor_verdict": v, "monitor_line": l[:4000]}))
    for s in hard[:4]:
        res.violation(s)
    if tie_bad:
        # step 4 for the decision logic: evaluate the theorems' statements on the REAL function outcomes
        hit = decision_oracle(t_descs, t_lines, t_reals)
        if hit:
            res.violation({"property": PID, "kind": "decision logic of create_synced / handle_split_conflict violates a C07 theorem statement on the real code", **hit})
        elif not rejects and not hard:
            res.violation({"property": PID, "kind": "decision-logic model no longer corresponds to the code", "first": list(tie_bad[0])}, no_input=True)
    if proof_broken and not rejects and not hard and not tie_bad:
        res.violation({"property": PID, "kind": "proof obligation no longer checks", "broken": proof_broken}, no_input=True)
    res.notes.append("engine phase %.1fs" % (_time.time() - t0))


def decision_oracle(descs, lines, reals):
    """the statements of half_recorded_create_is_recognised / different_content_never_adopted / recorded_only_if_present /
    same_hash_merges_without_conflict evaluated on the real functions' outcomes"""
    for d, l, r in zip(descs, lines, reals):
        if d["function"].endswith("create_synced"):
            ret, recorded, guess, irr = r.split()
            if d["create"] == "exists" and d["info_path"] in ("same", "same-nopath"):
                if not (ret == "finished" and recorded == "8:5:9" and guess == "~" and irr == "F"):
                    return {"theorem": "half_recorded_create_is_recognised", "input": d, "real_outcome": r}
            if d["create"] == "exists" and d["info_path"] == "diff" and (recorded != "~" or ret != "punt"):
                return {"theorem": "different_content_never_adopted", "input": d, "real_outcome": r}
            if recorded != "~" and not (d["create"] == "ok" or (d["create"] == "exists" and d["info_path"] in ("same", "same-nopath"))):
                return {"theorem": "recorded_only_if_present", "input": d, "real_outcome": r}
            if d["create"] == "ok" and not (ret == "finished" and recorded == "4:5:9"):
                return {"theorem": "adoption_equals_fresh_create (fresh create records the created object)", "input": d, "real_outcome": r}
        else:
            if d["defer_is_file"] and d["download_ok"] and d["same_hash"] and r != "merged":
                return {"theorem": "same_hash_merges_without_conflict", "input": d, "real_outcome": r}
            if r == "resolver" and d["defer_is_file"] and d["same_hash"]:
                return {"theorem": "resolver_only_if_differs", "input": d, "real_outcome": r}
    return None


def known_replay(ident):
    """replays one known finding.  Its crash instant is given by DESCRIPTION (kind of write) and resolved against the crash-free run of
    the same trace, because write numbers shift whenever unrelated code adds or removes a storage write; every write of that kind in
    the trace is tried.  Returns (failing runs, passing runs, crash-free run)."""
    spec, trace, (kind, desc) = KNOWN[ident]
    base = run_once(spec, 0, prog=trace_program(trace, tail=""))
    bad, good = [], []
    for (k_kind, k, pos, d, clean) in base["points"]:
        if k_kind != kind or d != desc:
            continue
        o = run_once(spec, 0, crash_at=(kind, k), prog=trace_program(trace, tail=""))
        if o["crashed"] and (not o["quiet"] or verdict_py(o) != "ok"):
            bad.append(o)
        elif o["crashed"]:
            good.append(o)
    return bad, good, base


def replay_known(res, opens, fixed=None):
    """exact replays on the real engine, on every run: an `open:` finding must still fail (else it is reported STALE in the
    evidence, never as a violation); a `fixed:` finding must pass (else VIOLATION: regression of a fixed finding)."""
    fixed = fixed or {}
    status = {}
    for ident in list(opens) + [i for i in fixed if i not in opens]:
        if ident not in KNOWN:
            res.notes.append("known finding %s has no replay in this harness" % ident)
            continue
        bad, good, base = known_replay(ident)
        if ident in opens:
            if bad:
                res.known.append("id=%s :: %s" % (ident, opens[ident]))
                status[ident] = "open, reproduces (%s)" % bad[0]["crash_desc"].split(":")[0]
            else:
                res.notes.append("known finding %s no longer reproduces (stale): move it to a `fixed:` line" % ident)
                status[ident] = "open, STALE (no longer reproduces; %d crash instants tried)" % len(good)
        else:
            if bad or not good:
                o = bad[0] if bad else base
                res.violation(summary(o, 0, {"kind": "regression of fixed finding", "id": ident, "what": fixed[ident], "trace": KNOWN[ident][1],
                                             "failure": "the replay of a fixed finding fails again" if bad else "the replay no longer reaches any crash instant of the recorded kind"}))
                status[ident] = "fixed, REGRESSED"
            else:
                status[ident] = "fixed, replay passes (%d crash instants)" % len(good)
    res.coverage["known_findings_replayed"] = status


def replay_file(res, path):
    import json
    d = json.load(open(path))
    if "spec" not in d:
        # a decision-logic violation (no engine run): evaluate the theorem statements on the real functions again
        t_lines, t_reals, t_descs = tie_decision_tables()
        hit = decision_oracle(t_descs, t_lines, t_reals)
        print("REPLAY %s decision logic: %s" % (path, hit or "all theorem statements hold on the real functions"))
        if hit:
            res.violation({"property": PID, "kind": d.get("kind"), **hit})
        res.coverage.update({"evaluations": len(t_lines), "programs": len(t_lines), "distinct_nontrivial": len(t_lines), "rule": "replay of the decision table",
                             "samples": [t_lines[0]], "disagreements_checked": len(t_lines), "fingerprints": fingerprints(C07_FP)})
        return
    spec, seed, crash_at = d["spec"], d["seed"], d.get("crash_at")
    prog = trace_program(d["trace"]) if d.get("trace") else None
    o = run_once(spec, seed, crash_at=tuple(crash_at) if crash_at else None, prog=prog, torn=bool(d.get("torn")), down_op=bool(d.get("down_op")))
    line = verdict_line(o)
    v = run_driver(LAYER, [line])[0] if o["quiet"] else "reject did-not-go-quiet"
    print("REPLAY %s crashed=%s quiet=%s verdict=%s" % (path, o["crashed"], o["quiet"], v))
    print("  left : %s\n  right: %s" % (tree_lines(o["L"]), tree_lines(o["R"])))
    if not v.startswith("ok"):
        res.violation(summary(o, seed, {"monitor_verdict": v}))
    res.coverage.update({"evaluations": 1, "programs": 1, "distinct_nontrivial": 1, "rule": "replay of one recorded run", "samples": [line[:400]],
                         "disagreements_checked": 1, "fingerprints": fingerprints(C07_FP)})


if __name__ == "__main__":
    standard_main(PID, run)
