"""C06 - restart resumes from persisted state; offline changes are synchronised.

Two ties to the real code:

 (A) model correspondence (Lean `Model/Event.lean`, driver layer `event`): a real EventManager over a real SyncState,
     a real storage backend (MockStorage dict and SqliteStorage) and a MockProvider is driven, in lock step with the
     model, through generated sequences of {user operation, do(), do() with a final stop after k deliveries, do()
     killed before its k-th effect, stop + new EventManager over the same storage, busy, forget, stored cursor
     corrupted / deleted, walk marker deleted, provider expiring old cursors, new provider object}; after every
     operation the stored cursor, the walk marker, need_walk, the in-memory cursor, the provider position, the
     queue and the list of deliveries (feed event numbers / walk items) are compared.

 (B) trace refinement on the whole engine (harness/engine.py World): histories from the reliable families with stop
     points between engine steps, operations while stopped, restarts with intact storage / cursor rows deleted /
     a stored cursor the provider rejects, both storage backends; at quiescence the Lean monitors (driver layer
     `monc06`: c01 converged, c02 nothing lost, c03 one-sided mirror, c06r no re-transfer, c06a no artefacts).

Fixed findings (need_walk not persisted: two shapes; walk de-duplication ignoring existence) are replayed exactly on the
real engine on every run (a reproduction is a regression = violation); since the repair, stops are generated anywhere,
also between "cursor re-seeded" and "walk completed"."""
import io
import os
import random
import sys

sys.path.insert(0, os.path.dirname(os.path.abspath(__file__)))
from engine_checks import *  # noqa

PID = "C06"
FP_SPEC = {"cloudsync/event.py": ["EventManager.__init__", "EventManager._validate_root", "EventManager.forget", "EventManager.busy",
                                  "EventManager.do", "EventManager._forget_walk", "EventManager._do_walk_if_needed", "EventManager._do_first_init",
                                  "EventManager._do_unsafe", "EventManager._save_current_cursor", "EventManager._process_event",
                                  "EventManager.queue"],
           "cloudsync/sync/state.py": ["SyncState.__init__", "SyncState.storage_get_data", "SyncState.storage_update_data",
                                       "SyncState.storage_delete_tag", "SyncState.forget", "SyncState.storage_commit",
                                       "SyncState._storage_update"],
           "cloudsync/providers/mock.py": ["MockProvider.events", "MockProvider.current_cursor", "MockProvider.latest_cursor",
                                           "MockFS.register_event"],
           "cloudsync/cs.py": ["CloudSync.__init__", "CloudSync.forget", "CloudSync.storage_label"]}


class Crash(BaseException):
    """the process dies here (passes every `except Exception`)"""


# =====================================================================================================================
# (A) the EventManager world
# =====================================================================================================================

class EmWorld:
    ROOT = "/root"

    def __init__(self, cfg, storage_kind):
        self.clock = VClock()
        install_determinism(self.clock)
        from cloudsync.providers.mock import MockProvider
        from cloudsync.exceptions import CloudCursorError

        class ExpiringProvider(MockProvider):
            """a provider whose old cursors expire: integers below _min_valid are rejected like any unusable cursor"""
            _min_valid = -1

            @property
            def current_cursor(self):
                return MockProvider.current_cursor.fget(self)

            @current_cursor.setter
            def current_cursor(self, val):
                if isinstance(val, int) and not isinstance(val, bool) and val < self._min_valid:
                    raise CloudCursorError(val)
                MockProvider.current_cursor.fset(self, val)

        self.cfg = cfg
        self.storage_kind = storage_kind
        self.prov = ExpiringProvider(False, True)
        self.prov.name = "mock-e"
        self.prov.connect({"key": "val"})
        self.other = MockProvider(False, True)
        self.other.name = "mock-o"
        self.other.connect({"key": "val"})
        self.prov.mkdir(self.ROOT)                      # feed event 0
        self.root_oid = self.prov.info_path(self.ROOT).oid
        self.storage_dict = {}
        self.sqlite_path = None
        self._sqldir = None
        self.em = None
        self.state = None
        self.fresh = []
        self.errors = []
        self.names = 0
        self.tr = []                 # write-order trace (tokens of the Lean layer `durable`), over all engines of this world
        self.in_do = False
        self.arm = None              # ("events" | "walk" | "storage", k): inject a failure inside the running do()
        self.swrites = 0
        world = self
        orig_walk, orig_events = self.prov.walk_oid, self.prov.events

        def walk_oid(*a, **kw):
            if world.in_do:
                if world.arm and world.arm[0] == "walk":
                    world.arm = None
                    raise CloudTemporaryError("injected: walk")
                world.tr.append("wb")
                world.walk_k = 0
            return orig_walk(*a, **kw)

        def events(*a, **kw):
            if world.in_do and world.arm and world.arm[0] == "events":
                world.arm = None
                raise CloudTemporaryError("injected: event poll")
            return orig_events(*a, **kw)
        from cloudsync.exceptions import CloudTemporaryError
        self.prov.walk_oid = walk_oid
        self.prov.events = events
        self.walk_k = 0
        label = "%s:%s:%s" % (self.prov.name, self.prov.connection_id, self.prov.namespace_id)
        if cfg == "n":
            self.ctag, self.wtag = "_cursor", None
        else:
            self.ctag, self.wtag = label + "_cursor_" + self.ROOT, label + "_walked_" + self.ROOT

    # ---- storage ------------------------------------------------------------------------------------------------
    def make_storage(self):
        if self.storage_kind == "mock":
            from cloudsync.tests.fixtures.mock_storage import MockStorage
            st = MockStorage(self.storage_dict)
            ids = [k for d in self.storage_dict.values() for k in d]
            st.cursor = max(ids) + 1 if ids else 0          # (known fixture defect C09: id counter restarts)
            return st
        import tempfile
        from cloudsync.sync.sqlite_storage import SqliteStorage
        if not self.sqlite_path:
            self._sqldir = tempfile.mkdtemp(prefix="c06_", dir="/dev/shm" if os.path.isdir("/dev/shm") else None)
            self.sqlite_path = os.path.join(self._sqldir, "state.db")
        return SqliteStorage(self.sqlite_path)

    def close(self):
        self.em = None
        if self._sqldir:
            import shutil
            shutil.rmtree(self._sqldir, ignore_errors=True)

    # ---- engine lifecycle ---------------------------------------------------------------------------------------
    def start(self):
        from cloudsync.event import EventManager
        from cloudsync.sync.state import SyncState
        if self.em is not None:
            return
        EventManager._provider_guard.clear()
        self.storage = self.make_storage()
        world0 = self
        for meth in ("create", "update", "delete"):
            def proxy(*a, _orig=getattr(self.storage, meth), _m=meth, **kw):
                tag = a[0]
                if world0.in_do and world0.arm and world0.arm[0] == "storage":
                    if world0.swrites == world0.arm[1]:
                        world0.arm = None
                        raise RuntimeError("injected: storage write failed")
                    world0.swrites += 1
                r = _orig(*a, **kw)
                if tag == world0.wtag:
                    world0.tr.append("dm" if _m == "delete" else "mk")
                elif tag == world0.ctag and _m != "delete":
                    v = a[1]
                    if isinstance(v, int) and not isinstance(v, bool):
                        world0.tr.append("cu:%d" % v)
                return r
            setattr(self.storage, meth, proxy)
        self.state = SyncState((self.prov, self.other), self.storage, tag="entries")
        kw = {"n": {}, "p": {"root_path": self.ROOT}, "b": {"root_path": self.ROOT, "root_oid": self.root_oid}}[self.cfg]
        self.fresh = []
        self.mode = None
        self.effects = 0
        self.deliveries = 0
        self.current_event = None
        self.updates = []
        em = EventManager(self.prov, self.state, 0, None, **kw)
        world = self
        orig_pe = em._process_event
        orig_upd = self.state.update
        orig_sud = self.state.storage_update_data
        orig_sdt = self.state.storage_delete_tag

        def effect():
            if world.mode and world.mode[0] == "crash" and world.effects == world.mode[1]:
                raise Crash()
            world.effects += 1

        orig_commit = self.state.storage_commit

        def storage_commit():
            had = len(world.state._dirtyset) > 0
            r = orig_commit()
            if had and not world.state._dirtyset:
                world.tr.append("cm")
            return r
        self.state.storage_commit = storage_commit

        def process_event(event, from_walk=False):
            effect()
            world.fresh.append("w" if from_walk else str(event.new_cursor))
            world.ctx = ("wr:%d" % world.walk_k) if from_walk else ("pe:%d" % event.new_cursor)
            if from_walk:
                world.walk_k += 1
            world.current_event = None if from_walk else event.new_cursor
            try:
                r = orig_pe(event, from_walk=from_walk)
            finally:
                world.current_event = None
            world.deliveries += 1
            if world.mode and world.mode[0] == "stop" and world.deliveries == world.mode[1]:
                em._Runnable__shutdown = True
            return r

        def update(*a, **kw):
            if world.current_event is not None:
                world.updates.append(str(world.current_event))
            r = orig_upd(*a, **kw)
            if world.state._dirtyset and getattr(world, "ctx", None):
                world.tr.append(world.ctx)          # this delivery left something to write back
                world.ctx = None
            return r

        def storage_update_data(tag, data):
            effect()
            return orig_sud(tag, data)

        def storage_delete_tag(tag):
            effect()
            return orig_sdt(tag)

        em._process_event = process_event
        self.state.update = update
        self.state.storage_update_data = storage_update_data
        self.state.storage_delete_tag = storage_delete_tag
        self.em = em

    def stop(self):
        from cloudsync.event import EventManager
        if self.em is not None:
            self.tr.append("rs")
        self.em = None
        self.state = None
        EventManager._provider_guard.clear()

    def do(self, mode=None):
        em = self.em
        if em is None:
            return
        self.mode = mode
        self.effects = 0
        self.deliveries = 0
        if mode and mode[0] == "stop" and mode[1] == 0:
            em._Runnable__shutdown = True
        fault = mode if mode and mode[0] == "fault" else None
        if fault:
            self.mode = mode = None
            self.arm = (fault[1], fault[2])
            self.swrites = 0
        self.clock.advance(0.01)
        self.in_do = True
        try:
            em.do()
        except Crash:
            pass
        except Exception as e:  # noqa
            self.tr.append("ft")
            if type(e).__name__ != "_BackoffError" and not fault:
                self.errors.append(repr(e)[:200])
        finally:
            self.mode = None
            self.in_do = False
            self.arm = None
        if mode:
            self.stop()

    # ---- operations ---------------------------------------------------------------------------------------------
    def objs(self):
        return len(list(self.prov.walk_oid(self.root_oid)))

    def user(self, rng):
        """one random user operation under the root; returns the lines for the model (one per feed event)"""
        p = self.prov
        before = p._latest_cursor
        files = [o for o in p._mock_fs.fs_objects() if o.exists and o.path.startswith(self.ROOT + "/") and o.type == o.FILE]
        k = rng.random()
        if files and k < 0.25:
            p.upload(rng.choice(files).oid, io.BytesIO(b"x%d" % rng.randint(0, 9)))
        elif files and k < 0.40:
            p.delete(rng.choice(files).oid)
        elif k < 0.50:
            self.names += 1
            p.mkdir("%s/d%d" % (self.ROOT, self.names))
        else:
            self.names += 1
            p.create("%s/f%d" % (self.ROOT, self.names), io.BytesIO(b"c%d" % self.names))
        n = p._latest_cursor - before
        o = self.objs()
        return ["user %d" % o] * n

    def ext(self, what):
        """manipulations of the storage rows from outside (engine down)"""
        st = self.make_storage()
        if what == "corrupt":
            rows = st.read_all(self.ctag)
            if rows:
                for eid in rows:
                    st.update(self.ctag, "garbage", eid)
            else:
                st.create(self.ctag, "garbage")
        elif what == "delcursor":
            for eid in st.read_all(self.ctag):
                st.delete(self.ctag, eid)
        elif what == "delwalk" and self.wtag:
            for eid in st.read_all(self.wtag):
                st.delete(self.wtag, eid)

    def apply(self, line, rng=None):
        t = line.split()
        op = t[0]
        if op == "setroot":
            if self.cfg != "n":
                self.prov.set_root(root_path=self.ROOT)
        elif op == "unsetroot":
            self.prov._root_path = None
            self.prov._root_oid = None
        elif op == "expire":
            self.prov._min_valid = self.prov._latest_cursor - int(t[1])
        elif op == "start":
            self.start()
        elif op == "stop":
            self.stop()
        elif op == "do":
            self.do()
        elif op == "dostop":
            self.do(("stop", int(t[1])))
        elif op == "docrash":
            self.do(("crash", int(t[1])))
        elif op == "dofault":
            self.do(("fault", t[1], int(t[2]) if len(t) > 2 else 0))
        elif op == "busy":
            if self.em is not None:
                self.em.busy  # noqa
        elif op == "forget":
            if self.em is not None:
                self.state.forget()
                self.em.forget()
                self.fresh = []
                self.tr.append("fg")
        elif op in ("corrupt", "delcursor", "delwalk"):
            if self.em is None:
                self.ext(op)
                self.tr.append("xw" if op == "delwalk" else "xc")
        elif op == "provcur":
            if self.em is None:
                self.prov._cursor = int(t[1])
        else:
            raise HarnessError("bad op " + line)

    # ---- observation --------------------------------------------------------------------------------------------
    @staticmethod
    def enc_cv(v):
        if v is None:
            return "~"
        if isinstance(v, int) and not isinstance(v, bool):
            return str(v)
        return "bad"

    def observe(self):
        st = self.storage if self.em is not None else self.make_storage()
        crow = st.read_all(self.ctag)
        cur = self.enc_cv(list(crow.values())[0]) if crow else "~"
        if len(crow) > 1:
            cur = "multi"
        walked = bool(self.wtag and st.read_all(self.wtag))
        if self.em is None:
            mem = "up=F val=- nw=- first=- mem=- q=-"
        else:
            em = self.em
            q = ",".join(str(e.new_cursor) for e, _fw in em._queue) or "-"
            mem = "up=T val=%s nw=%s first=%s mem=%s q=%s" % (enc_bool(em._root_validated), enc_bool(em.need_walk),
                                                           enc_bool(em._first_do), self.enc_cv(em.cursor), q)
        s = "cur=%s walked=%s %s pos=%d fresh=%s" % (cur, enc_bool(walked), mem, self.prov._cursor, ",".join(self.fresh) or "-")
        if self.errors:
            s += " err=" + self.errors[-1]
        return s


def gen_em_sequence(rng, n):
    """operation lines for one run; the generator tracks up/down so that every line is enabled"""
    cfg = rng.choice("pppbbn")
    ew_ops = []
    up = False
    for _ in range(n):
        r = rng.random()
        if up:
            if r < 0.40:
                ew_ops.append("do")
            elif r < 0.55:
                ew_ops.append("USER")
            elif r < 0.62:
                ew_ops.append("busy")
            elif r < 0.70:
                ew_ops.append("dostop %d" % rng.choice([0, 0, 1, 1, 2, 3, 5]))
                up = False
            elif r < 0.80:
                ew_ops.append("docrash %d" % rng.choice([0, 0, 1, 1, 2, 3, 4, 6]))
                up = False
            elif r < 0.88:
                ew_ops.append("stop")
                up = False
            elif r < 0.92:
                ew_ops.append("setroot")
            elif r < 0.95:
                ew_ops.append("expire %d" % rng.choice([0, 0, 1, 3]))
            else:
                ew_ops.append("forget")
        else:
            if r < 0.40:
                ew_ops.append("start")
                up = True
            elif r < 0.58:
                ew_ops.append("USER")
            elif r < 0.66:
                ew_ops.append("corrupt")
            elif r < 0.74:
                ew_ops.append("delcursor")
            elif r < 0.78:
                ew_ops.append("delwalk")
            elif r < 0.84:
                ew_ops.append("PROVCUR")
            elif r < 0.88:
                ew_ops.append("unsetroot")
            elif r < 0.94:
                ew_ops.append("expire %d" % rng.choice([0, 0, 1, 3]))
            else:
                ew_ops.append("setroot")
    return cfg, ew_ops


def run_em_sequence(cfg, storage_kind, ops, rng):
    """runs one sequence on the real EventManager; returns (model lines, real observations)"""
    w = EmWorld(cfg, storage_kind)
    lines, obs = [], []
    try:
        root_set = cfg == "b" and rng.random() < 0.5
        if root_set:
            w.prov.set_root(root_path=w.ROOT)
        lines.append("reset %s %d %d %d %s" % (cfg, w.prov._latest_cursor + 1, w.prov._cursor, w.objs(), enc_bool(root_set)))
        obs.append(w.observe())
        for op in ops:
            if op == "USER":
                ls = w.user(rng)
                for ln in ls:
                    lines.append(ln)
                    obs.append(None)            # compared only after the last event of the operation
                if ls:
                    obs[-1] = w.observe()
                continue
            if op == "PROVCUR":
                op = "provcur %d" % rng.choice([-1, w.prov._latest_cursor, w.prov._latest_cursor, rng.randint(-1, max(-1, w.prov._latest_cursor))])
            if op == "PROVLATEST":
                op = "provcur %d" % w.prov._latest_cursor
            w.apply(op)
            lines.append(op)
            obs.append(w.observe())
        return lines, obs, list(w.tr)
    finally:
        w.close()


EM_SCENARIOS = [[], ["corrupt"], ["delcursor"], ["delcursor", "PROVLATEST"], ["expire 0"], ["delwalk"], ["corrupt", "delwalk"],
                ["delcursor", "delwalk", "PROVLATEST"]]


def em_enumerated(tier, seed):
    """systematic part: after a first run and some user operations, every way of losing / keeping the cursor x a do() killed before
    each of its effects (docrash k) or finally stopped after k deliveries (dostop k) x what the next engine does - so that every
    stop point inside the re-seeding paths (error handler, first-init without a cursor) is compared with the model on every run"""
    cuts = ["do"] + ["docrash %d" % k for k in range(7)] + ["dostop %d" % k for k in range(5)]
    out = []
    n = 0
    for cfg in "pb":
        for scen in EM_SCENARIOS:
            for cut in cuts:
                n += 1
                if tier == "quick" and (n + seed) % 2:
                    continue
                ops = ["start", "setroot", "do", "USER", "USER", "do", "stop", "USER"] + scen + ["start", cut]
                ops += ([] if cut == "do" else ["start"]) + ["do", "USER", "do"]
                out.append((cfg, ops))
    return out


TRACES = []          # (cfg, storage, model lines, write-order trace) of every EventManager run of this process


def durable_fault_sequences(tier, seed):
    """intake steps with a walk, with events, with both - and a failure injected at every provider call (event poll, walk) and
    at every storage write position of that step; the engine object survives a failure, a crash / stop does not"""
    cuts = ["do", "dofault events", "dofault walk"] + ["dofault storage %d" % k for k in range(6)] + \
           ["docrash %d" % k for k in range(6)] + ["dostop %d" % k for k in range(3)]
    out = []
    n = 0
    for cfg in "pb":
        for scen in EM_SCENARIOS:
            for cut in cuts:
                n += 1
                if tier == "quick" and (n + seed) % 2:
                    continue
                ops = ["start", "setroot", "do", "USER", "USER", "do", "stop", "USER", "USER"] + scen + ["start", cut]
                ops += (["start"] if cut.split()[0] in ("docrash", "dostop") else []) + ["do", "USER", "do", "stop", "start", "do", "do"]
                out.append((cfg, ops))
    return out


def durable_check(seed, tier):
    """(1a) every recorded write-order trace through the Lean monitor `durable` (order discipline + durable coverage)"""
    rng = rng_for(seed, "c06durable")
    for i, (cfg, ops) in enumerate(durable_fault_sequences(tier, seed)):
        kind = "mock" if i % 2 else "sqlite"
        lines, _obs, tr = run_em_sequence(cfg, kind, ops, rng)
        TRACES.append((cfg, kind, lines, tr))
    items = [t for t in TRACES if t[3]]
    verdicts = run_driver("durable", [" ".join(t[3]) for t in items]) if items else []
    rejects = [{"cfg": t[0], "storage": t[1], "operations": t[2], "write_order_trace": t[3], "monitor_verdict": v}
               for t, v in zip(items, verdicts) if v != "ok"]
    import collections
    toks = collections.Counter(x.split(":")[0] for t in items for x in t[3])
    return len(items), dict(toks), rejects


def em_correspondence(seed, tier):
    rng = rng_for(seed, "c06em")
    nseq = 400 if tier == "quick" else 4000
    all_lines, all_obs, starts = [], [], []
    todo = [(cfg, ops, "mock" if i % 2 else "sqlite") for i, (cfg, ops) in enumerate(em_enumerated(tier, seed))]
    for i in range(nseq):
        cfg, ops = gen_em_sequence(rng, rng.randint(4, 30))
        todo.append((cfg, ops, "mock" if i % 3 else "sqlite"))
    for cfg, ops, kind in todo:
        starts.append((len(all_lines), cfg, kind))
        lines, obs, tr = run_em_sequence(cfg, kind, ops, rng)
        all_lines += lines
        all_obs += obs
        TRACES.append((cfg, kind, lines, tr))
    model = run_driver("event", all_lines)
    dis = []
    for i, (o, m) in enumerate(zip(all_obs, model)):
        if o is not None and o != m:
            j = max(k for k, (st, _c, _k) in enumerate(starts) if st <= i)
            st, cfg, kind = starts[j]
            dis.append({"storage": kind, "sequence": all_lines[st:i + 1], "implementation": o, "model": m})
            if len(dis) >= 5:
                break
    return all_lines, all_obs, model, dis




# =====================================================================================================================
# (B) trace refinement on the whole engine
# =====================================================================================================================

FILE_KINDS = ["create", "write", "write", "delete", "create"]
ONESIDED_KINDS = ["create", "write", "write", "delete", "rename", "move"]
VARIANTS = ["intact", "intact", "delcur0", "delcur1", "delcur01", "corrupt0", "corrupt1", "expired0", "expired1", "delwalk0", "delwalk1"]


def _expiring_class():
    from cloudsync.providers.mock import MockProvider
    from cloudsync.exceptions import CloudCursorError
    if "cls" not in _expiring_class.__dict__:
        class ExpiringMock(MockProvider):
            _min_valid = -1

            @property
            def current_cursor(self):
                return MockProvider.current_cursor.fget(self)

            @current_cursor.setter
            def current_cursor(self, val):
                if isinstance(val, int) and not isinstance(val, bool) and val < self._min_valid:
                    raise CloudCursorError(val)
                MockProvider.current_cursor.fset(self, val)
        _expiring_class.cls = ExpiringMock
    return _expiring_class.cls


class RestartRun:
    """a World + Recorder with stop / restart bookkeeping"""

    def __init__(self, flavour, storage, rng):
        self.w = World(flavour, storage=storage)
        for p in self.w.provs:
            p.__class__ = _expiring_class()
        self.rec = Recorder(self.w, rng)
        self.rng = rng
        self.fold = flavour.endswith("-ci")
        self.transfers = []          # tags carried by engine create/upload calls, in order
        self.stops = []              # bookkeeping per stop
        self.log = []                # what happened, for the replay
        self.up = True
        self.lost_pending = set()    # sides whose cursor was lost at a restart and that have not yet reset + walked
        self.quiet_same = {}         # folded rel path -> tag of the files equal on both sides at the last quiescence
        self.quiet_marks = set()     # positions in rec.ops at which the engine was quiet
        self.stops_with_walk_pending = 0
        self.case_renames = 0        # case-only renames made inside a lost-cursor window (checked with exact case)
        self.grow_renames = 0        # all renames / moves made inside a lost-cursor window
        self.fresh_names = 0
        w = self.w

        def hook(c):
            if c.method in ("create", "upload"):
                oid = c.result if c.method == "create" else c.target
                o = w.provs[c.side]._mock_fs.get(oid)
                data = bytes(o.contents or b"") if o is not None else b""
                self.transfers.append(tag_of(data))
        w.after_hook = hook
        self.tags = []
        for i, p in enumerate(w.provs):
            label = "%s:%s:%s" % (p.name, p.connection_id, p.namespace_id)
            self.tags.append((label + "_cursor_" + w.roots[i], label + "_walked_" + w.roots[i]))

    def close(self):
        self.w.close()

    # ---- coverage: was a walk still pending when the engine was stopped? (the window of the former finding) -----------------
    def walk_pending(self):
        return self.w.cs is not None and any(em.need_walk for em in self.w.cs.emgrs)

    def key(self, rel):
        return rel.lower() if self.fold else rel

    # ---- quiescence with a snapshot of what is synchronised (for the re-transfer obligation) -------------------------
    def snap_quiet(self):
        tl, tr = self.w.tree(0), self.w.tree(1)
        trk = {self.key(k): v for k, v in tr.items()}
        self.quiet_same = {self.key(k): tag_of(v[1]) for k, v in tl.items() if v[0] == "f" and trk.get(self.key(k)) == v}
        self.quiet_marks.add(len(self.rec.ops))

    def weak_shape(self):
        """syntactic shapes that are measured weak spots of the pinned engine's heuristics whether or not it is restarted
        (C01 territory, see TASK/DESIGN "engine families"), looked for between two quiescences on one side:
          * name reuse: a name freed by a delete / rename is taken again (create, mkdir, rename target);
          * a folder is renamed while something created or moved beneath it is still unsynced."""
        freed = (set(), set())
        fresh = (set(), set())
        for idx, o in enumerate(self.rec.ops):
            if idx in self.quiet_marks:
                for x in freed + fresh:
                    x.clear()
            side, kind = o[0], o[1]
            if kind == "delete":
                freed[side].add(self.key(o[2]))
            elif kind in ("create", "mkdir"):
                if self.key(o[2]) in freed[side]:
                    return "name reuse inside an unsynced window"
                fresh[side].add(self.key(o[2]))
            elif kind == "rename":
                src, dst = self.key(o[2]), self.key(o[3])
                if dst in freed[side]:
                    return "name reuse inside an unsynced window"
                if any(p.startswith(src + "/") for p in fresh[side]):
                    return "folder renamed with an unsynced child"
                freed[side].add(src)
                fresh[side].add(dst)
        return None

    def quiesce(self, watch_side=None):
        q = self.rec.quiesce(watch_side=watch_side)
        if q:
            self.snap_quiet()
        return q

    # ---- an operation that only creates or modifies, with a name never used before in this run ---------------------------
    def grow_op(self, side, allow_mkdir=True, allowed_tops=None):
        rng, rec = self.rng, self.rec
        t = self.w.tree(side)

        def ok(rel):
            return allowed_tops is None or rel.split("/")[1] in allowed_tops
        files = [k for k, v in t.items() if v[0] == "f" and ok(k) and not conflicted(k)]
        dirs = [k for k, v in t.items() if v[0] == "d" and ok(k) and not conflicted(k) and k.count("/") < 2]
        parents = dirs + [""]
        r = rng.random()
        prov = self.w.provs[side]
        if not prov.oid_is_path and rng.random() < 0.35:
            # a rename / move of an id-stable object is visible to a walk (same id, new path); on a case-insensitive side also
            # a rename that changes nothing but the letter case.  (Deletions stay excluded; path-id sides too: a rename is a
            # deletion plus a creation there.)
            movable = files + ([d for d in dirs] if allow_mkdir else [])
            if movable:
                src = rng.choice(movable)
                head, leaf = src.rsplit("/", 1)
                how = rng.choice(["case", "case", "rename", "move"] if not prov.case_sensitive else ["rename", "move"])
                # where the other side is case-sensitive, a later creation there of the old spelling would be a genuine name clash
                # (two names on one side, one on the other): only objects with run-unique names ("g<N>") are case-renamed there
                mixed = self.w.provs[1 - side].case_sensitive
                if how == "case" and leaf.swapcase() != leaf and (not mixed or leaf[:1] == "g"):
                    if rec.user(side, "rename", src, head + "/" + leaf.swapcase()):
                        self.case_renames += 1
                        self.grow_renames += 1
                        return True
                    return False
                self.fresh_names += 1
                dst = "%s/g%d" % (head, self.fresh_names)
                if how == "move":
                    targets = [d for d in parents if d != src and not d.startswith(src + "/") and d != head]
                    if targets:
                        dst = "%s/g%d" % (rng.choice(targets), self.fresh_names)
                if rec.user(side, "rename", src, dst):
                    self.grow_renames += 1
                    return True
                return False
        if files and r < 0.4:
            return rec.user(side, "write", rng.choice(files), tag=rec.fresh())
        self.fresh_names += 1
        name = "%s/g%d%s" % (rng.choice(parents), self.fresh_names, rng.choice(["", ".txt"]))
        if allow_mkdir and r > 0.8:
            return rec.user(side, "mkdir", name)
        return rec.user(side, "create", name, tag=rec.fresh())

    def unsettled(self):
        """is some side still between "its cursor was lost" and "it has reset the cursor and completed the walk"?
        Until then only creations and modifications are promised to reach the other side."""
        if self.w.cs is not None:
            for side in list(self.lost_pending):
                em = self.w.cs.emgrs[side]
                if not em._first_do and not em.need_walk:
                    self.lost_pending.discard(side)
        return bool(self.lost_pending)

    def grow(self, lost):
        return lost or self.unsettled()

    def stop(self, graceful=True):
        self.stops_with_walk_pending += 1 if self.walk_pending() else 0
        tl, tr = self.w.tree(0), self.w.tree(1)
        trk = {self.key(k): v for k, v in tr.items()}
        # "already synchronised": equal on both sides now AND already so when the engine was last quiet (a file written
        # since may still have events in flight; what the engine does about those is not a re-transfer)
        same = {k: tag_of(v[1]) for k, v in tl.items() if v[0] == "f" and trk.get(self.key(k)) == v
                and self.quiet_same.get(self.key(k)) == tag_of(v[1])}
        self.stops.append({"ops_at": len(self.rec.ops), "same": same, "transfer_at": None, "graceful": graceful})
        self.w.drop_engine(graceful)
        self.up = False
        self.log.append("STOP%s" % ("" if graceful else "!"))
        self.rec.trace.append("X" if graceful else "X!")

    def restart(self, variant, fresh_pos):
        w = self.w
        st = w.make_storage()
        try:
            for side in (0, 1):
                ctag, wtag = self.tags[side]
                if variant in ("delcur%d" % side, "delcur01"):
                    for eid in st.read_all(ctag):
                        st.delete(ctag, eid)
                if variant == "corrupt%d" % side:
                    for eid in st.read_all(ctag):
                        st.update(ctag, "garbage", eid)
                if variant == "delwalk%d" % side:
                    for eid in st.read_all(wtag):
                        st.delete(wtag, eid)
                if variant == "expired%d" % side:
                    w.provs[side]._min_valid = w.provs[side]._latest_cursor
        finally:
            if w.storage_kind == "sqlite":
                st.close()
        for side in (0, 1):
            if variant in ("delcur%d" % side, "delcur01", "corrupt%d" % side, "expired%d" % side):
                self.lost_pending.add(side)
        if fresh_pos:
            # a new process creates new provider objects; their current position is "now"
            for p in w.provs:
                p._cursor = p._latest_cursor
        w.new_engine()
        self.up = True
        self.stops[-1]["transfer_at"] = len(self.transfers)
        self.log.append("START:%s%s" % (variant, ":fresh" if fresh_pos else ""))
        self.rec.trace.append("N:%s%s" % (variant, ":fresh" if fresh_pos else ""))

    def steps(self, n):
        for _ in range(n):
            self.rec.engine(self.rng.choice("LRS"))

    # ---- the re-transfer obligation ---------------------------------------------------------------------------------------
    def touched(self, rel, ops):
        k = self.key(rel)
        for o in ops:
            for q in o[2:4]:
                if isinstance(q, str):
                    qq = self.key(q)
                    if k == qq or k.startswith(qq + "/"):
                        return True
        return False

    def retransfer_lines(self):
        out = []
        for s in self.stops:
            if s["transfer_at"] is None:
                continue
            later = self.rec.ops[s["ops_at"]:]
            unchanged = sorted(t for rel, t in s["same"].items() if not self.touched(rel, later))
            moved = self.transfers[s["transfer_at"]:]
            out.append("c06r | %s | %s" % (" ".join(map(str, unchanged)), " ".join(map(str, moved))))
        return out

    def exact_case_lines(self, sm):
        """on flavours whose trees are compared case-folded: if the run made a case-only rename inside a lost-cursor window, the
        two sides must also agree letter for letter (the rename is a user change like any other and must reach the other side)"""
        if not (self.fold and self.case_renames):
            return []
        sm = dict(sm)
        sm["exact_case"] = True
        return [("line", "c01 | %s | %s" % (enc_tree(self.w.tree(0)), enc_tree(self.w.tree(1))), sm, None)]

    def summary(self, extra=None):
        d = case_summary(self.rec, {"storage": self.w.storage_kind, "events": self.log, "stops_with_walk_pending": self.stops_with_walk_pending,
                                    "case_only_renames_in_lost_window": self.case_renames, "renames_in_lost_window": self.grow_renames})
        if rowid_signature(self.w):
            d["signature"] = KF_ROWID
        d["schedule"] = self.rec.trace[-400:]
        if extra:
            d.update(extra)
        return d


LOST = ("delcur0", "delcur1", "delcur01", "corrupt0", "corrupt1", "expired0", "expired1")
GROW_KINDS = ["create", "write", "write", "mkdir", "create"]
GROW_FILE_KINDS = ["create", "write", "write", "create"]


def pick_variant(rng):
    """(variant, new provider objects?, cursor lost?).  When the restart loses a cursor (row deleted / rejected) the
    property promises only that everything *created or modified* reaches the other side (a walk cannot see deletions,
    nor - on path-id providers - the old name of a rename): such a segment therefore starts from quiescence and
    contains only creations and modifications, so that exact convergence is what the property demands.
    (Re-creating a deleted name inside such a segment is handled since the walk de-duplication fix and is exercised by the
    enumerated `recreate` corner; the shared Recorder keeps random name reuse out of all engine families - C01's finding.)"""
    v = rng.choice(VARIANTS)
    return v, rng.random() < 0.6, v in LOST


def fold_op(o, fold):
    if not fold:
        return o
    return tuple(x.lower() if isinstance(x, str) and x.startswith("/") else x for x in o)


def case_settled(fl, storage, rng):
    """F1: every operation followed by quiescence; stop at a quiet point + ONE operation while down, or stop mid-sync
    after the last operation + nothing while down; restart variants; all flavours"""
    run = RestartRun(fl, storage, rng)
    rec, w = run.rec, run.w
    try:
        if not build_base(rec, rng.randint(0, 4)):
            return [("hard", None, run.summary({"failure": "base tree did not converge"}), None)]
        run.snap_quiet()

        def op(lost):
            sd = rng.randint(0, 1)
            return run.grow_op(sd) if run.grow(lost) else rec.random_op(sd)
        for _r in range(rng.randint(1, 2)):
            variant, fresh, lost = pick_variant(rng)
            for _ in range(rng.randint(0, 2)):
                if op(False):
                    if not run.quiesce():
                        return [("hard", None, run.summary({"failure": "engine did not go quiet within the step cap"}), None)]
            if rng.random() < 0.5:
                run.stop(rng.random() < 0.7)
                op(lost)
            else:
                op(lost)
                run.steps(rng.randint(0, 6))
                run.stop(rng.random() < 0.7)
            run.restart(variant, fresh)
            if not run.quiesce():
                return [("hard", None, run.summary({"failure": "engine did not go quiet within the step cap after the restart"}), None)]
        tl, tr = w.tree(0), w.tree(1)
        key = (fl, storage, tuple(rec.ops), tuple(run.log))
        out = [("line", "c01 | %s | %s" % (enc_tree(tl, run.fold), enc_tree(tr, run.fold)), run.summary({"family": "settled"}), key),
               ("line", "c06a | %s | %s" % (enc_tree(tl), enc_tree(tr)), run.summary({"family": "settled"}), None)]
        out += [("line", ln, run.summary({"family": "settled"}), None) for ln in run.retransfer_lines()]
        out += run.exact_case_lines(run.summary({"family": "settled"}))
        return out
    finally:
        run.close()


def case_files(fl, storage, rng):
    """F2: concurrent two-sided file create/overwrite/delete with engine steps interleaved, stops mid-sync, more such
    operations while down, restart variants; all flavours"""
    run = RestartRun(fl, storage, rng)
    rec, w = run.rec, run.w
    try:
        if not build_base(rec, rng.randint(0, 4)):
            return [("hard", None, run.summary({"failure": "base tree did not converge"}), None)]
        run.snap_quiet()

        def op(lost):
            sd = rng.randint(0, 1)
            return run.grow_op(sd, allow_mkdir=False) if run.grow(lost) else rec.random_op(sd, kinds=FILE_KINDS)
        for _r in range(rng.randint(1, 2)):
            variant, fresh, lost = pick_variant(rng)
            if lost and not run.quiesce():
                return [("hard", None, run.summary({"failure": "engine did not go quiet within the step cap"}), None)]
            for _ in range(rng.randint(0, 3)):
                op(lost)
                rec.interleave(2)
            run.steps(rng.randint(0, 4))
            run.stop(rng.random() < 0.7)
            for _ in range(rng.randint(0, 3)):
                op(lost)
            run.restart(variant, fresh)
            for _ in range(rng.randint(0, 2)):
                op(False)
                rec.interleave(2)
        if not run.quiesce():
            return [("hard", None, run.summary({"failure": "engine did not go quiet within the step cap after the restart"}), None)]
        tl, tr = w.tree(0), w.tree(1)
        key = (fl, storage, tuple(rec.ops), tuple(run.log))
        sm = run.summary({"family": "files", "ledger": list(rec.ledger)})
        out = [("line", "c01 | %s | %s" % (enc_tree(tl, run.fold), enc_tree(tr, run.fold)), sm, key),
               ("line", "c02 | %s | %s | %s" % (" ".join(rec.ledger), enc_tree(tl), enc_tree(tr)), sm, None)]
        out += [("line", ln, sm, None) for ln in run.retransfer_lines()]
        out += run.exact_case_lines(sm)
        return out
    finally:
        run.close()


def case_onesided(fl, storage, rng):
    """F3: one-sided file operations interleaved with engine steps, stops mid-sync, more operations on the same side
    while down; id-stable flavours only"""
    run = RestartRun(fl, storage, rng)
    rec, w = run.rec, run.w
    side = rng.randint(0, 1)
    try:
        if not build_base(rec, rng.randint(0, 4), side=rng.randint(0, 1)):
            return [("hard", None, run.summary({"failure": "base tree did not converge"}), None)]
        rec.origin_changed_steps = [0, 0]
        run.snap_quiet()

        def op(lost):
            return run.grow_op(side, allow_mkdir=False) if run.grow(lost) else rec.random_op(side, kinds=ONESIDED_KINDS)
        for _r in range(rng.randint(1, 2)):
            variant, fresh, lost = pick_variant(rng)
            if lost and not run.quiesce(watch_side=side):
                return [("hard", None, run.summary({"failure": "engine did not go quiet within the step cap"}), None)]
            for _ in range(rng.randint(0, 3)):
                op(lost)
                for _ in range(rng.randint(0, 2)):
                    rec.engine(rng.choice("LRS"), watch_side=side)
            for _ in range(rng.randint(0, 4)):
                rec.engine(rng.choice("LRS"), watch_side=side)
            run.stop(rng.random() < 0.7)
            for _ in range(rng.randint(0, 3)):
                op(lost)
            before = w.tree(side)
            run.restart(variant, fresh)
            if w.tree(side) != before:
                rec.origin_changed_steps[side] += 1
        expected = w.tree(side)
        if not run.quiesce(watch_side=side):
            return [("hard", None, run.summary({"failure": "engine did not go quiet within the step cap after the restart"}), None)]
        n_calls = len(w.calls)
        for _ in range(4):
            for x in "LRS":
                rec.engine(x, watch_side=side)
        extra = len([c for c in w.calls[n_calls:] if c.by == "engine" and c.method != "download" and not c.error])
        sm = run.summary({"family": "onesided", "origin_side": side})
        key = (fl, storage, side, tuple(rec.ops), tuple(run.log))
        out = [("line", "c03 | %s | %s | %s | %d %d" % (enc_tree(expected, run.fold), enc_tree(w.tree(side), run.fold),
                                                        enc_tree(w.tree(1 - side), run.fold), rec.origin_changed_steps[side], extra), sm, key)]
        out += [("line", ln, sm, None) for ln in run.retransfer_lines()]
        out += run.exact_case_lines(sm)
        return out
    finally:
        run.close()


def case_disjoint(fl, storage, rng):
    """F4: both sides change disjoint top-level subtrees, stops mid-sync, more disjoint operations while down"""
    run = RestartRun(fl, storage, rng)
    rec, w = run.rec, run.w
    try:
        if not build_base(rec, rng.randint(2, 6), side=rng.randint(0, 1)):
            return [("hard", None, run.summary({"failure": "base tree did not converge"}), None)]
        run.snap_quiet()
        base = w.tree(0)
        tops = sorted({k.split("/")[1] for k in base})
        rng.shuffle(tops)
        half = len(tops) // 2
        mine = (set(tops[:half]) | {"lx", "ly.txt"}, set(tops[half:]) | {"rx", "ry.txt"})
        new_tops = (["lx", "ly.txt"], ["rx", "ry.txt"])
        start = len(rec.ops)

        def op(lost):
            sd = rng.randint(0, 1)
            if run.grow(lost):
                return run.grow_op(sd, allowed_tops=mine[sd])
            return rec.random_op(sd, allowed_tops=mine[sd], new_tops=new_tops[sd])
        for _r in range(rng.randint(1, 2)):
            variant, fresh, lost = pick_variant(rng)
            if lost and not run.quiesce():
                return [("hard", None, run.summary({"failure": "engine did not go quiet within the step cap"}), None)]
            for _ in range(rng.randint(0, 3)):
                op(lost)
                rec.interleave(2)
            run.steps(rng.randint(0, 4))
            run.stop(rng.random() < 0.7)
            for _ in range(rng.randint(0, 2)):
                op(lost)
            run.restart(variant, fresh)
        if not run.quiesce():
            return [("hard", None, run.summary({"failure": "engine did not go quiet within the step cap after the restart"}), None)]
        weak = run.weak_shape()
        if weak:
            return [("filtered", None, run.summary({"family": "disjoint", "filtered": weak}), None)]
        ops = [fold_op(o, run.fold) for o in rec.ops[start:]]
        sm = run.summary({"family": "disjoint"})
        key = (fl, storage, tuple(rec.ops), tuple(run.log))
        line = "c04 | %s | %s | %s | %s | %s" % (enc_tree(base, run.fold), " ".join(op_token(o) for o in ops if o[0] == 0),
                                                 " ".join(op_token(o) for o in ops if o[0] == 1), enc_tree(w.tree(0), run.fold), enc_tree(w.tree(1), run.fold))
        out = [("line", line, sm, key)]
        out += [("line", ln, sm, None) for ln in run.retransfer_lines()]
        out += run.exact_case_lines(sm)
        return out
    finally:
        run.close()


def case_cursor_zero(fl, storage, rng, variant, fresh_pos, both):
    """corner: a fresh pair whose sides have only seen the creation of their root (stored cursor 0), then offline changes"""
    run = RestartRun(fl, storage, rng)
    rec, w = run.rec, run.w
    try:
        for x in "LR" if both else rng.choice(["L", "R"]):
            rec.engine(x)
        st = w.storage
        cursors = [list(st.read_all(run.tags[i][0]).values()) for i in (0, 1)]
        run.stop(True)
        rec.user(0, "create", "/a", tag=rec.fresh())
        rec.user(1, "create", "/b", tag=rec.fresh())
        if rng.random() < 0.5:
            rec.user(rng.randint(0, 1), "mkdir", "/d")
        run.restart(variant, fresh_pos)
        if not run.quiesce():
            return [("hard", None, run.summary({"failure": "engine did not go quiet within the step cap after the restart"}), None)]
        tl, tr = w.tree(0), w.tree(1)
        sm = run.summary({"family": "cursor-zero", "stored_cursors_at_stop": cursors})
        return [("line", "c01 | %s | %s" % (enc_tree(tl, run.fold), enc_tree(tr, run.fold)), sm, (fl, storage, "zero", variant, fresh_pos, both)),
                ("line", "c02 | %s | %s | %s" % (" ".join(rec.ledger), enc_tree(tl), enc_tree(tr)), sm, None),
                ("line", "c06a | %s | %s" % (enc_tree(tl), enc_tree(tr)), sm, None)]
    finally:
        run.close()


def case_tempfile(fl, storage, rng, side, kind, graceful, variant):
    """corner: an entry whose content was downloaded to a temp file but could not be written to the other side (transient
    fault) before the stop; done() removes the temp directory; the new engine must still sync it"""
    from cloudsync.exceptions import CloudTemporaryError
    run = RestartRun(fl, storage, rng)
    rec, w = run.rec, run.w
    try:
        rec.user(side, "create", "/keep", tag=rec.fresh())
        rec.user(side, "create", "/f", tag=rec.fresh())
        if not run.quiesce():
            return [("hard", None, run.summary({"failure": "base did not go quiet"}), None)]
        if kind == "write":
            rec.user(side, "write", "/f", tag=rec.fresh())
        else:
            rec.user(side, "create", "/g", tag=rec.fresh())
        fired = []

        def fault(s, m, a):
            if m in ("create", "upload") and s == 1 - side:
                fired.append(m)
                raise CloudTemporaryError("injected")
        w.fault_hook = fault
        n = 0
        while not fired and n < 40:
            for x in "LRS":
                rec.engine(x)
                n += 1
                if fired:
                    break
        w.fault_hook = None
        temp_seen = [e[side].temp_file for e in w.cs.state.get_all() if e[side].temp_file]
        run.stop(graceful)
        run.restart(variant, True)
        if not run.quiesce():
            return [("hard", None, run.summary({"failure": "engine did not go quiet within the step cap after the restart"}), None)]
        tl, tr = w.tree(0), w.tree(1)
        sm = run.summary({"family": "tempfile", "fault_fired": fired, "temp_files_at_stop": len(temp_seen)})
        out = [("line", "c01 | %s | %s" % (enc_tree(tl, run.fold), enc_tree(tr, run.fold)), sm, (fl, storage, "temp", side, kind, graceful, variant)),
               ("line", "c02 | %s | %s | %s" % (" ".join(rec.ledger), enc_tree(tl), enc_tree(tr)), sm, None),
               ("line", "c06a | %s | %s" % (enc_tree(tl), enc_tree(tr)), sm, None)]
        out += [("line", ln, sm, None) for ln in run.retransfer_lines()]
        return out
    finally:
        run.close()


def case_recreate(fl, storage, rng, side, kind, variant, fresh_pos):
    """corner (lifted with the fix of walk-dedup-ignores-existence): an object is deleted, the deletion is synchronised, the
    engine goes down, the object is re-created at the same path (a folder, a file with the same bytes, or a file with new bytes) and
    the restart loses / keeps the cursor of that side: the re-creation must reach the other side"""
    run = RestartRun(fl, storage, rng)
    rec, w = run.rec, run.w
    rec.avoid_reuse = False
    try:
        t0 = rec.fresh()
        rec.user(side, "create", "/keep", tag=rec.fresh())
        if kind == "dir":
            rec.user(side, "mkdir", "/a")
        else:
            rec.user(side, "create", "/a", tag=t0)
        if not run.quiesce():
            return [("hard", None, run.summary({"failure": "base did not go quiet"}), None)]
        rec.user(side, "delete", "/a")
        if not run.quiesce():
            return [("hard", None, run.summary({"failure": "engine did not go quiet within the step cap"}), None)]
        run.stop(rng.random() < 0.7)
        if kind == "dir":
            rec.user(side, "mkdir", "/a")
        elif kind == "same":
            rec.user(side, "create", "/a", tag=t0)
        else:
            rec.user(side, "create", "/a", tag=rec.fresh())
        run.restart(variant, fresh_pos)
        if not run.quiesce():
            return [("hard", None, run.summary({"failure": "engine did not go quiet within the step cap after the restart"}), None)]
        tl, tr = w.tree(0), w.tree(1)
        sm = run.summary({"family": "recreate"})
        return [("line", "c01 | %s | %s" % (enc_tree(tl, run.fold), enc_tree(tr, run.fold)), sm, (fl, storage, "recreate", side, kind, variant, fresh_pos)),
                ("line", "c02 | %s | %s | %s" % (" ".join(rec.ledger), enc_tree(tl), enc_tree(tr)), sm, None),
                ("line", "c06a | %s | %s" % (enc_tree(tl), enc_tree(tr)), sm, None)]
    finally:
        run.close()


def case_offline_rename(fl, storage, rng, side, obj, how, variant, fresh_pos, graceful=True):
    """corner: an id-stable object is renamed while the engine is down - only the letter case (case-insensitive side), to a new
    name, or into another folder - and the restart loses / keeps that side's cursor; a walk sees the same id at a new path, so the
    rename must reach the other side, letter for letter, without the content being transferred again"""
    run = RestartRun(fl, storage, rng)
    rec, w = run.rec, run.w
    try:
        t0 = rec.fresh()
        rec.user(side, "mkdir", "/dir")
        rec.user(side, "mkdir", "/other")
        rec.user(side, "create", "/dir/report.txt", tag=t0)
        rec.user(side, "create", "/top.txt", tag=rec.fresh())
        if not run.quiesce():
            return [("hard", None, run.summary({"failure": "base did not go quiet"}), None)]
        run.stop(graceful)
        src = {"file": "/top.txt", "nested": "/dir/report.txt", "folder": "/dir"}[obj]
        head, leaf = src.rsplit("/", 1)
        dst = {"case": head + "/" + leaf.swapcase(), "rename": head + "/renamed", "move": "/other/" + leaf}[how]
        if not rec.user(side, "rename", src, dst):
            return []
        run.restart(variant, fresh_pos)
        if not run.quiesce():
            return [("hard", None, run.summary({"failure": "engine did not go quiet within the step cap after the restart"}), None)]
        tl, tr = w.tree(0), w.tree(1)
        sm = run.summary({"family": "offline-rename", "renamed": [src, dst]})
        moved = run.transfers[run.stops[-1]["transfer_at"]:]
        return [("line", "c01 | %s | %s" % (enc_tree(tl), enc_tree(tr)), sm, (fl, storage, "offline-rename", side, obj, how, variant, fresh_pos)),
                ("line", "c02 | %s | %s | %s" % (" ".join(rec.ledger), enc_tree(tl), enc_tree(tr)), sm, None),
                ("line", "c06a | %s | %s" % (enc_tree(tl), enc_tree(tr)), sm, None),
                ("line", "c06r | %s | %s" % (" ".join(str(x) for x in sorted(run.stops[-1]["same"].values())), " ".join(map(str, moved))), sm, None)]
    finally:
        run.close()


def case_fault_after_walk(fl, storage, rng, side, variant, cut, offline, fresh_pos):
    """corner: the cursor of `side` is lost at the restart, offline changes exist that only the walk can find, and the FIRST intake
    step of that side after the restart is cut short right after the walk - the provider's event poll raises a temporary /
    disconnected error, or the final-stop flag is seen by the event loop - and the engine is stopped at that step boundary, before any
    other manager step could write the state back.  After the second restart the offline changes must still reach the other side:
    either the walk's findings are in storage or the walk is done again."""
    run = RestartRun(fl, storage, rng)
    from cloudsync.exceptions import CloudTemporaryError, CloudDisconnectedError       # (after import_repo() ran)
    rec, w = run.rec, run.w
    try:
        rec.user(side, "create", "/keep", tag=rec.fresh())
        rec.user(side, "mkdir", "/dir")
        if not run.quiesce():
            return [("hard", None, run.summary({"failure": "base did not go quiet"}), None)]
        run.stop(True)
        for (sd, kind, rel) in offline:
            sd = side if sd == "S" else 1 - side
            if kind == "mkdir":
                rec.user(sd, "mkdir", rel)
            else:
                rec.user(sd, kind, rel, tag=rec.fresh())
        run.restart(variant, fresh_pos)
        em = w.cs.emgrs[side]
        prov = w.provs[side]
        state = {"walked": False, "fired": 0}
        orig_sud = w.cs.state.storage_update_data

        def sud(tag, data):
            r = orig_sud(tag, data)
            if tag == em._walk_tag:
                state["walked"] = True
                if cut == "stopflag":
                    em._Runnable__shutdown = True
                    state["fired"] += 1
            return r
        w.cs.state.storage_update_data = sud
        orig_events = prov.events

        def events():
            if state["walked"] and cut in ("temporary", "disconnected") and not state["fired"]:
                state["fired"] += 1
                raise (CloudTemporaryError if cut == "temporary" else CloudDisconnectedError)("injected right after the walk")
            return orig_events()
        prov.events = events
        try:
            # intake steps of that side only, until its walk has happened and the cut fell (error path: first step resets, second walks)
            for _ in range(4):
                rec.engine("LR"[side])
                if state["fired"]:
                    break
        finally:
            prov.events = orig_events
        run.stop(cut != "stopflag" and rng.random() < 0.5)
        run.restart("intact", fresh_pos)
        if not run.quiesce():
            return [("hard", None, run.summary({"failure": "engine did not go quiet within the step cap after the second restart"}), None)]
        tl, tr = w.tree(0), w.tree(1)
        sm = run.summary({"family": "fault-after-walk", "cut": cut, "cut_fired": state["fired"], "walk_seen": state["walked"]})
        return [("line", "c01 | %s | %s" % (enc_tree(tl, run.fold), enc_tree(tr, run.fold)), sm, (fl, storage, "fault-after-walk", side, variant, cut, tuple(offline), fresh_pos)),
                ("line", "c02 | %s | %s | %s" % (" ".join(rec.ledger), enc_tree(tl), enc_tree(tr)), sm, None),
                ("line", "c06a | %s | %s" % (enc_tree(tl), enc_tree(tr)), sm, None)]
    finally:
        run.close()


FAW_OFFLINE = [[("S", "create", "/offline.txt")],
               [("S", "create", "/dir/x"), ("S", "mkdir", "/newdir"), ("S", "write", "/keep")],
               [("S", "create", "/offline.txt"), ("O", "create", "/other.txt")]]


def case_special_contents(fl, storage, rng, variant, fresh_pos, midsync):
    """corner: an empty file and two files with equal bytes, created while the engine is down (or just before a mid-sync stop);
    contents are not version tags here, so only C01's relation (and no artefacts) is checked"""
    run = RestartRun(fl, storage, rng)
    rec, w = run.rec, run.w
    try:
        rec.user(0, "create", "/keep", tag=rec.fresh())
        if not run.quiesce():
            return [("hard", None, run.summary({"failure": "base did not go quiet"}), None)]

        def raw(side, path, data):
            err = w.user(side, "create", w.roots[side] + path, data)
            rec.trace.append("U%d:create:%s:%r" % (side, path, data))
            return err
        if midsync:
            raw(0, "/e", b"")
            raw(1, "/x", b"same")
            run.steps(rng.randint(1, 5))
            run.stop(rng.random() < 0.5)
            raw(1, "/y", b"same")
        else:
            run.stop(True)
            raw(0, "/e", b"")
            raw(1, "/x", b"same")
            raw(1, "/y", b"same")
            raw(0, "/z", b"same")
        run.restart(variant, fresh_pos)
        if not run.quiesce():
            return [("hard", None, run.summary({"failure": "engine did not go quiet within the step cap after the restart"}), None)]
        tl, tr = w.tree(0), w.tree(1)
        sm = run.summary({"family": "special-contents"})
        return [("line", "c01 | %s | %s" % (enc_tree(tl, run.fold), enc_tree(tr, run.fold)), sm, (fl, storage, "special", variant, fresh_pos, midsync)),
                ("line", "c06a | %s | %s" % (enc_tree(tl), enc_tree(tr)), sm, None)]
    finally:
        run.close()


ENUM_HISTORIES = [
    [(0, "create", "/a"), (0, "create", "/b"), (0, "write", "/a")],
    [(1, "create", "/a"), (1, "mkdir", "/d"), (1, "create", "/d/x")],
    [(0, "create", "/a"), (1, "create", "/b"), (0, "write", "/a"), (1, "delete", "/b")],
    [(0, "mkdir", "/d"), (0, "create", "/d/a"), (0, "create", "/e")],
]
ENUM_OFFLINE = [[], [(0, "create", "/off0")], [(1, "create", "/off1")], [(0, "create", "/off0"), (1, "create", "/off1")]]


def case_enumerated(fl, storage, rng, hist, stop_at, offline, variant, fresh_pos, graceful):
    """E: a fixed history applied at once, a fixed round-robin schedule, the stop after exactly `stop_at` engine steps"""
    run = RestartRun(fl, storage, rng)
    rec, w = run.rec, run.w
    try:
        run.quiesce()
        for (sd, kind, rel) in hist:
            if kind in ("create", "write"):
                rec.user(sd, kind, rel, tag=rec.fresh())
            else:
                rec.user(sd, kind, rel)
        for k in range(stop_at):
            rec.engine("LRS"[k % 3])
        run.stop(graceful)
        for (sd, kind, rel) in offline:
            rec.user(sd, kind, rel, tag=rec.fresh())
        run.restart(variant, fresh_pos)
        if not run.quiesce():
            return [("hard", None, run.summary({"failure": "engine did not go quiet within the step cap after the restart"}), None)]
        tl, tr = w.tree(0), w.tree(1)
        sm = run.summary({"family": "enumerated", "stop_after_steps": stop_at})
        out = [("line", "c01 | %s | %s" % (enc_tree(tl, run.fold), enc_tree(tr, run.fold)), sm, (fl, storage, "enum", tuple(hist), stop_at, tuple(offline), variant, fresh_pos)),
               ("line", "c02 | %s | %s | %s" % (" ".join(rec.ledger), enc_tree(tl), enc_tree(tr)), sm, None),
               ("line", "c06a | %s | %s" % (enc_tree(tl), enc_tree(tr)), sm, None)]
        out += [("line", ln, sm, None) for ln in run.retransfer_lines()]
        return out
    finally:
        run.close()


ID_STABLE = ["oid-oid", "oid-oid-ci", "oidci-oidcs", "oidcs-oidci"]      # no path-id side (disjoint family: measured reliable only there)
FAMILIES = {"settled": (case_settled, ALL), "files": (case_files, ALL), "onesided": (case_onesided, OID_LOCAL), "disjoint": (case_disjoint, ID_STABLE)}


def engine_cases(tier, seed, families=None, n=None):
    """yields (kind, line, summary, key) for the generic skeleton"""
    n = n if n is not None else (15 if tier == "quick" else 250)
    fams = families or list(FAMILIES)
    for i in range(n):
        for fam in fams:
            fn, flavours = FAMILIES[fam]
            for j, fl in enumerate(flavours):
                storage = "sqlite" if (i + j) % 3 == 0 else "mock"
                rng = random.Random((seed * 1000003) ^ hash_str("c06-%s-%d-%s" % (fam, i, fl)))
                for item in fn(fl, storage, rng):
                    yield item
    # corners, enumerated
    rng = random.Random((seed * 1000003) ^ hash_str("c06-corners"))
    flavours = list(ALL)
    zero_variants = ["intact", "delwalk0", "delcur1", "expired0"]
    for j, fl in enumerate(flavours):
        for k, variant in enumerate(zero_variants if tier != "quick" else [zero_variants[(seed + j) % 4], "intact"]):
            for fresh in (True, False) if tier != "quick" else (True,):
                for both in (True, False) if tier != "quick" else (True,):
                    storage = "sqlite" if (j + k) % 2 else "mock"
                    for item in case_cursor_zero(fl, storage, rng, variant, fresh, both):
                        yield item
    for j, fl in enumerate(flavours):
        combos = [(sd, kind, g, v) for sd in (0, 1) for kind in ("write", "create") for g in (True, False) for v in ("intact", "delcur%d" % sd)]
        if tier == "quick":
            combos = [combos[(seed + j + t * 5) % len(combos)] for t in range(2)]
        for k, (sd, kind, g, v) in enumerate(combos):
            storage = "sqlite" if (j + k) % 2 else "mock"
            for item in case_tempfile(fl, storage, rng, sd, kind, g, v):
                yield item
    rc = [(sd, kind, v % sd, f) for sd in (0, 1) for kind in ("dir", "same", "new")
          for v in ("corrupt%d", "delcur%d", "expired%d", "intact%.0d", "delwalk%d") for f in (True, False)]
    for j, fl in enumerate(flavours):
        combos = rc if tier != "quick" else [rc[(seed * 13 + j * 7 + t * 17) % len(rc)] for t in range(4)]
        for k, (sd, kind, v, f) in enumerate(combos):
            v = "intact" if v.startswith("intact") else v
            storage = "sqlite" if (j + k) % 2 else "mock"
            for item in case_recreate(fl, storage, rng, sd, kind, v, f):
                yield item
    for j, fl in enumerate(flavours):
        orn = [(sd, obj, how, v % sd, f) for sd in (0, 1) if not FLAVOURS[fl][sd][0]
               for obj in ("file", "nested", "folder") for how in (("case", "rename", "move") if not FLAVOURS[fl][sd][1] else ("rename", "move"))
               for v in ("corrupt%d", "delcur%d", "expired%d", "intact%.0d") for f in (True, False)]
        combos = orn if tier != "quick" else [orn[(seed * 13 + j * 7 + t * 19) % len(orn)] for t in range(6)] if orn else []
        for k, (sd, obj, how, v, f) in enumerate(combos):
            v = "intact" if v.startswith("intact") else v
            for storage in (("mock", "sqlite") if tier != "quick" else ("sqlite" if (j + k) % 2 else "mock",)):
                for item in case_offline_rename(fl, storage, rng, sd, obj, how, v, f, graceful=(k % 3 != 0)):
                    yield item
    faw = [(sd, v % sd, cut, off, f) for sd in (0, 1) for v in ("delcur%d", "corrupt%d", "expired%d")
           for cut in ("temporary", "disconnected", "stopflag") for off in range(len(FAW_OFFLINE)) for f in (True, False)]
    for j, fl in enumerate(flavours):
        combos = faw if tier != "quick" else [faw[(seed * 11 + j * 13 + t * 23) % len(faw)] for t in range(6)]
        for k, (sd, v, cut, off, f) in enumerate(combos):
            for storage in (("mock", "sqlite") if tier != "quick" else ("sqlite" if (j + k) % 2 else "mock",)):
                for item in case_fault_after_walk(fl, storage, rng, sd, v, cut, FAW_OFFLINE[off], f):
                    yield item
    sp = [(v, f, m) for v in ("intact", "delcur0", "delcur1", "corrupt0", "corrupt1", "delwalk1") for f in (True, False) for m in (True, False)]
    for j, fl in enumerate(flavours):
        combos = sp if tier != "quick" else [sp[(seed * 7 + j * 5 + t * 11) % len(sp)] for t in range(3)]
        for k, (v, f, m) in enumerate(combos):
            storage = "sqlite" if (j + k) % 2 else "mock"
            for item in case_special_contents(fl, storage, rng, v, f, m):
                yield item
    enum_variants = ["intact", "delcur0", "delcur1", "corrupt0", "corrupt1", "expired1"]
    for j, fl in enumerate(flavours):
        for h, hist in enumerate(ENUM_HISTORIES):
            positions = list(range(0, 13))
            if tier == "quick":
                positions = sorted({(seed + j + h) % 13, (seed * 3 + j + h + 5) % 13, (seed * 5 + j * 2 + h + 9) % 13, (seed * 7 + j * 3 + h * 2 + 2) % 13})
            for pos in positions:
                offs = ENUM_OFFLINE if tier != "quick" else [ENUM_OFFLINE[(seed + pos) % 4]]
                for o, off in enumerate(offs):
                    vs = enum_variants if tier != "quick" else [enum_variants[(seed + pos + j) % 6]]
                    for v in vs:
                        storage = "sqlite" if (j + pos + o) % 3 == 0 else "mock"
                        for item in case_enumerated(fl, storage, rng, hist, pos, off, v, True, (pos + o) % 2 == 0):
                            yield item


def calibrate(nruns, fams, seed0=100):
    """measures the pinned engine: failures per (family, flavour)"""
    import collections
    stats = collections.Counter()
    fails = collections.defaultdict(list)
    lines, meta = [], []
    for i in range(nruns):
        for fam in fams:
            fn, flavours = FAMILIES[fam]
            for j, fl in enumerate(flavours):
                storage = "sqlite" if (i + j) % 3 == 0 else "mock"
                rng = random.Random(((seed0 + i) * 1000003) ^ hash_str("cal-%s-%d-%s" % (fam, i, fl)))
                try:
                    items = fn(fl, storage, rng)
                except HarnessError as e:
                    stats[(fam, fl, "harness")] += 1
                    continue
                stats[(fam, fl, "runs")] += 1
                for kind, line, summ, key in items:
                    if kind == "line":
                        lines.append(line)
                        meta.append((fam, fl, summ))
                    elif kind == "filtered":
                        stats[(fam, fl, "filtered")] += 1
                    else:
                        stats[(fam, fl, "hard")] += 1
                        fails[(fam, fl)].append(summ)
    verdicts = run_driver("monc06", lines) if lines else []
    for v, (fam, fl, summ) in zip(verdicts, meta):
        if v != "ok":
            stats[(fam, fl, "reject")] += 1
            summ = dict(summ)
            summ["verdict"] = v
            fails[(fam, fl)].append(summ)
    return stats, fails



# =====================================================================================================================
# known findings (exact replays on the real code)
# =====================================================================================================================

KF_REJECTED = "need-walk-not-persisted/rejected-cursor"
KF_MISSING = "need-walk-not-persisted/missing-cursor-stop-in-walk"
KF_DEDUP = "walk-dedup-ignores-existence"
KF_ROWID = "sqlite-rowid-reuse-after-trash-delete"
KF_DIRTY = "dirty-left-after-failed-storage-write"
KF_DIRTY_OPS = ["start", "setroot", "do", "USER", "USER", "do", "stop", "USER", "USER", "delcursor", "PROVLATEST", "start",
                "dofault storage 3", "do", "stop"]


def replay_dirty_left():
    """EventManager over MockStorage: first run, two user operations, stop, two more, cursor row deleted, new provider object, new
    engine; its first do() walks, and the 4th storage write of that do() (the row of the second walk finding) fails; the next do()
    walks again (nothing "changed" for the entries already in memory), writes the walk marker while the entry whose write failed is
    still only in the dirty set.  True = the Lean monitor refuses the recorded write order at the marker write."""
    lines, _obs, tr = run_em_sequence("p", "mock", KF_DIRTY_OPS, random.Random(0))
    v = run_driver("durable", [" ".join(tr)])[0] if tr else "ok"
    return (v.startswith("reject") and v.endswith("order")), {"operations": lines, "write_order_trace": tr, "monitor_verdict": v}


KF_TEXT = {
    KF_DIRTY: "after a storage write fails inside an intake step (exception out of storage_commit), the entries that were not written stay in "
              "the dirty set and nothing writes them back before the next persistent write: the following do() writes the walk marker "
              "(or saves the cursor) with the dirty set non-empty, so a stop right then loses the finding while storage says walked / "
              "cursor advanced (EventManager level, found by the write-order monitor; needs a failing storage backend)",
    KF_DEDUP: "the walk de-duplication (event.py:302-307) compares only hash and path with the known entry, not whether the entry is known "
              "as deleted: on a path-id side, an object deleted (and synced) and then re-created at the same path with the same content "
              "(or a folder) is ignored by the walk that follows a lost cursor and never reaches the other side",
    KF_ROWID: "SyncState._storage_update deletes the row of a trashed entry but keeps its storage_id; SqliteStorage reuses row ids, a later "
              "entry gets the same id, the stale trashed entry deletes that row on its next commit, and every later commit of the live "
              "entry raises ValueError: after a restart (the trashed entry is loaded from storage) the engine never goes quiet",
    KF_REJECTED: "EventManager.do's CloudCursorError path persists the reset cursor while need_walk lives only in memory and the "
                 "walk marker of the first run is still stored: synced pair, engine down, file created remotely, stored remote cursor "
                 "made unacceptable, one remote intake step, restart -> need_walk False, engine goes quiet, the offline file never syncs",
    KF_MISSING: "same defect through _do_first_init: cursor row deleted, new provider object (position = now), the first do() "
                "persists that position and is stopped for good inside the walk loop; the marker of the first run is still stored, so "
                "the next engine does not walk and the offline file never syncs",
}


def replay_rejected(storage):
    """flavour oid-oid; L: create /a; quiesce; STOP; R: create /b; remote cursor row := 'garbage'; START; one R step; STOP;
    START; quiesce.  True = the defect shows (b never reaches the left side)."""
    run = RestartRun("oid-oid", storage, random.Random(1))
    rec, w = run.rec, run.w
    try:
        rec.user(0, "create", "/a", tag=1)
        if not rec.quiesce():
            return None, run.summary()
        w.drop_engine()
        rec.user(1, "create", "/b", tag=2)
        st = w.make_storage()
        for eid in st.read_all(run.tags[1][0]):
            st.update(run.tags[1][0], "garbage", eid)
        w.new_engine()
        rec.engine("R")
        pending = run.walk_pending()
        w.drop_engine()
        w.new_engine()
        nw = w.cs.emgrs[1].need_walk
        q = rec.quiesce()
        lost = "/b" not in w.tree(0)
        return (lost or not q), run.summary({"need_walk_after_restart": nw, "walk_pending_at_stop": pending, "quiet": q})
    finally:
        run.close()


def replay_missing(storage):
    """flavour oid-oid; L: create /a; quiesce; STOP; R: create /b; remote cursor row deleted; new provider object (position = now);
    START; one R step during which a final stop is requested after the first walk item; STOP; START; quiesce."""
    run = RestartRun("oid-oid", storage, random.Random(1))
    rec, w = run.rec, run.w
    try:
        rec.user(0, "create", "/a", tag=1)
        if not rec.quiesce():
            return None, run.summary()
        w.drop_engine()
        rec.user(1, "create", "/b", tag=2)
        st = w.make_storage()
        for eid in st.read_all(run.tags[1][0]):
            st.delete(run.tags[1][0], eid)
        w.provs[1]._cursor = w.provs[1]._latest_cursor
        w.new_engine()
        em = w.cs.emgrs[1]
        orig = em._process_event

        def pe(event, from_walk=False):
            r = orig(event, from_walk=from_walk)
            em._Runnable__shutdown = True
            return r
        em._process_event = pe
        rec.engine("R")
        w.drop_engine()
        w.new_engine()
        nw = w.cs.emgrs[1].need_walk
        q = rec.quiesce()
        lost = "/b" not in w.tree(0)
        return (lost or not q), run.summary({"need_walk_after_restart": nw, "quiet": q})
    finally:
        run.close()


def replay_dedup(storage):
    """flavour path-oidf; L: mkdir /a; quiesce; L: delete /a; quiesce; STOP; L: mkdir /a; local cursor row := 'garbage';
    new provider objects; START; quiesce.  True = /a never reaches the right side."""
    run = RestartRun("path-oidf", storage, random.Random(1))
    rec, w = run.rec, run.w
    rec.avoid_reuse = False
    try:
        rec.user(0, "mkdir", "/a")
        q1 = rec.quiesce()
        rec.user(0, "delete", "/a")
        q2 = rec.quiesce()
        run.stop(True)
        rec.user(0, "mkdir", "/a")
        run.restart("corrupt0", True)
        q3 = rec.quiesce()
        return (not (q1 and q2 and q3) or "/a" not in w.tree(1)), run.summary()
    finally:
        run.close()


def rowid_signature(w):
    """the call-site + guard identification of KF_ROWID: a ValueError 'id N doesn't exist' escaping an engine step"""
    return any("ValueError" in e and "doesn't exist" in e for _which, e in w.escaped)


def replay_rowid(storage):
    """flavour path-oidf, SqliteStorage; L: create /d; q; L: create /b; q; R: delete /b; q; L: write /d; q; STOP; START (intact);
    q; L: rename /d -> /b; q; L: create /d; steps.  True = ValueError escapes the steps and the engine never goes quiet."""
    run = RestartRun("path-oidf", "sqlite", random.Random(5))
    rec, w = run.rec, run.w
    rec.avoid_reuse = False
    try:
        rec.user(0, "create", "/d", tag=1)
        rec.quiesce()
        rec.user(0, "create", "/b", tag=2)
        rec.quiesce()
        rec.user(1, "delete", "/b")
        rec.quiesce()
        rec.user(0, "write", "/d", tag=3)
        rec.quiesce()
        run.stop(True)
        run.restart("intact", False)
        rec.quiesce()
        rec.user(0, "rename", "/d", "/b")
        rec.quiesce()
        rec.user(0, "create", "/d", tag=4)
        q = rec.quiesce(cap=90)
        return (not q and rowid_signature(w)), run.summary({"escaped": w.escaped[-2:]})
    finally:
        run.close()


def em_replay_witness():
    """the Lean regression witnesses `formerRejected` / `formerMissing` (the former counterexamples), do() by do(), on the real
    EventManager and on the model: both must agree, and the last do() must walk ("lost" = it did not)"""
    seqs = {KF_REJECTED: ["start", "setroot", "do", "stop", "USER1", "corrupt", "start", "do", "stop", "start", "do"],
            KF_MISSING: ["start", "setroot", "do", "stop", "USER1", "delcursor", "provcur 1", "start", "docrash 2", "start", "do"]}
    out = {}
    for ident, ops in seqs.items():
        w = EmWorld("p", "mock")
        try:
            lines = ["reset p 1 -1 %d F" % w.objs()]
            obs = [w.observe()]
            for op in ops:
                if op == "USER1":
                    w.names += 1
                    w.prov.create("%s/f%d" % (w.ROOT, w.names), io.BytesIO(b"c"))
                    op = "user %d" % w.objs()
                else:
                    w.apply(op)
                lines.append(op)
                obs.append(w.observe())
            model = run_driver("event", lines)
            last = obs[-1]
            out[ident] = {"agree": obs == model, "lost": "w" not in last.split("fresh=")[1].split()[0].split(","),
                          "lines": lines, "implementation": obs[-1], "model": model[-1]}
        finally:
            w.close()
    return out


def replay_known(res):
    opens, fixed = load_known_findings(PID)
    wit = em_replay_witness()
    for ident, fn in ((KF_REJECTED, replay_rejected), (KF_MISSING, replay_missing), (KF_DEDUP, replay_dedup), (KF_ROWID, replay_rowid),
                      (KF_DIRTY, None)):
        hits = []
        if ident == KF_DIRTY:
            hits.append(replay_dirty_left())
        else:
            for storage in ("mock", "sqlite") if ident != KF_ROWID else ("sqlite",):
                hit, summ = fn(storage)
                hits.append((hit, summ))
        if ident not in wit:
            wit[ident] = {"agree": True, "lost": all(h for h, _ in hits)}
        shows = all(h for h, _ in hits) and wit[ident]["lost"]
        if ident in opens:
            if shows:
                res.known.append("%s :: %s" % (ident, opens[ident]))
            else:
                res.notes.append("known finding %s no longer reproduces (stale): engine %s, EventManager %s" %
                                 (ident, [h for h, _ in hits], wit[ident]["lost"]))
        elif ident in fixed:
            if any(h for h, _ in hits) or wit[ident]["lost"]:
                s = dict(hits[0][1])
                s.update({"property": PID, "kind": "regression of fixed finding", "id": ident})
                res.violation(s)
        elif shows:
            s = dict(hits[0][1])
            s.update({"property": PID, "kind": "unlisted defect reproduced by its exact replay", "id": ident, "what": KF_TEXT[ident]})
            res.violation(s)
        if not wit[ident]["agree"]:
            res.notes.append("witness %s: model and implementation disagree: %r" % (ident, wit[ident]))
    return wit


# =====================================================================================================================
# step 4: the property's own statements evaluated on the implementation (EventManager level)
# =====================================================================================================================

def em_oracle(cfg, storage_kind, ops, rng):
    """Runs a sequence on the real EventManager and evaluates C06's statements directly:
       (a) after a (re)start that validated its root: no stored cursor => need_walk;
       (b) a do() that met a rejected cursor leaves need_walk set;
       (c) at the end, after two more undisturbed do() calls of a running engine, every feed event is reflected: it was
           delivered to state.update since the last forget, or a walk completed after it was emitted
       - for runs in which no stop fell into the window of the known finding.  Returns a failure dict or None."""
    w = EmWorld(cfg, storage_kind)
    try:
        delivered = set()
        walk_cover = -2
        in_window_stop = False
        lines = []

        def window():
            em = w.em
            if em is None or not em.need_walk or not w.wtag:
                return False
            st = w.storage
            crow = list(st.read_all(w.ctag).values())
            return bool(st.read_all(w.wtag)) and bool(crow) and isinstance(crow[0], int)

        def absorb():
            nonlocal walk_cover
            for x in w.updates:
                delivered.add(int(x))
            w.updates = []
        marks = []
        for op in ops:
            if op == "USER":
                ls = w.user(rng)
                lines += ls
                continue
            if op == "PROVCUR":
                op = "provcur %d" % rng.choice([-1, w.prov._latest_cursor, rng.randint(-1, max(-1, w.prov._latest_cursor))])
            if op == "PROVLATEST":
                op = "provcur %d" % w.prov._latest_cursor
            lines.append(op)
            t = op.split()[0]
            if t in ("stop", "dostop", "docrash") and w.em is not None:
                if t == "stop" and window():
                    in_window_stop = True
            had_walk_marker_time = None
            before_cursor_row = None
            if t in ("do", "dostop", "docrash") and w.em is not None:
                latest_before = w.prov._latest_cursor
                objs_before = w.objs()
                walked_before = w.fresh.count("w")
                before_marker = list(w.storage.read_all(w.wtag).values()) if w.wtag else []
                em = w.em
                first = em._first_do
                nw_before = em.need_walk
                memcur = em.cursor
                w.apply(op)
                absorb()
                stt2 = w.make_storage() if w.em is None else w.storage
                after_marker = list(stt2.read_all(w.wtag).values()) if w.wtag else []
                # a walk has completed in this do() iff the marker was (re)written AND every object under the root was offered
                if after_marker and after_marker != before_marker and w.fresh.count("w") - walked_before >= objs_before:
                    walk_cover = max(walk_cover, latest_before)
                if t != "do":
                    # the stop fell somewhere inside this do(): conservatively treat it as a window stop if the walk was due
                    crow = list(stt2.read_all(w.ctag).values())
                    # (the known finding needs a marker left by an EARLIER run; a marker written by this very do() is not it)
                    if before_marker and after_marker and crow and isinstance(crow[0], int) and (first or nw_before):
                        in_window_stop = True
                elif w.em is not None and first and em._root_validated and memcur is not None:
                    rejected = not isinstance(memcur, int) or memcur < w.prov._min_valid
                    if rejected and not em.need_walk:
                        return {"failure": "a do() met a rejected cursor and did not leave need_walk set", "sequence": lines}
            elif t == "forget":
                w.apply(op)
                delivered.clear()
                walk_cover = -2
            else:
                w.apply(op)
                if t == "start" and w.em is not None and w.em._root_validated and cfg != "n":
                    crow = w.storage.read_all(w.ctag)
                    if not crow and not w.em.need_walk:
                        return {"failure": "new EventManager found no stored cursor and did not set need_walk", "sequence": lines}
        if cfg == "n":
            return None
        if w.em is None:
            w.apply("start")
            lines.append("start")
        w.apply("setroot")
        lines.append("setroot")
        for _ in range(3):
            latest_before = w.prov._latest_cursor
            objs_before = w.objs()
            walked_before = w.fresh.count("w")
            before_marker = list(w.storage.read_all(w.wtag).values())
            w.apply("do")
            lines.append("do")
            absorb()
            after_marker = list(w.storage.read_all(w.wtag).values())
            if after_marker and after_marker != before_marker and w.fresh.count("w") - walked_before >= objs_before:
                walk_cover = max(walk_cover, latest_before)
        if w.errors:
            return None
        missing = [i for i in range(0, w.prov._latest_cursor + 1) if i not in delivered and i > walk_cover]
        if missing:
            return {"failure": "feed events %r were never delivered to state.update and no walk completed after them" % missing[:5],
                    "sequence": lines, "stored_cursor": w.observe()}
        return None
    finally:
        w.close()


def em_search(seed, tier):
    rng = rng_for(seed, "c06search")
    for i, (cfg, ops) in enumerate(em_enumerated("thorough", seed)):
        hit = em_oracle(cfg, "mock" if i % 2 else "sqlite", ops, rng)
        if hit:
            hit["cfg"] = cfg
            return hit
    for i in range(400 if tier == "quick" else 6000):
        cfg, ops = gen_em_sequence(rng, rng.randint(4, 24))
        hit = em_oracle(cfg, "mock" if i % 3 else "sqlite", ops, rng)
        if hit:
            hit["cfg"] = cfg
            return hit
    return None


# =====================================================================================================================
# main
# =====================================================================================================================

def run(res, tier, seed, proof_broken, replay):
    import collections
    # 2. known findings on the real code
    wit = replay_known(res)
    # 3a. model correspondence
    lines, obs, model, dis = em_correspondence(seed, tier)
    n_traces, tok_hist, d_rejects = durable_check(seed, tier)
    opens_now, _f = load_known_findings(PID)
    d_known = [r for r in d_rejects if KF_DIRTY in opens_now and any(x.startswith("dofault storage") for x in r["operations"])]
    d_rejects = [r for r in d_rejects if r not in d_known]
    op_hist = collections.Counter(ln.split()[0] for ln in lines)
    shape = collections.Counter()
    for o in obs:
        if o:
            f = dict(x.split("=", 1) for x in o.split() if "=" in x)
            shape["cursor:" + ("int" if f["cur"].lstrip("-").isdigit() else f["cur"])] += 1
            shape["need_walk:" + f["nw"]] += 1
            shape["walked:" + f["walked"]] += 1
            if f["cur"] == "0":
                shape["cursor==0"] += 1
    distinct_a = len({(a, b) for a, b in zip(lines, obs) if b})
    # 3b. trace refinement on the whole engine
    e_lines, e_sums, e_keys, hard = [], [], [], []
    fam_hist = collections.Counter()
    for kind, line, summ, key in engine_cases(tier, seed):
        if kind == "line":
            e_lines.append(line)
            e_sums.append(summ)
            e_keys.append(key)
            fam_hist["%s/%s" % (summ.get("family"), line.split()[0])] += 1
        elif kind == "filtered":
            fam_hist["%s/filtered-by-construction" % summ.get("family")] += 1
        else:
            hard.append(summ)
    verdicts = run_driver("monc06", e_lines) if e_lines else []
    rejects = [(v, sm) for v, sm in zip(verdicts, e_sums) if v != "ok"]
    variants = collections.Counter(ev.split(":", 1)[1] for sm in e_sums for ev in sm.get("events", []) if ev.startswith("START"))
    storages = collections.Counter(sm.get("storage") for sm, k in zip(e_sums, e_keys) if k)
    res.coverage.update({
        "evaluations": len(lines) + len(e_lines) + len(hard), "programs": len([1 for ln in lines if ln.startswith("reset")]) + len([k for k in e_keys if k]),
        "distinct_nontrivial": distinct_a + len({k for k in e_keys if k}),
        "rule": "(A) distinct (operation line, observed state) pairs of the EventManager correspondence, observation = stored cursor, walk marker, "
                "need_walk, validated, first_do, in-memory cursor, provider position, queue, deliveries since start; "
                "(B) distinct engine runs by (flavour, storage, user operations, stop/restart events) that reached quiescence",
        "samples": [{"em_sequence": lines[:12], "em_observations": obs[:12]},
                    {"engine_monitor_line": e_lines[0] if e_lines else None, "engine_run": e_sums[0] if e_sums else None}],
        "disagreements_checked": len(dis) + len(rejects) + len(hard),
        "em_operation_histogram": dict(op_hist), "em_state_histogram": dict(shape),
        "engine_obligations_by_family": dict(fam_hist), "engine_restart_variants": dict(variants), "engine_storage": dict(storages),
        "engine_runs": len([k for k in e_keys if k]), "traces_validated_against_impl": len(e_lines),
        "stops_with_walk_pending": sum(sm.get("stops_with_walk_pending", 0) for sm, k in zip(e_sums, e_keys) if k),
        "renames_in_lost_window": sum(sm.get("renames_in_lost_window", 0) for sm, k in zip(e_sums, e_keys) if k),
        "case_only_renames_in_lost_window": sum(sm.get("case_only_renames_in_lost_window", 0) for sm, k in zip(e_sums, e_keys) if k),
        "witness_replays": {k: {"agree": v["agree"], "lost": v["lost"]} for k, v in wit.items()},
        "write_order_traces_checked": n_traces, "write_order_token_histogram": tok_hist,
        "write_order_known_instances": {KF_DIRTY: len(d_known)},
        "fingerprints": fingerprints(FP_SPEC),
    })
    res.assumptions += [
        "step-atomic engine semantics for the engine-level runs: user operations and stops fall between engine steps (the EventManager model and its "
        "correspondence go below that: a stop between any two storage writes, and inside the walk / event loops)",
        "harness determinisation (sequential ids, virtual clock, insertion-ordered sets) selects one admissible behaviour of the real program",
        "engine families/flavours restricted to those measured reliable on the pinned engine; after a restart that lost a cursor only creations, "
        "modifications and - on id-style sides - renames / moves / case-only renames are generated until that side has reset its cursor and walked "
        "(a walk sees an id at a new path; deletions stay excluded: the property promises nothing about them then)",
        "stops are placed anywhere between engine steps, also while a walk is still pending (`stops_with_walk_pending` in the coverage): the "
        "window of the former findings need-walk-not-persisted/* is closed by the repair and no longer avoided",
        "not modelled in Event.lean: reconnect/token/temporary errors, id-less events, root-missing detection, entry contents (walk de-duplication)",
    ]
    broken = list(proof_broken)
    for d in dis[:3]:
        broken.append("correspondence EventManager/model: %r" % (d,))
    for r in d_rejects[:3]:
        r = dict(r)
        r.update({"property": PID, "kind": "write order of the real EventManager refused by the durable-coverage monitor "
                                          "(marker / cursor written while findings are only in the dirty set)"})
        res.violation(r)
    for v, sm in rejects[:3]:
        sm = dict(sm)
        sm.update({"monitor_verdict": v, "property": PID})
        res.violation(sm)
    opens, _fixed = load_known_findings(PID)
    known_instances = [sm for sm in hard if sm.get("signature") == KF_ROWID and KF_ROWID in opens and sm.get("storage") == "sqlite"]
    hard = [sm for sm in hard if sm not in known_instances]
    res.coverage["known_finding_instances_met"] = {KF_ROWID: len(known_instances)}
    for sm in hard[:3]:
        sm = dict(sm)
        sm["property"] = PID
        res.violation(sm)
    if broken and not rejects and not hard and not d_rejects:
        hit = em_search(seed, tier)
        if hit:
            res.violation({"property": PID, "kind": "C06 statement fails on the real EventManager", "failing": hit, "broken": broken[:3]})
        else:
            res.violation({"property": PID, "kind": "proof obligation or correspondence no longer checks", "broken": broken[:3],
                           "first_disagreements": dis[:2]}, no_input=True)


if __name__ == "__main__":
    if len(sys.argv) > 1 and sys.argv[1] == "emcal":
        import time as _t
        t0 = _t.time()
        for sd in range(int(sys.argv[2])):
            lines, obs, model, dis = em_correspondence(sd, "quick")
            print(sd, len(lines), "lines", len(dis), "disagreements", round(_t.time() - t0, 1))
            for d in dis[:2]:
                print(json.dumps(d, indent=1))
    else:
        sys.path.insert(0, os.path.join(VERIF, "tools"))
        import gen_intake_order
        gen_intake_order.main(REPO, os.path.join(LEAN, "Csverif", "Gen", "IntakeOrder.lean"))      # before the audit builds Props/C06Sites
        standard_main(PID, run)
