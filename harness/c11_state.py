"""C11 — sync-state index integrity.
Correspondence: Lean `CS.State` model vs the real cloudsync.sync.state.SyncState, random and exhaustive-short
sequences of state-level operations (raw event tuples for both id styles, hooked field assignments, update_entry,
split, __setitem__, clear, forget_oid, mark_changed, reload), comparing after every operation a full dump of both
indexes, every entry's fields, the pending set, the dirty set, get_all() order and the exception class.
Search oracle (after a break): `IndexInv` of Props/C11.lean as an executable predicate on the real object."""
import itertools
import os
import sys

sys.path.insert(0, os.path.dirname(os.path.abspath(__file__)))
from common import *  # noqa
from c11lib import Real, SIDES

PID = "C11"
FP_SPEC = {"cloudsync/sync/state.py": [
    "SideState.__setattr__", "SideState._set_exists", "SideState._translate_exists", "SideState._set_mtime", "SideState.clear",
    "SideState.uncorrupt", "SyncEntry.__setattr__", "SyncEntry.__setitem__", "SyncEntry.updated", "SyncEntry.unignore",
    "SyncEntry.punt", "SyncState.__init__", "SyncState.updated", "SyncState._change_path", "SyncState._update_kids",
    "SyncState._change_oid", "SyncState.get_kids", "SyncState.lookup_oid", "SyncState.lookup_path", "SyncState.update_entry",
    "SyncState.mark_changed", "SyncState.update", "SyncState.get_all", "SyncState.split", "SyncState.forget_oid",
    "SyncState.storage_commit"]}

PATHS = ["/a", "/a/b", "/a/b/c", "/b", "/b/a", "/A", "/a/B", "/ab", "/z", "/a/z", "/y", "/a/n", "/a/b/b", "/a/b/c/d"]
WEIRD = ["", "/", "a", "/a/", "\\a\\b", "//a", "/a//b"]
IDS = ["i1", "i2", "i3", "i4"]
FLAVOURS = [(a, b, c, d, pm, im) for a in (False, True) for b in (False, True) for c in (True, False) for d in (True, False)
            for pm in (0, 1) for im in (0, 1, 2)]
ALL_KINDS = ["U"] * 8 + ["T", "P", "P", "O", "O", "C", "C", "I", "R", "X", "H", "SH", "SP", "OT", "SZ", "MT", "UE", "UE", "SPL", "SPL",
                         "SI", "SI", "CL", "MK", "PU", "UI", "CM", "K", "LP", "LO", "FG", "RL"]
CORE_KINDS = [k for k in ALL_KINDS if k not in ("FG", "RL")]
EVENT_KINDS = ["U"] * 10 + ["T", "K", "LP", "LO"]
RENAME_KINDS = ["U"] * 8 + ["I", "I", "SH", "SH", "UI", "O", "T"]     # renames onto discarded / synced entries (update's prior_oid logic)


# ---------------------------------------------------------------- wire
def e_opt(x):
    return "~" if x is None else str(x)


def e_chg(x):
    return "~" if x is None else ("F" if x == "F" else str(x))


def op_line(op):
    k = op[0]
    if k in ("P", "O", "SP"):
        return "%s %d %d %s" % (k, op[1], op[2], enc_str(op[3]))
    if k == "C":
        return "C %d %d %s" % (op[1], op[2], e_chg(op[3]))
    if k in ("X", "OT"):
        return "%s %d %d %s" % (k, op[1], op[2], op[3])
    if k in ("H", "SH", "SZ", "MT"):
        return "%s %d %d %s" % (k, op[1], op[2], e_opt(op[3]))
    if k in ("I", "UI"):
        return "%s %d %s" % (k, op[1], op[2])
    if k == "R":
        return "R %d %d" % (op[1], op[2])
    if k in ("PU", "SPL"):
        return "%s %d" % (k, op[1])
    if k == "T":
        return "T %d" % op[1]
    if k == "U":
        _, side, ot, oid, path, h, ex, prior, size, mtime, acc = op
        return "U %d %s %s %s %s %s %s %s %s %s" % (side, ot, enc_str(oid), enc_str(path), e_opt(h), ex, enc_str(prior), e_opt(size),
                                                   e_opt(mtime), enc_bool(acc))
    if k == "UE":
        _, e, side, oid, path, h, ex, ch, ot, size, mtime, acc = op
        return "UE %d %d %s %s %s %s %s %s %s %s %s" % (e, side, enc_str(oid), enc_str(path), e_opt(h), ex, e_opt(ch), e_opt(ot),
                                                       e_opt(size), e_opt(mtime), enc_bool(acc))
    if k == "SI":
        return "SI %d %d %d %d" % op[1:]
    if k == "FG":
        return "FG %d %s" % (op[1], enc_str(op[2]))
    if k in ("CL", "MK"):
        return "%s %d %d" % (k, op[1], op[2])
    if k in ("CM", "RL"):
        return k
    if k == "K":
        return "K %d %s" % (op[1], enc_str(op[2]))
    if k == "LP":
        return "LP %d %s %s" % (op[1], enc_str(op[2]), enc_bool(op[3]))
    if k == "LO":
        return "LO %d %s" % (op[1], enc_str(op[2]))
    raise HarnessError("bad op %r" % (op,))


def cfg_line(cfg):
    return "reset %s %s %s %s %d %d" % (enc_bool(cfg[0]), enc_bool(cfg[1]), enc_bool(cfg[2]), enc_bool(cfg[3]), cfg[4], cfg[5])


# ---------------------------------------------------------------- generator (state aware: mostly valid references)
def pick_path(rng, weird=0.06):
    return rng.choice(WEIRD) if rng.random() < weird else rng.choice(PATHS)


def gen_op(rng, R, kinds):
    st = R.state
    n = len(R.reg)
    side = rng.randint(0, 1)
    oip = R.cfg[side]

    def ent():
        return rng.randrange(n)

    def some_oid():
        ks = [k for k in st._oids[side].keys() if k is not None]
        if ks and rng.random() < 0.6:
            return rng.choice(ks)
        if oip:
            return pick_path(rng)
        return rng.choice(IDS) if rng.random() > 0.02 else ""
    k = rng.choice(kinds)
    while n == 0 and k not in ("U", "T", "FG", "CM", "RL", "K", "LP", "LO"):
        k = rng.choice(kinds)
    if k == "T":
        return ("T", rng.choice([0, 1000, 1000, 5000]))
    if k == "U":
        oid = some_oid()
        path = (oid if rng.random() < 0.85 else pick_path(rng)) if oip else (pick_path(rng) if rng.random() < 0.8 else None)
        prior = some_oid() if rng.random() < (0.6 if oip else 0.1) else None
        ot = rng.choice("ddfffn") if rng.random() < 0.9 else "n"
        ex = rng.choice(["T", "T", "T", "F", "F", "~", "e", "t"])
        if ot == "n" and rng.random() < 0.9:
            ex = "F"
        return ("U", side, ot, oid, path, rng.choice([None, 0, 1, 2]), ex, prior, rng.choice([None, 3]), rng.choice([None, 7]),
                rng.random() < 0.2)
    if k == "P":
        return ("P", ent(), side, rng.choice([None, pick_path(rng), pick_path(rng), pick_path(rng)]))
    if k == "O":
        return ("O", ent(), side, rng.choice([None, some_oid(), some_oid(), some_oid()]))
    if k == "C":
        return ("C", ent(), side, rng.choice([None, "F", 0, 1, 999000, 1000500]))
    if k == "I":
        return ("I", ent(), rng.choice("nddcti"))
    if k == "R":
        return ("R", ent(), rng.choice([0, 1, 2, -1, 3]))
    if k == "X":
        return ("X", ent(), side, rng.choice(["T", "F", "~", "u", "e", "t", "m", "l", "c"]))
    if k in ("H", "SH"):
        return (k, ent(), side, rng.choice([None, 0, 1, 2]))
    if k == "SP":
        return ("SP", ent(), side, rng.choice([None, pick_path(rng)]))
    if k == "OT":
        return ("OT", ent(), side, rng.choice("dfn"))
    if k == "SZ":
        return ("SZ", ent(), side, rng.choice([None, 5]))
    if k == "MT":
        return ("MT", ent(), side, rng.choice([None, 9]))
    if k == "UE":
        oid = rng.choice([None, some_oid(), some_oid()])
        return ("UE", ent(), side, oid, rng.choice([None, pick_path(rng)]), rng.choice([None, 0, 1, 2]),
                rng.choice(["T", "T", "F", "~", "e", "t"]), rng.choice([None, None, 1000000, 1001000]),
                rng.choice([None, "d", "f", "n"]), rng.choice([None, 3]), rng.choice([None, 7]), rng.random() < 0.2)
    if k == "SPL":
        return ("SPL", ent())
    if k == "SI":
        return ("SI", ent(), side, ent(), side if rng.random() < 0.93 else 1 - side)
    if k == "FG":
        return ("FG", side, some_oid())
    if k in ("CL", "MK"):
        return (k, ent(), side)
    if k == "PU":
        return ("PU", ent())
    if k == "UI":
        return ("UI", ent(), rng.choice("dcn"))
    if k in ("CM", "RL"):
        return (k,)
    if k == "K":
        return ("K", side, pick_path(rng))
    if k == "LP":
        return ("LP", side, rng.choice([None, pick_path(rng)]), rng.random() < 0.5)
    if k == "LO":
        return ("LO", side, some_oid())
    raise HarnessError(k)


def short_alphabet(oip):
    """concrete operations for the exhaustive-short stream (entries 0/1, side 0 mostly)"""
    o1, o2 = ("/a", "/a/b") if oip else ("i1", "i2")
    U = lambda ot, oid, path, prior=None, ex="T": ("U", 0, ot, oid, path, 1, ex, prior, None, None, False)
    return [U("d", o1, "/a"), U("f", o2, "/a/b"), U("d", o1, "/a/b/c"), U("f", o2, "/a", prior=o1), U("n", o1, "/a", ex="F"),
            U("d", o2, "/b", prior=o1), ("U", 1, "f", "r1", "/a", 2, "T", None, None, None, False),
            ("P", 0, 0, "/b"), ("P", 0, 0, None), ("P", 1, 0, "/a"), ("O", 0, 0, o2), ("O", 0, 0, None), ("O", 1, 0, o1), ("O", 0, 1, "r1"),
            ("C", 0, 0, None), ("C", 0, 1, 1), ("C", 1, 0, 5), ("I", 0, "d"), ("I", 0, "c"), ("R", 0, 2), ("X", 0, 0, "t"), ("X", 0, 0, "c"),
            ("H", 0, 0, 2), ("SPL", 0), ("SI", 1, 0, 0, 0), ("SI", 0, 1, 1, 1), ("CL", 0, 0), ("CL", 0, 1), ("MK", 0, 1), ("MK", 1, 0),
            ("UE", 0, 0, o2, "/b", None, "T", 1000000, "f", None, None, False), ("UE", 0, 1, "r2", "/r", 1, "F", None, None, None, None, False),
            ("T", 1000), ("FG", 0, o1), ("RL",), ("CM",), ("K", 0, "/a"), ("LP", 0, "/a", True)]


# ---------------------------------------------------------------- IndexInv on the real object (search oracle)
def index_inv(R, exempt=None):
    """`IndexInv` of Props/C11.lean evaluated on the real SyncState.  Returns the list of failing clause names.
    `exempt` = (entry, side) just forgotten by forget_oid: theorem `forget_inv` exempts it from the found-under-id clauses
    and demands that it is not pending."""
    st = R.state
    bad = []
    for s in SIDES:
        for k, e in st._oids[s].items():
            if k is None:
                bad.append("oid_key_none")
            if e[s]._oid != k:
                bad.append("oid_slot_carries_id")
        for p, b in st._paths[s].items():
            if not p:
                bad.append("path_key_falsy")
            if not b:
                bad.append("empty_bucket")
            for k, e in b.items():
                if e[s]._path != p:
                    bad.append("path_slot_carries_path")
                if e[s]._oid != k:
                    bad.append("path_slot_carries_id")
                if st._oids[s].get(k) is not e:
                    bad.append("path_slot_has_id_slot")
    if getattr(st, "_kids_moving", None):
        bad.append("kids_moving_not_empty")
    cs = list(st._changeset_storage)
    for e in R.reg:
        for s in SIDES:
            if exempt is not None and e is exempt[0] and s == exempt[1]:
                continue
            o, p = e[s]._oid, e[s]._path
            if o is not None and st._oids[s].get(o) is not e:
                bad.append("entry_found_by_id")
            if p and o is not None and st._paths[s].get(p, {}).get(o) is not e:
                bad.append("entry_found_by_path")
        if exempt is not None and e is exempt[0]:
            if any(e is x for x in cs):
                bad.append("forgotten_entry_pending")
            if any(x is e for b in st._paths[exempt[1]].values() for x in b.values()) or any(x is e for x in st._oids[exempt[1]].values()):
                bad.append("forgotten_entry_has_slot")
        elif any(e[s]._changed and e[s]._oid for s in SIDES) and not any(e is x for x in cs):
            bad.append("pending_complete")
    return sorted(set(bad))


def op_guard(R, cfg, op):
    """`OpGuard` of Props/C11.lean on the real state before the operation: `__setitem__` (directly, or through the merge-copy
    branch of `update`) onto a side that is a folder with a path is covered only when that side's ids are not paths"""
    def set_ok(ent, side):
        sd = ent[side]
        leaf = R.OTY_R.get(sd.__dict__.get("_otype"), "?") != "d" or sd._path is None
        return leaf or not cfg[side]
    if op[0] == "SI":
        return set_ok(R.reg[op[1]], op[2])
    if op[0] == "U" and op[7] is not None:
        pe = R.state._oids[op[1]].get(op[7])
        return pe is None or set_ok(pe, 1 - op[1])
    return True


def eval_sequence(R, cfg, ops, events_only=False):
    """replay `ops` on a fresh real state and evaluate the theorems' statement after the last operation
    (`step_inv`/`run_inv`; `forget_inv` + `forget_total` when the last operation is a forget_oid).  None = not applicable."""
    R.reset(cfg)
    bad = []
    for i, op in enumerate(ops):
        exempt = None
        if op[0] == "FG":
            if i != len(ops) - 1:
                return None
            tgt = R.state._oids[op[1]].get(op[2])
            exempt = (tgt, op[1]) if tgt is not None else None
        try:
            if not op_guard(R, cfg, op):
                return None
            status, _ = R.apply(op)
        except Exception:  # a shrunk sequence may reference entries that no longer exist
            return None
        if status == "Recursion":
            return None
        if i == len(ops) - 1:
            bad = index_inv(R, exempt)
            if op[0] == "FG" and status != "ok":
                bad.append("forget_oid_raised_" + status)
            if events_only and status == "ok" and not bad and not any(o[0] == "U" and o[3] == "" for o in ops):
                ra = repo_assert(R)
                if ra:
                    bad = [ra]
    return bad


def repo_assert(R):
    try:
        R.state.assert_index_is_correct()
        return None
    except AssertionError as e:
        return "assert_index_is_correct: %s" % (str(e)[:80],)
    except Exception as e:  # noqa
        return "assert_index_is_correct raised %s" % type(e).__name__


# ---------------------------------------------------------------- running
def run_real(R, cfg, ops_or_gen, lines, reals, meta, stats):
    """execute a sequence on the real object, appending driver lines and the implementation's canonical answers"""
    R.reset(cfg)
    lines.append(cfg_line(cfg))
    reals.append("ok - | " + R.dump())
    start = len(lines) - 1
    meta.append((start, cfg))
    done = []
    for op in ops_or_gen:
        if op is None:
            break
        status, res = R.apply(op)
        done.append(op)
        stats[op[0] + ":" + status] = stats.get(op[0] + ":" + status, 0) + 1
        lines.append(op_line(op))
        if status == "Recursion":
            reals.append("Recursion")
            break
        reals.append("%s %s | %s" % (status, res, R.dump()))
    return done


def gen_sequence(rng, R, kinds, nlen):
    n = rng.randint(2, nlen)
    for _ in range(n):
        yield gen_op(rng, R, kinds)


def compare(lines, reals, model, meta):
    dis = []
    starts = [m[0] for m in meta]
    import bisect
    for i, (r, m) in enumerate(zip(reals, model)):
        if r == "Recursion":
            ok = m.startswith("Recursion ")
        else:
            ok = (r == m)
        if not ok:
            j = starts[bisect.bisect_right(starts, i) - 1]
            dis.append({"sequence": lines[j:i + 1], "implementation": r[:1500], "model": m[:1500]})
            if len(dis) >= 5:
                break
    return dis


KNOWN = {
    # id -> (cfg, ops, predicate description)
}


def U(side, ot, oid, path, prior=None, ex="T", h=None):
    return ("U", side, ot, oid, path, h, ex, prior, None, None, False)


C0 = (False, False, True, True, 0, 0)
# id -> (flavour, operations, what to look at after the last operation); used for `open:` and for `fixed:` entries alike
RECIPES = {
    "path-without-id": (C0, [U(0, "f", "i1", "/a"), ("O", 0, 0, None)], "path_without_id"),
    "pending-flag-without-id": (C0, [U(0, "f", "i1", "/a"), ("C", 0, 1, 5), ("O", 0, 0, None)], "pending_no_id"),
    "setitem-folder-kid-takes-id": ((True, True, True, True, 0, 1),
                                    [U(0, "d", "/a", "/a"), U(0, "f", "/a/x", "/a/x"), U(0, "d", "/b/x", "/b"), ("SI", 0, 0, 2, 0)], "dup_id"),
    # repaired by fix B (direct `_changed = 0` write)
    "changed-hook-mutual-recursion": (C0, [U(0, "f", "i1", "/a"), ("C", 0, 1, 1), ("O", 0, 0, None), ("C", 0, 0, None)], "recursion"),
    "pending-without-flag": (C0, [U(0, "f", "i1", "/a"), ("MK", 0, 1), ("C", 0, 0, None)], "pending_unflagged"),
    # repaired by fix A (forget_oid)
    "pending-holds-forgotten": (C0, [U(0, "f", "i1", "/a"), ("FG", 0, "i1")], "pending_forgotten"),
    "forget-leaves-empty-bucket": (C0, [U(0, "f", "i1", "/a"), ("FG", 0, "i1")], "empty_bucket"),
    "forget-pathless-keyerror": (C0, [U(0, "f", "i1", None), ("FG", 0, "i1")], "keyerror"),
    # repaired by eec8a73 (loader no longer indexes absent sides under None)
    "reload-indexes-absent-side": (C0, [U(0, "f", "i1", "/a"), ("RL",), ("O", 0, 1, "r1")], "stale_none_slot"),
    # repaired by fix C (`_kids_moving` stack in `_update_kids`)
    "kids-mutual-recursion": (C0, [U(0, "d", "e", "/a"), U(0, "d", "f", "/a/b"), U(0, "d", "e", "/a/b/c")], "recursion"),
    # repaired by f72ed8c
    "update-kids-self-recursion": (C0, [U(0, "d", "o", "/a"), U(0, "d", "o", "/a/b")], "not_at_a_b"),
}
FINDINGS = RECIPES


def replay_finding(R, ident):
    """True if the listed defect shows on the real code at exactly this input"""
    cfg, ops, kind = RECIPES[ident]
    R.reset(cfg)
    statuses = [R.apply(op)[0] for op in ops]
    st = R.state
    if kind == "recursion":
        return statuses[-1] == "Recursion"
    if kind == "keyerror":
        return statuses[-1] == "Key"
    if kind == "not_at_a_b":
        e = st.lookup_oid(0, "o") if statuses[-1] == "ok" else None
        return e is None or e[0]._path != "/a/b"
    if statuses[-1] != "ok":
        return False
    e = R.reg[0]
    if kind == "path_without_id":
        return bool(e[0]._path) and e[0]._oid is None
    if kind == "pending_unflagged":
        return e in st._changeset_storage and not e[0]._changed and not e[1]._changed
    if kind == "pending_no_id":
        return e in st._changeset_storage and not any(e[s]._changed and e[s]._oid for s in SIDES)
    if kind == "dup_id":
        return e[0]._oid == "/b/x" and st._oids[0].get("/b/x") is not e and R.reg[1][0]._oid == "/b/x"
    if kind == "pending_forgotten":
        return e in st._changeset_storage and not any(e is x for s in SIDES for x in st._oids[s].values())
    if kind == "empty_bucket":
        return any(not b for b in st._paths[0].values())
    if kind == "stale_none_slot":
        return (None in st._oids[1] or None in st._paths[1]
                or any(x is e and e[1]._oid != k for p, b in st._paths[1].items() for k, x in b.items()))
    raise HarnessError(kind)


def oracle_search(R, seed, tier, opens):
    """the theorems' statements on the implementation: `IndexInv` after every operation of sequences without forget/reload
    (every outcome except RecursionError), `forget_inv`/`forget_total` after a final forget_oid, and the repo's own
    assert_index_is_correct on event-only runs with non-empty ids.  First failing sequence that is not a listed finding."""
    rng = rng_for(seed, "c11search")
    known_seqs = {json.dumps([op_line(o) for o in RECIPES[i][1]]) for i in opens if i in RECIPES}
    budget = 4000 if tier == "quick" else 40000
    for q in range(budget):
        cfg = rng.choice(FLAVOURS)
        events_only = q % 3 == 0
        with_forget = q % 3 == 1
        kinds = EVENT_KINDS if events_only else CORE_KINDS
        R.reset(cfg)
        ops = []
        n = rng.randint(2, 14)
        for j in range(n):
            last_forget = with_forget and j == n - 1
            op = gen_op(rng, R, ["FG"] if last_forget else kinds)
            ops.append(op)
            exempt = None
            if op[0] == "FG":
                tgt = R.state._oids[op[1]].get(op[2])
                exempt = (tgt, op[1]) if tgt is not None else None
            if not op_guard(R, cfg, op):
                break
            status, _ = R.apply(op)
            if status == "Recursion":
                break
            bad = index_inv(R, exempt)
            if op[0] == "FG" and status != "ok":
                bad.append("forget_oid_raised_" + status)
            # the repo's own assert_index_is_correct additionally demands that an entry flagged on a side whose id is the
            # empty string is pending; that is not part of IndexInv (truthy ids only), so it is consulted only on runs
            # whose ids are all non-empty
            if events_only and status == "ok" and not bad and not any(o[0] == "U" and o[3] == "" for o in ops):
                ra = repo_assert(R)
                if ra:
                    bad = [ra]
            if bad:
                ops = shrink(R, cfg, ops, bad[0], events_only)
                if json.dumps([op_line(o) for o in ops]) in known_seqs:
                    break
                return {"config": {"oid_is_path": cfg[:2], "case_sensitive": cfg[2:4], "prioritize_mode": cfg[4], "info_path_mode": cfg[5]},
                        "ops": [op_line(o) for o in ops], "ops_readable": [repr(o) for o in ops], "failing_clauses": bad,
                        "how_to_replay": "harness/c11_state.py: eval_sequence(Real(), cfg, ops)"}
    return None


def fails_with(R, cfg, ops, clause, events_only):
    bad = eval_sequence(R, cfg, ops, events_only)
    if not bad:
        return False
    if clause.startswith("assert_index"):
        return bad[0].startswith("assert_index")
    return clause in bad


def shrink(R, cfg, ops, clause, events_only=False):
    ops = list(ops)
    i = 0
    while i < len(ops):
        cand = ops[:i] + ops[i + 1:]
        if cand and fails_with(R, cfg, cand, clause, events_only):
            ops = cand
        else:
            i += 1
    return ops


# ---------------------------------------------------------------- main
def run(res, tier, seed, proof_broken, replay):
    sys.setrecursionlimit(3000)
    R = Real()
    opens, fixed = load_known_findings(PID)
    # 2. known findings / fixed entries on the real code
    stale = []
    for ident, what in opens.items():
        if ident not in RECIPES:
            res.notes.append("known finding %s has no replay recipe" % ident)
            continue
        if replay_finding(R, ident):
            res.known.append("%s :: %s" % (ident, what))
        else:
            stale.append(ident)
    for ident, what in fixed.items():
        if ident not in RECIPES:
            res.notes.append("fixed entry %s has no replay recipe" % ident)
            continue
        if replay_finding(R, ident):
            cfg, ops, _k = RECIPES[ident]
            res.violation({"property": PID, "kind": "regression of fixed finding", "id": ident, "what": what,
                           "ops": [op_line(o) for o in ops], "ops_readable": [repr(o) for o in ops]})
    # 3. correspondence (flushed to the Lean driver in batches to bound memory)
    rng = rng_for(seed, "c11")
    lines, reals, meta, stats = [], [], [], {}
    tot = {"lines": 0, "programs": 0, "distinct": set(), "dis": [], "samples": []}

    def flush():
        if not lines:
            return
        model = run_driver("state", lines)
        tot["dis"] += compare(lines, reals, model, meta)
        tot["lines"] += len(lines)
        tot["programs"] += len(meta)
        for l, r in zip(lines, reals):
            tot["distinct"].add(hash_str(l.split(" ", 1)[0] + "|" + r))
        if len(tot["samples"]) < 2:
            i = min(len(lines) - 1, 7)
            tot["samples"].append({"line": lines[i], "implementation": reals[i][:300], "model": model[i][:300]})
        del lines[:], reals[:], meta[:]

    nrand, nlen = (2500, 14) if tier == "quick" else (24000, 18)
    fp = fingerprints(FP_SPEC)
    streams = {"random-all": 0, "random-core": 0, "events-only": 0, "renames": 0, "exhaustive-short": 0}
    lens = {}
    for q in range(nrand):
        cfg = rng.choice(FLAVOURS)
        which = [("random-core", CORE_KINDS), ("events-only", EVENT_KINDS), ("random-all", ALL_KINDS), ("renames", RENAME_KINDS)][q % 4]
        if which[0] == "renames":
            cfg = (True, True) + cfg[2:]
        done = run_real(R, cfg, gen_sequence(rng, R, which[1], nlen), lines, reals, meta, stats)
        streams[which[0]] += 1
        lens[len(done)] = lens.get(len(done), 0) + 1
        if len(lines) > 60000:
            flush()
    streams["directed"] = 0
    for cfg in FLAVOURS:
        if cfg[4] == 0 and cfg[5] == 1 and cfg[1] is False:
            for seq in directed_sequences(cfg[0]):
                run_real(R, cfg, list(seq), lines, reals, meta, stats)
                streams["directed"] += 1
    depth = 2 if tier == "quick" else 3
    short_flavours = [(False, False, True, True, 0, 0), (True, False, True, False, 1, 1)]
    for cfg in short_flavours:
        alpha = short_alphabet(cfg[0])
        alpha3 = [a for a in alpha if a[0] not in ("K", "LP", "CM", "T", "H", "R", "X")]
        for base in ([], short_prefix(cfg[0])):
            for d in range(1, depth + 1):
                if d == 3 and not base:
                    continue
                for seq in itertools.product(alpha if d < 3 else alpha3, repeat=d):
                    done = run_real(R, cfg, short_valid(base + list(seq)), lines, reals, meta, stats)
                    if len(done) == len(base) + d:
                        streams["exhaustive-short"] += 1
                    if len(lines) > 60000:
                        flush()
    flush()
    dis = tot["dis"]
    exc_hist = {}
    for k, v in stats.items():
        exc_hist[k.split(":", 1)[1]] = exc_hist.get(k.split(":", 1)[1], 0) + v
    res.coverage.update({
        "evaluations": tot["lines"], "programs": tot["programs"], "distinct_nontrivial": len(tot["distinct"]),
        "rule": "state-aware random sequences (length 2..%d) over raw events (both id styles), hooked field assignments, update_entry, "
                "split, __setitem__, clear, mark_changed, punt/unignore, forget_oid, reload, commit and lookups, on %d flavours "
                "(oid_is_path x2, case_sensitive x2, prioritize oracle x2, info_path oracle x3); plus every sequence of length <= %d "
                "over a %d-operation alphabet from the empty state and from a two-entry state, on two flavours; after every operation "
                "the full dump (id index, path index, pending set, dirty set, get_all order, all fields of all entries, clock) and "
                "the exception class are compared; distinct = distinct (operation kind, resulting dump) pairs"
                % (nlen, len(FLAVOURS), depth, len(short_alphabet(False))),
        "samples": tot["samples"],
        "disagreements_checked": len(dis), "streams": streams, "op_outcome_histogram": dict(sorted(stats.items())),
        "exception_histogram": exc_hist, "sequence_length_histogram": dict(sorted(lens.items())), "fingerprints": fp,
        "stale_known_findings": stale, "model_fuel": 150,
    })
    res.assumptions += [
        "set iteration order: the harness injects an insertion-ordered `set` into cloudsync.sync.state; other admissible orders are not compared",
        "time.time() is a virtual clock advanced only by `tick`; float arithmetic on change times is compared after rounding to ms",
        "info_path and prioritize are deterministic oracles supplied by the harness and mirrored as model parameters",
        "RecursionError: the model reports fuel exhaustion (150 levels); the partial state after a RecursionError is not compared",
        "entry fields force_sync, temp_file, storage_id are not modelled (no modelled operation reads them)"]
    broken = list(proof_broken)
    if dis:
        broken.append("correspondence state-layer: first %r" % (dis[0],))
    if broken:
        hit = oracle_search(R, seed, tier, set(opens))
        if hit:
            res.violation({"property": PID, "kind": "IndexInv fails on implementation", "failing": hit, "broken": broken})
        else:
            res.violation({"property": PID, "kind": "proof obligation or correspondence no longer checks", "broken": broken,
                           "first_disagreements": dis[:3]}, no_input=True)


def directed_sequences(oip):
    """hand-written sequences for the rarely taken branches of `update`'s prior-id logic (state.py:1127-1165)"""
    A, B, C, Z = ("/a", "/b", "/b/a", "/z") if oip else ("i1", "i2", "i3", "i4")
    pA, pB, pC = "/a", "/b", "/b/a"
    ev = lambda oid, path, prior=None, ex="T", ot="f": ("U", 0, ot, oid, path, 1, ex, prior, None, None, False)
    return [
        [ev(A, pA), ev(B, pB), ("SH", 0, 0, 1), ("I", 0, "d"), ev(A, pA, prior=B)],            # found entry discarded: prior reused (3bb1ee9)
        [ev(A, pA), ev(B, pB), ("SH", 0, 0, 1), ev(A, pA, prior=B)],                          # found entry synced, prior not: kept
        [ev(A, pA), ev(B, pB), ("SH", 1, 0, 2), ("SH", 0, 0, 1), ev(A, pA, prior=B)],         # both synced: prior reused
        [ev(A, pA), ev(B, pB), ("I", 0, "c"), ev(A, pA, prior=B)],                            # found entry conflicted: kept
        [ev(A, pA), ev(B, pB, ex="F"), ("I", 1, "d"), ev(C, pC, prior=B)],                    # prior discarded and trashed: revived
        [ev(A, pA), ev(B, pB, ex="F"), ("I", 1, "i"), ev(C, pC, prior=B), ("MK", 1, 0)],      # … irrelevant counts as discarded
        [ev(A, pA), ("O", 0, 1, "r1"), ev(B, pB), ev(A, pA, prior=B)],                        # other side copied onto the prior entry
        [ev(A, pA), ("O", 0, 1, "r1"), ("P", 0, 1, "/r"), ("C", 0, 1, 5), ev(B, pB), ev(A, pA, prior=B), ("SPL", 1)],
        [ev(A, pA), ("O", 0, 1, "r1"), ev(B, pB), ("O", 1, 1, "r2"), ev(A, pA, prior=B)],     # prior already has the other side: no copy
        [ev(A, pA), ("I", 0, "d"), ev(C, pA, prior=Z)],                                       # stale entry matched by path, un-ignored
        [ev(A, pA), ("I", 0, "c"), ev(C, pA, prior=Z)],                                       # … a conflicted one: AssertionError
        [ev(A, pA, ot="d"), ev(B, pB), ("I", 0, "d"), ev(A, pC, ot="d"), ev(A, pA, ex="F", ot="n")],  # discarded entry replaced (path ids)
        [ev(A, pA, ex="F"), ev(A, pA), ev(A, pA), ev(A, pA, ex="F"), ev(A, pA, ex="e")],       # TRASHED -> LIKELY_TRASHED, tombstone kept (406cddf)
        [ev(A, pA, ex="F"), ev(A, pA, ex="~"), ev(A, pA, ex="e"), ev(A, pA, ex="F"), ev(A, pA, ex="t"), ev(A, pA, ex="m")],  # `exists is not False`
    ]


def short_prefix(oip):
    """two entries to start from: entry 0 known on the local side, entry 1 on the remote side"""
    o1 = "/a" if oip else "i1"
    return [("U", 0, "d", o1, "/a", 1, "T", None, None, None, False), ("U", 1, "f", "r1", "/a", 2, "T", None, None, None, False)]


def short_valid(seq):
    """yield the operations of `seq` while every entry they name exists (the real object knows how many there are)"""
    for op in seq:
        refs = []
        if op[0] in ("P", "O", "C", "X", "H", "I", "R", "SPL", "CL", "MK", "UE"):
            refs = [op[1]]
        elif op[0] == "SI":
            refs = [op[1], op[3]]
        if any(r >= len(Real.current.reg) for r in refs):
            yield None
            return
        yield op


if __name__ == "__main__":
    standard_main(PID, run)
