"""Engine-level checks C01-C04, C12: trace refinement of real engine runs against the Lean specs of
lean/Csverif/Model/Spec/Sync.lean (executed by the driver layer `monitor`).

Families and flavours are restricted to those on which the pinned engine was measured reliable (DESIGN.md, "engine
families"); the shapes on which the pinned engine itself violates a property are known findings replayed exactly.
The Lean theorems (Props/C01..C04, C12) are about the spec the monitor executes; the tie is sampled runs (partial)."""
import os
import random
import sys

sys.path.insert(0, os.path.dirname(os.path.abspath(__file__)))
from histories import *  # noqa
import itertools
import families_x as xf

ENGINE_FP = {"cloudsync/sync/manager.py": ["SyncManager.do", "SyncManager._sync_one_entry", "SyncManager.pre_sync", "SyncManager.sync",
                                           "SyncManager.embrace_change", "SyncManager.handle_path_change_or_creation", "SyncManager.handle_rename",
                                           "SyncManager.delete_synced", "SyncManager.create_synced", "SyncManager._create_synced", "SyncManager.upload_synced",
                                           "SyncManager.mkdir_synced", "SyncManager.handle_hash_diff", "SyncManager.handle_hash_conflict",
                                           "SyncManager.handle_split_conflict", "SyncManager.resolve_conflict", "SyncManager.download_changed",
                                           "SyncManager.make_temp_file", "SyncManager.check_disjoint_create", "SyncManager.path_conflict"],
             "cloudsync/sync/state.py": ["SyncState.update", "SyncState.update_entry", "SyncState.change", "SyncState.unconditionally_get_latest",
                                         "SyncState._change_path", "SyncState._change_oid", "SyncState._update_kids", "SyncEntry.get_latest",
                                         "SideState.needs_sync", "SyncEntry.hash_conflict", "SyncEntry.is_creation"],
             "cloudsync/event.py": ["EventManager.do", "EventManager._do_unsafe", "EventManager._process_event"],
             "cloudsync/cs.py": ["CloudSync.translate"]}

ALL = list(FLAVOURS)
OID_LOCAL = ["oid-oid", "oid-oid-ci"]


def new_rec(flavour, seed, salt, **kw):
    rng = random.Random((seed * 1000003) ^ hash_str(salt + flavour))
    w = World(flavour, **kw)
    return w, Recorder(w, rng), rng


def monitor(lines):
    return run_driver("monitor", lines) if lines else []


def case_summary(rec, extra=None):
    d = {"flavour": rec.w.flavour, "schedule": rec.trace[-120:], "left": tree_lines(rec.w.tree(0)), "right": tree_lines(rec.w.tree(1))}
    if extra:
        d.update(extra)
    return d


# ------------------------------------------------------------------------------------------------ C01

def c01_cases(tier, seed):
    """settled two-sided histories on every flavour + concurrent file conflicts; yields (line, summary, nontrivial_key)"""
    n = 10 if tier == "quick" else 120
    for i in range(n):
        for fl in ALL:
            w, rec, rng = new_rec(fl, seed, "c01-%d" % i)
            try:
                fold = fl.endswith("-ci")
                if not build_base(rec, rng.randint(0, 4)):
                    yield ("base", None, case_summary(rec, {"failure": "base tree did not converge"}), None)
                    continue
                cps = fam_settled(rec, rng.randint(2, 6))
                for (q, tl, tr) in cps:
                    if not q:
                        yield ("noquiet", None, case_summary(rec, {"failure": "engine did not go quiet within the step cap"}), None)
                        break
                    yield ("line", "c01 | %s | %s" % (enc_tree(tl, fold), enc_tree(tr, fold)), case_summary(rec), (fl, tuple(rec.ops)))
                # concurrent conflicts on files (measured reliable on all flavours)
                r = fam_conflict(rec, rng.randint(1, 5))
                if not r["quiet"]:
                    yield ("noquiet", None, case_summary(rec, {"failure": "engine did not go quiet within the step cap"}), None)
                else:
                    yield ("line", "c01 | %s | %s" % (enc_tree(r["L"], fold), enc_tree(r["R"], fold)), case_summary(rec), (fl, tuple(rec.ops)))
            finally:
                w.close()


def generic_run(pid, res, tier, seed, proof_broken, cases, rule, replays=None):
    """common skeleton: run cases, feed lines to the Lean monitor, report rejects as violations with the run as replay"""
    lines, sums, keys, hard = [], [], [], []
    for kind, line, summ, key in cases:
        if kind == "line":
            lines.append(line)
            sums.append(summ)
            keys.append(key)
        else:
            hard.append(summ)
    verdicts = monitor(lines)
    rejects = [(v, s) for v, s in zip(verdicts, sums) if v != "ok"]
    opens, fixed = load_known_findings(pid)
    res.coverage.update({
        "evaluations": len(lines) + len(hard), "programs": len(lines) + len(hard),
        "distinct_nontrivial": len({k for k in keys if k and len(k[-1]) > 0}),
        "rule": rule, "samples": [{"monitor_line": lines[0] if lines else None, "run": sums[0] if sums else None}],
        "disagreements_checked": len(rejects) + len(hard), "traces_validated_against_impl": len(lines),
        "fingerprints": fingerprints(ENGINE_FP),
    })
    res.assumptions += ["step-atomic engine semantics: user operations interleave between, not inside, engine steps",
                        "harness determinisation (sequential ids, virtual clock, insertion-ordered sets) selects one admissible behaviour of the real program",
                        "the generator is restricted to families/flavours on which the pinned engine was measured reliable; other shapes are covered only by the listed known findings",
                        "the Lean theorems are about the specification the monitor executes; the engine is tied to it by sampled runs (partial)"]
    for v, s in rejects[:3]:
        s = dict(s)
        s["monitor_verdict"] = v
        s["property"] = pid
        res.violation(s)
    for s in hard[:3]:
        s = dict(s)
        s["property"] = pid
        res.violation(s)
    res._engine_rejects = len(rejects) + len(hard)
    nx = len([1 for _v, s in rejects if s.get("family") == "families_x"]) + len([1 for s in hard if s.get("family") == "families_x"])
    res.coverage["rejected_runs"] = {"registered_families": res._engine_rejects - nx, "families_x": nx}
    res._engine_pid = pid


def finish_engine_check(res, tier, seed, broken, before):
    """step 4 for the engine-level checks: if a proof obligation or the decision-table tie broke and the registered families
    showed no reject, look for a concrete failing run in wider scenarios (fault after download + re-edit); a hit replaces the
    `no-failing-input-found` verdicts"""
    pid = res._engine_pid
    noinput = [v for v in res.violations[before:] if v[1]]
    concrete = [v for v in res.violations if not v[1]]
    if not noinput and not (broken and not concrete):
        return
    hit = None
    for fl in ALL:
        for side in (0, 1):
            for mode in ("write", "create"):
                hit = hit or edit_after_fault_scenario(fl, side, mode)
        if hit:
            break
    if hit:
        hit.update({"property": pid, "kind": "concrete failing run found after a broken obligation / decision-table tie", "broken": broken})
        res.violations = [v for v in res.violations if not v[1]]
        res.violation(hit)
    elif not noinput and not concrete:
        res.violation({"property": pid, "kind": "proof obligation no longer checks", "broken": broken}, no_input=True)


def edit_after_fault_scenario(flavour, side, mode):
    """file edited, the engine downloads it, the upload/create on the other side fails once with a temporary error, the user
    edits again before the retry, faults stop: at quiescence both sides must hold the LAST edit.  Returns a replay dict or None."""
    import cloudsync.exceptions as ex
    w = World(flavour)
    try:
        rec = Recorder(w, random.Random(7))
        rec.spell_roots = False
        if mode == "write":
            rec.user(side, "create", "/f.txt", tag=1)
            if not rec.quiesce():
                return None
            rec.user(side, "write", "/f.txt", tag=2)
        else:
            rec.quiesce()
            rec.user(side, "create", "/f.txt", tag=2)
        armed = {"on": True}

        def hook(s, method, args):
            if armed["on"] and s == 1 - side and method in ("upload", "create"):
                armed["on"] = False
                raise ex.CloudTemporaryError("injected once")
        w.fault_hook = hook
        for _ in range(12):
            for x in "LRS":
                rec.engine(x)
            if not armed["on"]:
                break
        w.fault_hook = None
        if armed["on"]:
            return None
        rec.user(side, "write", "/f.txt", tag=3)
        q = rec.quiesce()
        tl, tr = w.tree(0), w.tree(1)
        want = ("f", content(3))
        if not q or tl.get("/f.txt") != want or tr.get("/f.txt") != want:
            return case_summary(rec, {"failure": "after a transient upload/create fault and a second edit the sides do not both hold the last edit",
                                      "fault": "CloudTemporaryError once at the first engine %s on side %d" % ("upload/create", 1 - side),
                                      "expected": "/f.txt = v3 on both sides", "quiet": q})
        return None
    finally:
        w.close()


def _families(old, pid, tier, seed, xstats):
    """old generator + the directed families; env VERIF_FAMILIES=old|x restricts to one of them (mutation experiments only)"""
    which = os.environ.get("VERIF_FAMILIES", "all")
    parts = []
    if which in ("all", "old"):
        parts.append(old)
    if which in ("all", "x"):
        parts.append(xf.x_cases(pid, tier, seed, xstats))
    return itertools.chain(*parts)


X_RULE = ("; PLUS the directed concurrency families of harness/families_x.py: every history of 1-2 user operations over a fixed small "
          "tree (create/overwrite/delete/rename/move/rename-over/mkdir/folder rename/folder move/rmdir/rmtree, either side) x every partial-intake "
          "gap pattern between the operations x 8 periodic fair tails x 8 flavours (1.5 M cases), pools of 600 k directed 3- and 4-operation "
          "histories each, and a fixed corpus; the tier runs the corpus and a seed-rotated slice; shapes on which the pinned engine fails are "
          "excluded by the calibrated shape-class table (coverage.families_x)")


def run_c01(res, tier, seed, proof_broken, replay):
    xstats = {}
    generic_run("C01", res, tier, seed, proof_broken, _families(c01_cases(tier, seed), "C01", tier, seed, xstats),
                "settled two-sided histories (each user operation followed by quiescence under a random fair schedule) of 2-6 operations "
                "(file create/overwrite/rename/move/delete, mkdir/rmdir, folder rename) from a random synchronised base, on 6 provider "
                "flavours, plus concurrent two-sided file create/overwrite/delete histories with engine steps interleaved; the Lean monitor "
                "checks `converged` at every quiescence; non-trivial = at least one accepted user operation; distinct by (flavour, operations)" + X_RULE)
    res.coverage["families_x"] = xstats
    replay_known_c01(res)


def replay_known_c01(res):
    """exact replays of shapes on which the pinned engine itself fails C01 (open) or used to fail (fixed)"""
    opens, fixed = load_known_findings("C01")
    if "rename-onto-deleted-name-path-id" in fixed:
        w = World("path-oidf")
        try:
            rec = Recorder(w, random.Random(1))
            rec.user(0, "create", "/b", tag=1)
            rec.user(0, "mkdir", "/d")
            rec.quiesce()
            rec.user(0, "delete", "/b")
            rec.quiesce()
            rec.user(0, "rename", "/d", "/b")
            q = rec.quiesce()
            if not q or not trees_converged(w.tree(0), w.tree(1)):
                res.violation(case_summary(rec, {"property": "C01", "kind": "regression of fixed finding", "id": "rename-onto-deleted-name-path-id"}))
        finally:
            w.close()
    for ident, what in opens.items():
        hit = replay_open_c01(ident)
        if hit is None:
            hit = xf.replay_known("C01", ident)
        if hit is True:
            res.known.append("%s :: %s" % (ident, what))
        elif hit is False:
            res.notes.append("known finding %s no longer reproduces (stale)" % ident)


def replay_open_c01(ident):
    if ident == "folder-rename-with-unsynced-child":
        # mkdir a; mkdir a/b; rename a -> c, engine steps interleaved: stale folder on the other side on this schedule
        w = World("path-oidf")
        try:
            rec = Recorder(w, random.Random(1))
            rec.quiesce()
            rec.user(0, "mkdir", "/d")
            rec.quiesce()
            rec.user(0, "mkdir", "/d/b")
            for x in "RR":
                rec.engine(x)
            rec.user(0, "mkdir", "/c.txt")
            rec.engine("S")
            rec.user(0, "delete", "/c.txt")
            for x in "RLL":
                rec.engine(x)
            rec.user(0, "rename", "/d", "/b")
            q = rec.quiesce()
            return (not q) or not trees_converged(w.tree(0), w.tree(1))
        finally:
            w.close()
    return None


# ------------------------------------------------------------------------------------------------ C03

def c03_cases(tier, seed):
    n = 10 if tier == "quick" else 120
    for i in range(n):
        for fl in ALL:
            for side in (0, 1):
                w, rec, rng = new_rec(fl, seed, "c03-%d-%d" % (i, side))
                try:
                    fold = fl.endswith("-ci")
                    if not build_base(rec, rng.randint(0, 4), side=rng.randint(0, 1)):
                        yield ("base", None, case_summary(rec, {"failure": "base tree did not converge"}), None)
                        continue
                    if fl in OID_LOCAL and rng.random() < 0.5:
                        # interleaved, files only (measured reliable when both sides have stable ids)
                        r = fam_onesided(rec, rng.randint(1, 6), side, kinds=["create", "write", "write", "delete", "rename", "move"])
                    else:
                        # settled: one operation, then quiescence, repeated
                        before = w.tree(side)
                        for _ in range(rng.randint(1, 5)):
                            rec.random_op(side)
                            rec.quiesce(watch_side=side)
                        r = fam_onesided(rec, 0, side)
                    if not r["quiet"]:
                        yield ("noquiet", None, case_summary(rec, {"failure": "engine did not go quiet within the step cap"}), None)
                        continue
                    line = "c03 | %s | %s | %s | %d %d" % (enc_tree(r["expected_origin"], fold), enc_tree(r["origin"], fold), enc_tree(r["mirror"], fold),
                                                         r["origin_changed_steps"], r["writes_after_quiet"])
                    yield ("line", line, case_summary(rec, {"origin_side": side}), (fl, side, tuple(rec.ops)))
                finally:
                    w.close()


def run_c03(res, tier, seed, proof_broken, replay):
    xstats = {}
    generic_run("C03", res, tier, seed, proof_broken, _families(c03_cases(tier, seed), "C03", tier, seed, xstats),
                "one-sided histories from a synchronised base, both directions, 6 flavours: settled (operation, quiescence, repeated; all operation "
                "kinds) and, for id-stable flavours, interleaved file operations; the origin tree is snapshotted around every engine step, and "
                "engine writes are counted during 12 further steps after quiescence; the Lean monitor `oneSidedOk` decides; distinct by (flavour, side, operations)"
                + X_RULE.replace("either side", "one side only"))
    res.coverage["families_x"] = xstats
    replay_known_x(res, "C03")


def replay_known_x(res, pid):
    """open findings of the directed families (exact replays in families_x.KNOWN_X)"""
    opens, _fixed = load_known_findings(pid)
    for ident, what in opens.items():
        hit = xf.replay_known(pid, ident)
        if hit is True:
            res.known.append("%s :: %s" % (ident, what))
        elif hit is False:
            res.notes.append("known finding %s no longer reproduces (stale)" % ident)


# ------------------------------------------------------------------------------------------------ C04

def c04_cases(tier, seed):
    n = 10 if tier == "quick" else 120
    for i in range(n):
        for fl in ALL:
            w, rec, rng = new_rec(fl, seed, "c04-%d" % i)
            try:
                fold = fl.endswith("-ci")
                if not build_base(rec, rng.randint(2, 6), side=rng.randint(0, 1)):
                    yield ("base", None, case_summary(rec, {"failure": "base tree did not converge"}), None)
                    continue
                r = fam_disjoint(rec, rng.randint(1, 6))
                if not r["quiet"]:
                    yield ("noquiet", None, case_summary(rec, {"failure": "engine did not go quiet within the step cap"}), None)
                    continue
                line = "c04 | %s | %s | %s | %s | %s" % (enc_tree(r["base"], fold), " ".join(op_token(o, fold) for o in r["opsL"]),
                                                         " ".join(op_token(o, fold) for o in r["opsR"]), enc_tree(r["L"], fold), enc_tree(r["R"], fold))
                yield ("line", line, case_summary(rec), (fl, tuple(rec.ops)))
            finally:
                w.close()


def run_c04(res, tier, seed, proof_broken, replay):
    generic_run("C04", res, tier, seed, proof_broken, c04_cases(tier, seed),
                "from a synchronised base, both sides change disjoint top-level subtrees concurrently (all operation kinds, engine steps interleaved), "
                "then quiescence; the Lean monitor computes the expected merge (`mergeExpected`) and compares both sides exactly (no '.conflicted' "
                "artefact allowed); distinct by (flavour, operations)")


# ------------------------------------------------------------------------------------------------ C02

def c02_cases(tier, seed):
    n = 14 if tier == "quick" else 150
    for i in range(n):
        for fl in ALL:
            w, rec, rng = new_rec(fl, seed, "c02-%d" % i)
            try:
                fold = fl.endswith("-ci")
                if not build_base(rec, rng.randint(0, 4)):
                    yield ("base", None, case_summary(rec, {"failure": "base tree did not converge"}), None)
                    continue
                r = fam_conflict(rec, rng.randint(2, 7))
                if not r["quiet"]:
                    yield ("noquiet", None, case_summary(rec, {"failure": "engine did not go quiet within the step cap"}), None)
                    continue
                yield ("line", "c02 | %s | %s | %s" % (" ".join(r["ledger"]), enc_tree(r["L"]), enc_tree(r["R"])), case_summary(rec, {"ledger": r["ledger"]}),
                       (fl, tuple(rec.ops)))
                yield ("line", "c01 | %s | %s" % (enc_tree(r["L"], fold), enc_tree(r["R"], fold)), case_summary(rec), (fl, "conv", tuple(rec.ops)))
            finally:
                w.close()


def run_c02(res, tier, seed, proof_broken, replay):
    xstats = {}
    generic_run("C02", res, tier, seed, proof_broken, _families(c02_cases(tier, seed), "C02", tier, seed, xstats),
                "two-sided concurrent file histories on the same names (same-path creates, edit/edit, edit/delete, delete/recreate) with engine steps "
                "interleaved, 6 flavours; every user write gets a fresh version tag and every user overwrite/delete records the version it destroyed; "
                "at quiescence the Lean monitor `noLoss` requires every user-live version to exist on at least one side (winner at the path, loser under "
                "a '.conflicted' name) and `converged`; distinct by (flavour, operations)"
                + X_RULE.replace("shapes on which the pinned engine fails are excluded by the calibrated shape-class table",
                                 "only `noLoss` is asked of these runs (on the pinned engine no two-operation case loses anything; 94 members of the pools do and are excluded by id)"))
    res.coverage["families_x"] = xstats
    replay_known_x(res, "C02")
