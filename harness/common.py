"""
Shared machinery for every property check.

Verdict protocol (DESIGN.md section 4):
  1. build the Lean library + driver, audit the property's theorems (#print axioms, grep)
  2. replay known findings / fixed entries against the real code
  3. correspondence (model vs implementation) or trace refinement on /repo's working tree
  4. on a break of 1 or 3: search the implementation for a concrete failing input
  5. evidence file, exit code (0 ok, 1 violation, 2 harness trouble)
"""
import fcntl
import hashlib
import ast
import json
import os
import random
import re
import subprocess
import sys
import time
import traceback
import warnings
warnings.filterwarnings("ignore")
import logging
logging.disable(logging.CRITICAL)

VERIF = os.path.dirname(os.path.dirname(os.path.abspath(__file__)))
REPO = os.environ.get("VERIF_REPO", "/repo")
LEAN = os.path.join(VERIF, "lean")
DRIVER = os.path.join(LEAN, ".lake", "build", "bin", "driver")
ALLOWED_AXIOMS = {"propext", "Classical.choice", "Quot.sound"}
GUARD = "CLOUDSYNC_VERIF"

os.environ[GUARD] = "1"


def import_repo():
    """Import cloudsync from /repo's working tree (never the site-packages copy)."""
    if REPO not in sys.path:
        sys.path.insert(0, REPO)
    import cloudsync  # noqa
    assert os.path.realpath(cloudsync.__file__).startswith(os.path.realpath(REPO) + os.sep), \
        "imported cloudsync from %s, not from %s" % (cloudsync.__file__, REPO)
    return cloudsync


def seed_from_env(default=0):
    try:
        return int(os.environ.get("VERIF_SEED", default))
    except ValueError:
        return default


class HarnessError(Exception):
    """Trouble in the machinery itself (exit 2), never a verdict."""


# ---------------------------------------------------------------- Lean build / driver / audit

def lean_build(extra_targets=()):
    """lake build under a file lock (several checks may run at once)."""
    os.makedirs(os.path.join(LEAN, ".lake"), exist_ok=True)
    lock_path = os.path.join(LEAN, ".lake", "verif.lock")
    t0 = time.time()
    with open(lock_path, "w") as lk:
        fcntl.flock(lk, fcntl.LOCK_EX)
        try:
            p = subprocess.run(["lake", "build", "Csverif", "driver", *extra_targets], cwd=LEAN,
                               capture_output=True, text=True, timeout=3000)
        finally:
            fcntl.flock(lk, fcntl.LOCK_UN)
    return p.returncode == 0, (p.stdout + p.stderr)[-6000:], time.time() - t0


def lean_build_module(mod):
    """Build one module (used for generated tables whose theorem may legitimately fail)."""
    lock_path = os.path.join(LEAN, ".lake", "verif.lock")
    with open(lock_path, "w") as lk:
        fcntl.flock(lk, fcntl.LOCK_EX)
        try:
            p = subprocess.run(["lake", "build", mod], cwd=LEAN, capture_output=True, text=True, timeout=3000)
        finally:
            fcntl.flock(lk, fcntl.LOCK_UN)
    return p.returncode == 0, (p.stdout + p.stderr)[-6000:]


def run_driver(layer, lines, timeout=1800):
    """Pipe `lines` to the compiled Lean driver for `layer`; return the output lines."""
    if not os.path.exists(DRIVER):
        raise HarnessError("driver not built")
    data = "\n".join(lines) + "\n"
    p = subprocess.run([DRIVER, layer], input=data, capture_output=True, text=True, timeout=timeout)
    if p.returncode != 0:
        raise HarnessError("driver %s failed rc=%s: %s" % (layer, p.returncode, p.stderr[-2000:]))
    out = p.stdout.split("\n")
    if out and out[-1] == "":
        out.pop()
    if len(out) != len(lines):
        raise HarnessError("driver %s returned %d lines for %d inputs" % (layer, len(out), len(lines)))
    return out


def load_obligations(pid):
    path = os.path.join(LEAN, "obligations", pid + ".json")
    if not os.path.exists(path):
        return {"modules": [], "theorems": [], "witnesses": []}
    with open(path) as f:
        return json.load(f)


_BAD = re.compile(r"\b(sorry|admit|native_decide|bv_decide|implemented_by)\b|^\s*axiom\s|\bunsafe\s|maxHeartbeats\s+0\b")


def _strip_comments(src):
    # remove /- ... -/ (nested) and -- ... comments
    out, i, depth = [], 0, 0
    n = len(src)
    while i < n:
        if src.startswith("/-", i):
            depth += 1
            i += 2
        elif depth and src.startswith("-/", i):
            depth -= 1
            i += 2
        elif depth:
            if src[i] == "\n":
                out.append("\n")
            i += 1
        elif src.startswith("--", i):
            while i < n and src[i] != "\n":
                i += 1
        else:
            out.append(src[i])
            i += 1
    return "".join(out)


def grep_forbidden():
    hits = []
    for root, _dirs, files in os.walk(os.path.join(LEAN, "Csverif")):
        for fn in files:
            if fn.endswith(".lean"):
                path = os.path.join(root, fn)
                src = _strip_comments(open(path, encoding="utf8").read())
                for ln, line in enumerate(src.split("\n"), 1):
                    if _BAD.search(line):
                        hits.append("%s:%d: %s" % (os.path.relpath(path, VERIF), ln, line.strip()[:120]))
    return hits


def audit(pid):
    """Check every listed theorem exists and depends only on the allowed axioms.
    Returns dict(obligations, discharged, failures:[...], axioms:{thm:[...]})."""
    ob = load_obligations(pid)
    thms = list(ob.get("theorems", [])) + list(ob.get("witnesses", []))
    res = {"obligations": len(thms), "discharged": 0, "failures": [], "axioms": {}, "theorems": thms}
    if not thms:
        res["failures"].append("no obligations listed")
        return res
    # modules that are not part of the default library target (generated source-fact tables and the theorems over them)
    # are built here, so that a table changed by a source edit breaks only the property that owns it
    for m in ob.get("modules", []):
        okm, logm = lean_build_module(m)
        if not okm:
            res["failures"].append("module %s does not build: %s" % (m, logm[-1200:]))
    adir = os.path.join(LEAN, ".lake", "audit")
    os.makedirs(adir, exist_ok=True)
    src = "".join("import %s\n" % m for m in ob["modules"]) + "".join("#print axioms %s\n" % t for t in thms)
    fn = os.path.join(adir, "Audit_%s_%d.lean" % (pid, os.getpid()))
    with open(fn, "w") as f:
        f.write(src)
    p = subprocess.run(["lake", "env", "lean", fn], cwd=LEAN, capture_output=True, text=True, timeout=1800)
    out = p.stdout + p.stderr
    try:
        os.unlink(fn)
    except OSError:
        pass
    found = {}
    for m in re.finditer(r"'([^']+)' depends on axioms: \[([^\]]*)\]", out):
        found[m.group(1)] = [a.strip() for a in m.group(2).replace("\n", " ").split(",") if a.strip()]
    for m in re.finditer(r"'([^']+)' does not depend on any axioms", out):
        found[m.group(1)] = []
    for t in thms:
        if t not in found:
            res["failures"].append("theorem %s missing or does not check" % t)
            continue
        extra = [a for a in found[t] if a not in ALLOWED_AXIOMS]
        res["axioms"][t] = found[t]
        if extra:
            res["failures"].append("theorem %s depends on disallowed axioms %s" % (t, extra))
        else:
            res["discharged"] += 1
    bad = grep_forbidden()
    if bad:
        res["failures"].append("forbidden tokens: " + "; ".join(bad[:5]))
    if p.returncode != 0 and not res["failures"]:
        res["failures"].append("audit file failed: " + out[-500:])
    return res


# ---------------------------------------------------------------- source fingerprints

def fingerprints(spec):
    """spec: {relative_file: [qualified function names]} -> {name: sha1 of normalised AST}."""
    out = {}
    for rel, names in spec.items():
        path = os.path.join(REPO, rel)
        try:
            tree = ast.parse(open(path, encoding="utf8").read())
        except Exception as e:  # a syntax error in the repo is the repo's problem, reported
            out[rel] = "unparsable: %s" % e
            continue
        index = {}

        def visit(node, prefix):
            for ch in ast.iter_child_nodes(node):
                if isinstance(ch, (ast.FunctionDef, ast.AsyncFunctionDef, ast.ClassDef)):
                    q = prefix + ch.name
                    index[q] = ch
                    visit(ch, q + ".")
        visit(tree, "")
        for n in names:
            node = index.get(n)
            if node is None:
                out[rel + ":" + n] = "missing"
            else:
                # drop docstrings
                body = list(node.body)
                if body and isinstance(body[0], ast.Expr) and isinstance(getattr(body[0], "value", None), ast.Constant) \
                        and isinstance(body[0].value.value, str):
                    node = type(node)(**{**{f: getattr(node, f) for f in node._fields}, "body": body[1:] or [ast.Pass()]})
                out[rel + ":" + n] = hashlib.sha1(ast.dump(node, include_attributes=False).encode()).hexdigest()[:16]
    return out


# ---------------------------------------------------------------- known findings

def load_known_findings(pid):
    """known_findings.txt lines:
         open: property=C13 id=<ident> :: <what fails>
         fixed: property=C13 commit=<sha> id=<ident> :: <what failed>"""
    opens, fixed = {}, {}
    path = os.path.join(VERIF, "known_findings.txt")
    if not os.path.exists(path):
        return opens, fixed
    for line in open(path, encoding="utf8"):
        line = line.strip()
        if not line or line.startswith("#"):
            continue
        m = re.match(r"(open|fixed): property=(\S+)\s+(.*)", line)
        if not m or m.group(2) != pid:
            continue
        rest = m.group(3)
        ident = re.search(r"\bid=(\S+)", rest)
        what = rest.split("::", 1)[1].strip() if "::" in rest else rest
        (opens if m.group(1) == "open" else fixed)[ident.group(1) if ident else rest] = what
    return opens, fixed


# ---------------------------------------------------------------- result / evidence

class Result:
    def __init__(self, pid, tier, seed):
        self.pid, self.tier, self.seed = pid, tier, seed
        self.t0 = time.time()
        self.violations = []       # (replay_path, suffix)
        self.known = []            # strings
        self.coverage = {}
        self.assumptions = []
        self.notes = []

    def violation(self, replay_obj, no_input=False, name=None):
        os.makedirs(os.path.join(VERIF, "replays"), exist_ok=True)
        name = name or "%s_%s_%d_%d.json" % (self.pid, self.tier, self.seed, len(self.violations))
        path = os.path.join(VERIF, "replays", name)
        with open(path, "w") as f:
            json.dump(replay_obj, f, indent=1, default=str)
        self.violations.append((path, no_input))

    def finish(self):
        for k in self.known:
            print("KNOWN-FINDING: property=%s %s" % (self.pid, k))
        for path, no_input in self.violations:
            print("VIOLATION property=%s replay=%s%s" % (self.pid, os.path.relpath(path, VERIF),
                                                       " no-failing-input-found" if no_input else ""))
        ev = {
            "property_id": self.pid, "tier": self.tier, "seed": self.seed, "level": "proof",
            "coverage": self.coverage, "assumptions": self.assumptions,
            "wall_s": round(time.time() - self.t0, 2), "violations": len(self.violations),
            "known_findings": self.known, "notes": self.notes,
        }
        evdir = os.environ.get("VERIF_EVIDENCE_DIR") or os.path.join(VERIF, "evidence")  # seed experiments redirect it
        os.makedirs(evdir, exist_ok=True)
        with open(os.path.join(evdir, self.pid + ".json"), "w") as f:
            json.dump(ev, f, indent=1, default=str)
        sys.stdout.flush()
        return 1 if self.violations else 0


TRUSTED_BASE = [
    "Lean 4.33.0 kernel (lake build; leanchecker re-check in thorough tier)",
    "axioms allowed in property theorems: propext, Classical.choice, Quot.sound; no sorry/admit/native_decide/own axioms (grep + #print axioms on every run)",
    "hand-written Lean model; tied to /repo's working tree by the correspondence harness in /verif/harness on generated inputs only",
]


def standard_main(pid, run):
    """run(res, tier, seed) performs steps 2-4 and fills res; this wrapper does build+audit+exit codes."""
    import argparse
    ap = argparse.ArgumentParser()
    ap.add_argument("--tier", default=os.environ.get("VERIF_TIER", "quick"), choices=["quick", "thorough"])
    ap.add_argument("--replay", default=None)
    args = ap.parse_args(sys.argv[2:] if len(sys.argv) > 1 and not sys.argv[1].startswith("-") else sys.argv[1:])
    seed = seed_from_env()
    res = Result(pid, args.tier, seed)
    import signal

    def _alarm(_sig, _frm):
        print("HARNESS-TIMEOUT %s: watchdog expired" % pid)
        sys.stdout.flush()
        os._exit(2)
    signal.signal(signal.SIGALRM, _alarm)
    signal.alarm(int(os.environ.get("VERIF_WATCHDOG_S", 900 if args.tier == "quick" else 7200)))
    try:
        ok, log, secs = lean_build()
        aud = audit(pid) if ok else {"obligations": len(load_obligations(pid).get("theorems", [])) or 1,
                                     "discharged": 0, "failures": ["lake build failed: " + log[-1500:]], "axioms": {}, "theorems": []}
        res.coverage.update({
            "obligations": aud["obligations"], "discharged": aud["discharged"],
            "checker_cmd": "cd lean && lake build Csverif driver && lake env lean <generated #print axioms file for %s>" % pid,
            "trusted_base": list(TRUSTED_BASE), "theorems": aud.get("theorems", []),
            "axioms_used": sorted({a for v in aud["axioms"].values() for a in v}),
            "lean_build_s": round(secs, 1),
        })
        proof_broken = aud["failures"]
        run(res, args.tier, seed, proof_broken, args.replay)
        if args.tier == "thorough" and ok:
            lc = leanchecker(pid)
            res.coverage["leanchecker"] = lc
    except HarnessError as e:
        print("HARNESS-ERROR %s: %s" % (pid, e))
        traceback.print_exc()
        res.notes.append("harness error: %s" % e)
        res.coverage.setdefault("obligations", 1)
        res.coverage.setdefault("discharged", 0)
        res.coverage.setdefault("checker_cmd", "n/a (harness error)")
        res.coverage.setdefault("trusted_base", list(TRUSTED_BASE))
        res.finish()
        sys.exit(2)
    except subprocess.TimeoutExpired as e:
        print("HARNESS-TIMEOUT %s: %s" % (pid, e))
        sys.exit(2)
    except SystemExit:
        raise
    except BaseException as e:  # noqa
        print("HARNESS-ERROR %s: unexpected %r" % (pid, e))
        traceback.print_exc()
        sys.exit(2)
    sys.exit(res.finish())


def leanchecker(pid):
    ob = load_obligations(pid)
    mods = ob.get("modules", [])
    if not mods:
        return "no modules"
    try:
        p = subprocess.run(["lake", "env", "leanchecker", *mods], cwd=LEAN, capture_output=True, text=True, timeout=1500)
        return "exit %d %s" % (p.returncode, (p.stdout + p.stderr)[-200:].strip())
    except Exception as e:
        return "leanchecker did not finish: %s" % e


def enc_str(s):
    if s is None:
        return "~"
    if s == "":
        return "-"
    return ".".join(str(ord(c)) for c in s)


def dec_str(t):
    if t == "~":
        return None
    if t == "-":
        return ""
    return "".join(chr(int(x)) for x in t.split("."))


def enc_bool(b):
    return "T" if b else "F"


def rng_for(seed, salt):
    return random.Random((seed * 1000003) ^ (hash_str(salt)))


def hash_str(s):
    return int(hashlib.sha1(s.encode()).hexdigest()[:12], 16)
