"""Directed concurrency families for the engine-level checks C01 / C02 / C03 (small scope, systematically enumerated).

WHAT IS EXPLORED
  base tree (built on one side, synchronised):  /a  /b  /d/  /d/k  /d/s/        (three files, two folders, one nested)
  user alphabet (either side, drawn against the side's own view of the tree and against the merged view):
      create (root / inside a folder; fresh name, a name the other side has just taken, a freed name), overwrite, delete,
      rename in place, move into / out of a folder, RENAME-OVER an existing file (delete target + rename, one macro step),
      mkdir, folder rename, folder move, rmdir, rmtree
  engine steps 'L' (local intake) 'R' (remote intake) 'S' (one sync step) from harness/engine.py
  space P2 : EVERY history of 1..2 user operations x EVERY gap of GAPS between the operations (steps that provably do nothing
             are dropped, duplicates merged) x EVERY tail of TAILS (a periodic fair schedule driven to quiescence; the tails
             differ in which intake comes first and in how many sync steps run between the two intakes) x 8 FLAVOURS
             = 190 592 histories x 8 = 1 524 736 cases, enumerated in a fixed order (case id "P2:<index>")
  pools P3, P4 : 600 000 histories each of 3 / 4 user operations, member j drawn by a PRNG seeded with j, operations biased 6:1
             towards objects / names / folders touched earlier in the same history, gaps and tail uniform, flavour j mod 8
             (case ids "P3:<j>", "P4:<j>")
  corpus   : a fixed list of named shapes (CORPUS x 9 schedules, CORPUS_EXPLICIT with their own gaps x 4 tails) x either side first x 8 flavours, run on every tier and seed (ids "K:<n>")
  storage kind (dict / Sqlite), the side the base is built on and the spelling of the root folder on case-insensitive id-style
  accounts (as configured / upper case / alternating) are functions of the case (hash of flavour + program), so a case id fixes
  everything: a run is reproducible from its id alone (`python harness/families_x.py --show P2:123`).

ORACLES (unchanged; every verdict is computed by the Lean monitor `monitor` from the recorded run):
  C01  `c01 | left | right`  at quiescence (converged), plus "did not go quiet within the cap" (cap 240 steps; the pinned engine
       needs at most 90 on the whole space)
  C02  `c02 | ledger | left | right`  at quiescence (noLoss); a run that does not go quiet is not judged by C02
  C03  `c03 | expected origin | origin | mirror | n1 n2`  for one-sided histories (oneSidedOk)

CALIBRATION (pinned engine = /repo HEAD 829af71; `--calibrate run <family> <file>` then `--calibrate table <files>`; never at check time).
  The WHOLE of P2, P3, P4 and the corpus was run once (2 728 480 runs, python rendering of the oracles cross-checked against the
  Lean monitor on 320 k lines, 0 mismatches) and a second time, with the tables applied, through the Lean monitor under another
  PYTHONHASHSEED / process layout (acceptance: 0 rejects, so the runs are reproducible).  Findings on the pinned engine:
    P2: 20 849 of 1 524 736 cases fail C01 (17 568 not converged, 3 081 never quiet); 8 333 one-sided ones fail C03 as well; NONE
        fails C02; no single-operation history fails anything.
    P3: 44 293 of 600 000 fail C01, 39 fail C02.   P4: 60 213 of 600 000 fail C01, 55 fail C02.   corpus: 28 / 0 / 34 of 3 744.
EXCLUSION RULES (by construction, from the program text alone; table harness/families_x_cal.json):
  R-pair.  An ordered PAIR of operations (i before j) of a history is abstracted to its SHAPE CLASS
        same side / opposite sides
      x class of operation i x class of j        (create write delete rmdir rmtree mkdir renover rnF mvF rnD mvD)
      x path relation between the source/destination paths of i and j   (s=s s=d d=s d=d equal, '<' ancestor of, '>' beneath)
      x provider class of i's side / of the other side                  (P path ids, O object ids, 'i' case-insensitive)
      x root folder respelled in this case or not ('*')
      x WINDOW class of the engine steps between i and j: '-' i's side not taken in, X0 taken in but no sync step after that,
        X1 / X2 / X3 one / two / three-or-more sync steps after that intake
    (38 173 classes occur in P2).  A class is excluded for C01 iff SOME member of it fails C01 on the pinned engine under some tail
    (for C03: fails C01 or C03): 1 112 classes, 34 448 cases = 2.3 % of P2 (20 849 of them are the failing ones).  A history of the
    pools / corpus is excluded if ANY of its ordered pairs is in an excluded class.  The 1 112 classes by root cause (rule id, as it
    appears in coverage.families_x.excluded_by_rule; exact replay + `open:` line per cause unless the cause is already listed):
      x-rename-over-vs-peer (223 classes, 13 468 cases, 5 980 fail)  rename-over on one side, the other side edits / renames / deletes /
          re-creates its target or source, mostly window '-' or X0 (a few classes X1 / X2): source file duplicated, '.conflicted' on
          one side only.  [finding C01 x-rename-over-vs-peer]
      x-pathid-name-reuse (210 classes, 9 118 cases, 8 020 fail)  same side, path-id provider: a name freed by delete / rename-away /
          rename-over is taken again, or the re-used name is touched again (renamed, deleted, overwritten by another rename-over,
          its folder renamed / removed), inside windows '-' X0 X1 (X2 for mkdir / second rename-over): stale file or folder on the mirror,
          never quiet for file-name -> folder, deleted folder resurrected on the origin for folder-name -> file.
          [C01 x-pathid-name-reuse-never-quiet, C03 x-pathid-deleted-folder-name-reused-origin-changed]
      x-two-sided-name-clash (259 classes, 4 157 cases, 2 260 fail)  both sides bring different objects to one name, at least one by
          rename / move / rename-over, window '-' or X0.  [C01 x-two-sided-name-clash]
      x-folder-rename-vs-peer (179 classes, 3 666 cases, 1 204 fail)  one side renames / moves a folder while the other side has an
          unsynchronised change beneath it (path-id flavours: edit, create, rename, move-in; id-stable flavours: mkdir), window '-' / X0.
          Already listed: C04 obj-related-paths-path-id, obj-mkdir-in-moved-folder.
      x-respelled-root-livelock (113 classes, 2 257 cases, 2 162 fail)  case-insensitive id-style account, root spelled in another case:
          a change beneath a folder the other side deletes: never quiet.  [C01 x-respelled-root-livelock]
      x-folder-rename-new-child (51 classes, 989 cases, 768 fail)  same side: mkdir (path-id: also create / move-in) beneath a folder,
          then the folder renamed / moved, window '-' / X0: old folder left on the mirror.  [C03 x-folder-rename-new-child]
      x-delete-then-folder-reuse (39 classes, 580 cases, 135 fail)  mirror is path-id: folder renamed, a FILE takes its old name, any
          window up to X3: converged but never quiet.  [C01 x-pathid-folder-name-reused-by-file-never-quiet]
      x-folder-rename-then-child-op-pathid (28 classes, 280 cases, all fail)  same side, path-id: folder renamed, child deleted / renamed /
          moved through the new path before the rename was taken in.  [C03 x-pathid-folder-rename-then-child-op; 4-line fix proposed]
      x-folder-delete-vs-peer-change (10 classes, 133 cases, 40 fail)  folder renamed on one side, sub-folder / tree deleted on the other
          (path-id).  Already listed: C04 obj-delete-in-moved-folder.
    The two shapes of the task are NOT excluded: (a) move-in + folder rename is clean in every class on id-stable flavours and on the same
    side everywhere (opposite sides on path-id flavours: only window '-' excluded); (b) rename-over + peer edit of the target with gap
    "L S" is window X1 (the class opp|renover|write|d=s is excluded only in window '-', and X0 with a respelled root).
  R-residual.  The pools are finite and fixed.  Members that fail on the pinned engine although none of their pairs is in an excluded
    class (three- and four-way interactions: a name re-used across two separate operations and touched by a third, three objects on one
    ancestor chain, ...) are excluded individually by id: C01 6 585 of P3 + 12 653 of P4; C03 34 of the corpus + 4 650 + 8 212;
    C02 39 + 55 (the only C02 failures at all; three findings, see KNOWN_X).  With both rules 12.5 % of P3 and 18.1 % of P4 are excluded
    for C01, nothing but the 94 members for C02.
  After an engine fix the tables are stale in the safe direction only if the fix changes no passing shape; re-run `--calibrate`.
"""
import atexit
import json
import multiprocessing
import os
import random
import shutil
import sys
import tempfile
import time

sys.path.insert(0, os.path.dirname(os.path.abspath(__file__)))
from histories import *  # noqa

CAL_PATH = os.path.join(os.path.dirname(os.path.abspath(__file__)), "families_x_cal.json")
NPROC = max(2, min(16, os.cpu_count() or 4))
STEP_CAP = 240

# ------------------------------------------------------------------------------------------------ speed / determinism

_SCRATCH = None


def fast_tempdir():
    """every SyncManager makes (and removes) a temp folder; /tmp is slow on a loaded machine"""
    global _SCRATCH
    if _SCRATCH is None and os.path.isdir("/dev/shm"):
        _SCRATCH = tempfile.mkdtemp(prefix="engx_", dir="/dev/shm")
        tempfile.tempdir = _SCRATCH
        pid = os.getpid()
        scratch = _SCRATCH

        def _rm():
            if os.getpid() == pid:
                shutil.rmtree(scratch, ignore_errors=True)
        atexit.register(_rm)


def extra_determinism():
    """the mock's folder rename iterates `set(objects)` (identity hashes: memory-address order); select the insertion order"""
    import_repo()
    import cloudsync.providers.mock as mk
    mk.set = OrderedSet


BASE = (("mkdir", "/d"), ("create", "/a"), ("create", "/b"), ("create", "/d/k"), ("mkdir", "/d/s"))
GAPS = ("", "L", "R", "S", "LS", "RS", "LR", "LSS", "RSS", "LRS", "LSSS", "RSSS")
TAILS = ("LRS", "RLS", "SLR", "SRL", "LSR", "RSL", "LSSRS", "RSSLS")
FRESH = ("c", "e", "g", "h")
SPELL_FLAVOURS = ("oid-oid-ci", "path-oidf-ci", "oidci-oidcs", "oidcs-oidci")
FLAVOUR_LIST = list(FLAVOURS)
N_POOL = {3: 600000, 4: 600000}


# ------------------------------------------------------------------------------------------------ symbolic trees / alphabet

def parent(p):
    return p.rsplit("/", 1)[0]


def leaf(p):
    return p.rsplit("/", 1)[1]


def under(p, d):
    return p == d or p.startswith(d + "/")


def m_apply(t, op):
    """model effect of a user operation on a {path: 'F'|'D'} view (an invalid operation leaves it alone)"""
    t = dict(t)
    k = op[0]
    if k == "create":
        if op[1] not in t and (parent(op[1]) == "" or t.get(parent(op[1])) == "D"):
            t[op[1]] = "F"
    elif k == "mkdir":
        if op[1] not in t and (parent(op[1]) == "" or t.get(parent(op[1])) == "D"):
            t[op[1]] = "D"
    elif k == "delete":
        if op[1] in t and not any(x.startswith(op[1] + "/") for x in t):
            del t[op[1]]
    elif k == "rmtree":
        for x in [x for x in t if under(x, op[1])]:
            del t[x]
    elif k == "rename":
        s, d = op[1], op[2]
        if s in t and d not in t and not under(d, s) and (parent(d) == "" or t.get(parent(d)) == "D"):
            for x in [x for x in t if under(x, s)]:
                t[d + x[len(s):]] = t.pop(x)
    elif k == "renover":
        s, d = op[1], op[2]
        if d in t and t[d] == "F":
            del t[d]
        return m_apply(t, ("rename", s, d))
    return t


def candidate_ops(view, merged, seen):
    """the alphabet: operations a user could issue looking at `view`; `merged` additionally offers the names the other side
    introduced (same-name collisions) and `seen` every path that ever existed (re-use of freed names)"""
    files = sorted(p for p, v in view.items() if v == "F")
    dirs = sorted(p for p, v in view.items() if v == "D")
    used = set(seen) | set(view) | set(merged)
    fresh = [n for n in FRESH if not any(leaf(u) == n for u in used)]
    fr = fresh[0] if fresh else None

    def new_names(par, rich):
        out = []
        if fr:
            out.append(par + "/" + fr)
        if rich:
            for p in sorted(used):
                if p not in view and parent(p) == par and p not in out:
                    out.append(p)        # a freed name or a name the other side has taken
        return out
    ops = []
    for par in [""] + dirs:
        for n in new_names(par, par == ""):
            ops.append(("create", n))
    for f in files:
        ops.append(("write", f))
        ops.append(("delete", f))
        for n in new_names(parent(f), True):
            ops.append(("rename", f, n))
        for g in files:
            if g != f:
                ops.append(("renover", f, g))
        for par in [""] + dirs:
            if par != parent(f) and par + "/" + leaf(f) not in view:
                ops.append(("rename", f, par + "/" + leaf(f)))
    for par in [""] + dirs:
        for n in new_names(par, par == "")[:2]:
            ops.append(("mkdir", n))
    for d in dirs:
        for n in new_names(parent(d), True):
            if not under(n, d):
                ops.append(("rename", d, n))
        for par in [""] + dirs:
            if par != parent(d) and not under(par, d) and par + "/" + leaf(d) not in view:
                ops.append(("rename", d, par + "/" + leaf(d)))
        if any(x.startswith(d + "/") for x in view):
            ops.append(("rmtree", d))
        else:
            ops.append(("delete", d))
    out = []
    for o in ops:
        if o not in out:
            out.append(o)
    return out


class Sym:
    """symbolic state while a history is enumerated: per-side views, the merged view, every path seen"""
    def __init__(self):
        t = {}
        for o in BASE:
            t = m_apply(t, o)
        self.views = [dict(t), dict(t)]
        self.merged = dict(t)
        self.seen = set(t)

    def copy(self):
        s = Sym.__new__(Sym)
        s.views = [dict(self.views[0]), dict(self.views[1])]
        s.merged = dict(self.merged)
        s.seen = set(self.seen)
        return s

    def options(self, side):
        a = candidate_ops(self.views[side], self.merged, self.seen)
        b = candidate_ops(self.merged, self.merged, self.seen) if self.merged != self.views[side] else []
        return a + [o for o in b if o not in a]

    def apply(self, side, op):
        s = self.copy()
        s.views[side] = m_apply(s.views[side], op)
        s.merged = m_apply(s.merged, op)
        s.seen |= set(s.views[side]) | set(s.merged)
        return s

    def type_of(self, side, path):
        return self.views[side].get(path) or self.merged.get(path) or "?"


# ------------------------------------------------------------------------------------------------ enumeration (P2) and pools (P3, P4)

def canon_gap(gap, dirty):
    """drop the steps of a gap that cannot do anything: the intake of a side with no unread user event, sync steps before
    anything was taken in since quiescence.  dirty = {"ev": [bool, bool], "pend": bool}"""
    out = []
    d = list(dirty["ev"])
    pend = dirty["pend"]
    for x in gap:
        if x == "S":
            if pend:
                out.append(x)
        else:
            i = "LR".index(x)
            if d[i]:
                out.append(x)
                d[i] = False
                pend = True
    return "".join(out), {"ev": d, "pend": pend}


def enum_histories(maxlen=2):
    """yields (ops, gaps): ops = [(side, op...)], gaps[i] follows ops[i] (the last one is the tail); fixed order"""
    def rec(sym, ops, gaps, dirty, depth):
        for side in (0, 1):
            for op in sym.options(side):
                sym2 = sym.apply(side, op)
                d2 = {"ev": list(dirty["ev"]), "pend": dirty["pend"]}
                d2["ev"][side] = True
                ops2 = ops + [(side,) + op]
                for t in TAILS:
                    yield ops2, gaps + [t]
                if depth + 1 < maxlen:
                    seen = set()
                    for g in GAPS:
                        cg, d3 = canon_gap(g, d2)
                        if cg in seen:
                            continue
                        seen.add(cg)
                        yield from rec(sym2, ops2, gaps + [cg], d3, depth + 1)
    yield from rec(Sym(), [], [], {"ev": [False, False], "pend": False}, 0)


_P2 = None


def p2_histories():
    global _P2
    if _P2 is None:
        _P2 = list(enum_histories(2))
    return _P2


def make_case(fl, ops, gaps, cid=None):
    prog = []
    for o, g in zip(ops[:-1], gaps[:-1]):
        prog.append(list(o))
        prog.append(g)
    prog.append(list(ops[-1]))
    key = "%s|%r|%s" % (fl, prog, gaps[-1])
    h = hash_str(key)
    sp = (h >> 4) % 3 if fl in SPELL_FLAVOURS else 0
    return {"id": cid, "fl": fl, "st": "sqlite" if (h >> 1) % 4 == 0 else "mock", "bs": h & 1, "sp": sp, "prog": prog, "tail": gaps[-1]}


def touched(op):
    return [p for p in op[1:] if isinstance(p, str) and p.startswith("/")]


def related(p, q):
    return under(p, q) or under(q, p) or leaf(p) == leaf(q)


def pool_case(n, j):
    """member j of the pool of n-operation histories (see module docstring)"""
    rng = random.Random(n * 1000003 + j * 7919 + 17)
    mode = rng.choice((0, 1, 2, 2, 2))          # one-sided local, one-sided remote, two-sided
    sym = Sym()
    ops, gaps, hot = [], [], []
    dirty = {"ev": [False, False], "pend": False}
    for i in range(n):
        side = mode if mode < 2 else rng.randint(0, 1)
        opts = sym.options(side)
        w = [6 if any(related(p, q) for p in touched(o) for q in hot) else 1 for o in opts]
        op = rng.choices(opts, weights=w)[0]
        sym = sym.apply(side, op)
        hot += touched(op)
        ops.append((side,) + op)
        dirty["ev"][side] = True
        if i < n - 1:
            g, dirty = canon_gap(rng.choice(GAPS), dirty)
            gaps.append(g)
    gaps.append(rng.choice(TAILS))
    return make_case(FLAVOUR_LIST[j % len(FLAVOUR_LIST)], ops, gaps, "P%d:%d" % (n, j))


def case_by_id(cid):
    fam, j = cid.split(":")
    j = int(j)
    if fam == "P2":
        ops, gaps = p2_histories()[j // len(FLAVOUR_LIST)]
        return make_case(FLAVOUR_LIST[j % len(FLAVOUR_LIST)], ops, gaps, cid)
    if fam in ("P3", "P4"):
        return pool_case(int(fam[1]), j)
    if fam == "K":
        return corpus_cases()[j]
    raise HarnessError("bad case id " + cid)


def n_cases(fam):
    if fam == "P2":
        return len(p2_histories()) * len(FLAVOUR_LIST)
    if fam == "K":
        return len(corpus_cases())
    return N_POOL[int(fam[1])]


# ------------------------------------------------------------------------------------------------ the fixed corpus

CORPUS = {
    # name: list of (side, op...) with sides given relative to X = the first side, Y = the other one
    "move-in+folder-rename/same": [("X", "rename", "/a", "/d/a"), ("X", "rename", "/d", "/c")],
    "move-in+folder-rename/opp": [("X", "rename", "/a", "/d/a"), ("Y", "rename", "/d", "/c")],
    "move-in-nested+folder-rename/opp": [("X", "rename", "/a", "/d/s/a"), ("Y", "rename", "/d", "/c")],
    "rename-over+target-edit": [("X", "renover", "/a", "/b"), ("Y", "write", "/b")],
    "rename-over+source-edit": [("X", "renover", "/a", "/b"), ("Y", "write", "/a")],
    "rename-over-into-folder+target-edit": [("X", "renover", "/a", "/d/k"), ("Y", "write", "/d/k")],
    "rename-chain": [("X", "rename", "/a", "/c"), ("X", "rename", "/c", "/e")],
    "rename-chain+peer-edit": [("X", "rename", "/a", "/c"), ("X", "rename", "/c", "/e"), ("Y", "write", "/a")],
    "rename-chain-3": [("X", "rename", "/a", "/c"), ("X", "rename", "/c", "/e"), ("X", "rename", "/e", "/d/e")],
    "delete+recreate": [("X", "delete", "/a"), ("X", "create", "/a")],
    "delete+recreate+peer-edit": [("X", "delete", "/a"), ("X", "create", "/a"), ("Y", "write", "/a")],
    "edit+rename-opposite": [("X", "write", "/a"), ("Y", "rename", "/a", "/c")],
    "edit+move-opposite": [("X", "write", "/a"), ("Y", "rename", "/a", "/d/a")],
    "rename+rename-opposite": [("X", "rename", "/a", "/c"), ("Y", "rename", "/a", "/e")],
    "folder-rename+child-edit": [("X", "rename", "/d", "/c"), ("Y", "write", "/d/k")],
    "folder-rename+child-rename": [("X", "rename", "/d", "/c"), ("Y", "rename", "/d/k", "/d/e")],
    "folder-rename+child-create": [("X", "rename", "/d", "/c"), ("Y", "create", "/d/e")],
    "nested-folder-move+child-edit": [("X", "rename", "/d/s", "/s"), ("Y", "write", "/d/k")],
    "move-out+folder-delete": [("X", "rename", "/d/k", "/k"), ("X", "rmtree", "/d")],
    "move-out+folder-delete/opp": [("X", "rename", "/d/k", "/k"), ("Y", "rmtree", "/d")],
    "edit+edit": [("X", "write", "/a"), ("Y", "write", "/a")],
    "edit+delete": [("X", "write", "/a"), ("Y", "delete", "/a")],
    "write+rename+recreate+write": [("X", "write", "/a"), ("X", "rename", "/a", "/c"), ("X", "create", "/a"), ("X", "write", "/c")],
    "create+create": [("X", "create", "/c"), ("Y", "create", "/c")],
    "move-in+edit": [("X", "rename", "/a", "/d/a"), ("X", "write", "/d/a")],
    "swap-by-three-renames": [("X", "rename", "/a", "/c"), ("X", "rename", "/b", "/a"), ("X", "rename", "/c", "/b")],
}
CORPUS_SCHEDULES = [("", "LRS"), ("", "SRL"), ("O", "RLS"), ("O", "LSSRS"), ("O", "RSSLS"), ("OS", "SLR"), ("OS", "SRL"), ("OSS", "RSL"),
                    ("OPS", "LRS")]

# shapes that need their own gap list (gaps relative to the side of the preceding operation: O its intake, P the other intake, S sync)
CORPUS_EXPLICIT = {
    # an edit is uploaded and its echo on the mirror is still unread when the file is renamed, its old name re-created and the renamed
    # file edited again
    "synced-edit+rename+recreate+edit/unread-echo": ([("X", "write", "/a"), ("X", "rename", "/a", "/c"), ("X", "create", "/a"), ("X", "write", "/c")],
                                                     ["OS", "", ""], ["LSR", "LSSRS", "SLR", "LRS"]),
    "synced-edit+rename-over/unread-echo": ([("X", "write", "/a"), ("X", "renover", "/a", "/b")], ["OS"], ["LSR", "LSSRS", "SLR", "LRS"]),
    "synced-edit+move-in+folder-rename/unread-echo": ([("X", "write", "/a"), ("X", "rename", "/a", "/d/a"), ("X", "rename", "/d", "/c")],
                                                      ["OS", ""], ["LSR", "LSSRS", "SLR", "LRS"]),
    "move-in+peer-folder-rename+edit-moved": ([("X", "rename", "/a", "/d/a"), ("Y", "rename", "/d", "/c"), ("X", "write", "/d/a")],
                                              ["O", ""], ["LSR", "RSL", "SLR", "LRS"]),
    "rename-over+peer-edit+second-peer-edit": ([("X", "renover", "/a", "/b"), ("Y", "write", "/b"), ("Y", "write", "/b")],
                                               ["OS", "S"], ["LSR", "RSL", "SLR", "LRS"]),
}

_CORPUS = None


def corpus_cases():
    """every corpus shape x first side x flavour x schedule (the same gap pattern, relative to the side of the preceding
    operation, after every operation but the last)"""
    global _CORPUS
    if _CORPUS is None:
        out = []
        for name, shape in CORPUS.items():
            for x in (0, 1):
                ops = [((x if o[0] == "X" else 1 - x),) + tuple(o[1:]) for o in shape]
                for gpat, tail in CORPUS_SCHEDULES:
                    gaps = []
                    for o in ops[:-1]:
                        gaps.append("".join({"O": "LR"[o[0]], "P": "LR"[1 - o[0]], "S": "S"}[c] for c in gpat))
                    gaps.append(tail)
                    for fl in FLAVOUR_LIST:
                        c = make_case(fl, ops, gaps, "K:%d" % len(out))
                        c["name"] = name
                        out.append(c)
        for name, (shape, gpats, tails) in CORPUS_EXPLICIT.items():
            for x in (0, 1):
                ops = [((x if o[0] == "X" else 1 - x),) + tuple(o[1:]) for o in shape]
                for tail in tails:
                    gaps = ["".join({"O": "LR"[o[0]], "P": "LR"[1 - o[0]], "S": "S"}[c] for c in g) for o, g in zip(ops, gpats)] + [tail]
                    for fl in FLAVOUR_LIST:
                        c = make_case(fl, ops, gaps, "K:%d" % len(out))
                        c["name"] = name
                        out.append(c)
        _CORPUS = out
    return _CORPUS


# ------------------------------------------------------------------------------------------------ shape classes and the tables

def split_prog(case):
    ops = [tuple(x) for x in case["prog"] if not isinstance(x, str)]
    gaps = [x for x in case["prog"] if isinstance(x, str)] + [case["tail"]]
    return ops, gaps


def op_class(sym, side, op):
    k = op[0]
    if k == "delete":
        return "rmdir" if sym.type_of(side, op[1]) == "D" else "delete"
    if k == "rename":
        return ("mv" if parent(op[1]) != parent(op[2]) else "rn") + sym.type_of(side, op[1])
    return k


def roles(op):
    if op[0] in ("rename", "renover"):
        return (("s", op[1]), ("d", op[2]))
    if op[0] in ("create", "mkdir"):
        return (("d", op[1]),)
    return (("s", op[1]),)


def path_rel(p, q):
    if p == q:
        return "="
    if under(q, p):
        return "<"
    if under(p, q):
        return ">"
    return None


def prov_class(fl, side):
    f = FLAVOURS[fl][side]
    return ("P" if f[0] else "O") + ("" if f[1] else "i")


def window_class(steps, side):
    o = "LR"[side]
    if o not in steps:
        return "-"
    return "X%d" % min(steps[steps.index(o):].count("S"), 3)


def shape_keys(case):
    """-> (single keys, pair keys [(i, j, key)], one-sided side or None)"""
    ops, gaps = split_prog(case)
    fl = case["fl"]
    star = "*" if case.get("sp") else ""
    sym = Sym()
    cls = []
    for o in ops:
        cls.append(op_class(sym, o[0], o[1:]))
        sym = sym.apply(o[0], o[1:])
    singles = ["single|%s|%s/%s%s" % (cls[i], prov_class(fl, o[0]), prov_class(fl, 1 - o[0]), star) for i, o in enumerate(ops)]
    pairs = []
    for i in range(len(ops)):
        for j in range(i + 1, len(ops)):
            oi, oj = ops[i], ops[j]
            m = []
            for a, p in roles(oi[1:]):
                for b, q in roles(oj[1:]):
                    r = path_rel(p, q)
                    if r:
                        m.append(a + r + b)
            steps = "".join(gaps[i:j])
            pairs.append((i, j, "%s|%s|%s|%s|%s/%s%s|%s" % ("same" if oi[0] == oj[0] else "opp", cls[i], cls[j], " ".join(m),
                                                          prov_class(fl, oi[0]), prov_class(fl, 1 - oi[0]), star, window_class(steps, oi[0]))))
    sides = {o[0] for o in ops}
    return singles, pairs, (list(sides)[0] if len(sides) == 1 else None)


_CAL = None
WANT = {"C01": ("c01",), "C02": ("c02",), "C03": ("c01", "c03")}      # table oracles that exclude a class from a check


def load_cal():
    global _CAL
    if _CAL is None:
        if os.path.exists(CAL_PATH):
            with open(CAL_PATH) as f:
                _CAL = json.load(f)
            _CAL["residual"] = {o: dict.fromkeys(ids) for o, ids in _CAL["residual"].items()}
        else:
            _CAL = {"pairs": {}, "residual": {}, "meta": {"missing": True}}
    return _CAL


def excluded(case, oracle):
    """-> (rule id, table key) or None.  oracle in 'C01' 'C02' 'C03'.  No pair class fails C02 on the pinned engine (so C02 explores the
    whole of P2); 94 members of the pools do and are excluded by id.)"""
    cal = load_cal()
    singles, pairs, one = shape_keys(case)
    want = WANT[oracle]
    for _i, _j, k in pairs:
        e = cal["pairs"].get(k)
        if e and any(w in e["o"] for w in want):
            return e["cause"], k
    if case.get("id") and case["id"] in cal["residual"].get(oracle, {}):
        return "x-pool-residual", case["id"]
    return None


# ------------------------------------------------------------------------------------------------ running one case

class XRecorder(Recorder):
    def __init__(self, world, rng):
        Recorder.__init__(self, world, rng)
        self.avoid_reuse = False
        self.sp = 0
        self._nabs = 0

    def abs(self, side, rel):
        """a case-insensitive id-style account: the user may spell the root folder in another case (explicit per case:
        sp 0 = as configured, 1 = upper case, 2 = alternating upper / title case per path argument)"""
        root = self.w.roots[side]
        p = self.w.provs[side]
        if self.sp and not p.case_sensitive and not p.oid_is_path:
            self._nabs += 1
            root = root.upper() if (self.sp == 1 or self._nabs % 2) else root.title()
        return root + rel

    def xuser(self, side, op):
        k = op[0]
        if k in ("create", "write"):
            return self.user(side, k, op[1], tag=self.fresh())
        if k == "renover":
            t = self.w.tree(side)
            if op[2] in t and t[op[2]][0] == "f":
                self.user(side, "delete", op[2])
            return self.user(side, "rename", op[1], op[2])
        if k == "rmtree":
            t = self.w.tree(side)
            killed = [tag_of(v[1]) for p, v in sorted(t.items()) if v[0] == "f" and under(p, op[1])]
            err = self.w.user(side, "rmtree", self.abs(side, op[1]))
            self.trace.append("U%d:rmtree:%s" % (side, op[1]))
            if err:
                self.rejected += 1
                return False
            self.ops.append((side, "rmtree", op[1]))
            for x in killed:
                self.ledger.append("D:%d" % x)
            return True
        return self.user(side, k, *op[1:])

    def fair(self, order, cap=STEP_CAP, watch_side=None):
        quiet_rounds = 0
        n = 0
        while n < cap:
            for x in order:
                self.engine(x, watch_side)
                n += 1
            if not self.w.busy():
                quiet_rounds += 1
                if quiet_rounds >= 2:
                    return True
            else:
                quiet_rounds = 0
        return False


def run_case(case):
    """runs the real engine on one case -> raw record (trees, ledger, trace...)"""
    fast_tempdir()
    fl = case["fl"]
    w = World(fl, storage=case.get("st", "mock"))
    extra_determinism()
    try:
        rec = XRecorder(w, random.Random(0))
        fold = fl.endswith("-ci")
        for o in BASE:
            rec.xuser(case["bs"], o)
        if not rec.fair("LRS") or not trees_converged(w.tree(0), w.tree(1), fold):
            return {"fail": "base", "trace": list(rec.trace), "L": w.tree(0), "R": w.tree(1)}
        rec.sp = case.get("sp", 0)
        sides = {item[0] for item in case["prog"] if not isinstance(item, str)}
        one = list(sides)[0] if len(sides) == 1 else None
        nstep0 = rec.engine_steps
        ntrace0 = len(rec.trace)
        rec.origin_changed_steps = [0, 0]
        for item in case["prog"]:
            if isinstance(item, str):
                for x in item:
                    rec.engine(x, one)
            else:
                rec.xuser(item[0], tuple(item[1:]))
        expected = w.tree(one) if one is not None else None
        q = rec.fair(case["tail"], watch_side=one)
        res = {"quiet": q, "steps": rec.engine_steps - nstep0, "L": w.tree(0), "R": w.tree(1), "ledger": list(rec.ledger), "ops": list(rec.ops),
               "rejected": rec.rejected, "trace": rec.trace[ntrace0:], "one": one}
        if one is not None and q:
            n_calls = len(w.calls)
            for _ in range(4):
                for x in "LRS":
                    rec.engine(x, one)
            res["extra"] = len([c for c in w.calls[n_calls:] if c.by == "engine" and c.method != "download" and not c.error])
            res["expected"] = expected
            res["origin"] = w.tree(one)
            res["mirror"] = w.tree(1 - one)
            res["ocs"] = rec.origin_changed_steps[one]
        res["escaped"] = list(w.escaped)
        return res
    finally:
        w.close()


def show_prog(case):
    out = []
    for it in case["prog"]:
        if isinstance(it, str):
            out.append("[%s]" % it)
        else:
            out.append("%s:%s" % ("LR"[it[0]], " ".join(it[1:])))
    return " ".join(out) + " ~(%s)*" % case["tail"]


def summary(case, r, extra=None):
    d = {"family": "families_x", "case_id": case.get("id"), "corpus_shape": case.get("name"), "flavour": case["fl"], "storage": case["st"],
         "base_built_on": "LR"[case["bs"]], "root_spelling": case["sp"], "base": [list(o) for o in BASE],
         "program": show_prog(case), "ops": [x for x in case["prog"] if not isinstance(x, str)],
         "gaps": [x for x in case["prog"] if isinstance(x, str)], "tail_period": case["tail"],
         "schedule": r.get("trace", [])[-160:], "left": tree_lines(r["L"]) if "L" in r else None, "right": tree_lines(r["R"]) if "R" in r else None,
         "accepted_user_ops": [list(o) for o in r.get("ops", [])][len(BASE):], "ledger": r.get("ledger"),
         "replay": "python harness/families_x.py --show %s" % case.get("id")}
    if extra:
        d.update(extra)
    return d


def case_lines(case, r, oracle):
    """-> list of (kind, line, summary, key) in generic_run's format for one finished run and one oracle"""
    fl = case["fl"]
    fold = fl.endswith("-ci")
    key = (fl, case.get("id"), ("x",))
    if oracle == "C03" and not one_sided(case):
        return []
    if "fail" in r:
        return [("base", None, summary(case, r, {"failure": "base tree did not converge"}), None)]
    if not r["quiet"]:
        if oracle == "C02":
            return []
        return [("noquiet", None, summary(case, r, {"failure": "engine did not go quiet within %d steps (pinned engine: at most 90 on this space)" % STEP_CAP}), None)]
    out = []
    if oracle == "C01":
        out.append(("line", "c01 | %s | %s" % (enc_tree(r["L"], fold), enc_tree(r["R"], fold)), summary(case, r), key))
    elif oracle == "C02":
        out.append(("line", "c02 | %s | %s | %s" % (" ".join(r["ledger"]), enc_tree(r["L"]), enc_tree(r["R"])), summary(case, r), key))
    elif oracle == "C03" and r["one"] is not None:
        line = "c03 | %s | %s | %s | %d %d" % (enc_tree(r["expected"], fold), enc_tree(r["origin"], fold), enc_tree(r["mirror"], fold), r["ocs"], r["extra"])
        out.append(("line", line, summary(case, r, {"origin_side": r["one"]}), key))
    return out


# ------------------------------------------------------------------------------------------------ python rendering of the oracles (calibration only)

def ledger_live(evs):
    live = []
    for i, e in enumerate(evs):
        p = e.split(":")
        if p[0] == "W":
            t = p[1]
            if not any((x.split(":")[0] == "W" and x.split(":")[2] == t) or (x.split(":")[0] == "D" and x.split(":")[1] == t) for x in evs[i + 1:]):
                live.append(int(t))
    return live


def py_verdict(case, r):
    """the three oracles in python; used ONLY to build the calibration tables (the checks use the Lean monitors; `--calibrate`
    cross-checks this rendering against the Lean monitor)"""
    if "fail" in r:
        return ["base"]
    fold = case["fl"].endswith("-ci")
    if not r["quiet"]:
        return ["noquiet"]
    out = []
    if not trees_converged(r["L"], r["R"], fold):
        out.append("c01")
    have = {tag_of(v[1]) for t in (r["L"], r["R"]) for v in t.values() if v[0] == "f"}
    if any(t not in have for t in ledger_live(r["ledger"])):
        out.append("c02")
    if r["one"] is not None:
        def f(t):
            return {(k.lower() if fold else k): v for k, v in t.items()}
        if f(r["expected"]) != f(r["origin"]):
            out.append("c03:origin")
        elif f(r["mirror"]) != f(r["origin"]):
            out.append("c03:mirror")
        elif any(conflicted(k) for k in r["origin"]) or any(conflicted(k) for k in r["mirror"]):
            out.append("c03:artefact")
        elif r["ocs"]:
            out.append("c03:wrote-origin")
        elif r["extra"]:
            out.append("c03:echo")
    return out


# ------------------------------------------------------------------------------------------------ parallel execution

def _work(args):
    """worker: run a chunk of case ids for the given oracles -> list of (cid, excluded-or-None per oracle, tuples per oracle, verdicts)"""
    cids, oracles, want_verdict = args
    out = []
    for cid in cids:
        case = case_by_id(cid)
        ex = {o: excluded(case, o) for o in oracles}
        if oracles and (all(ex.values()) or (oracles == ("C03",) and not one_sided(case))):
            out.append((cid, ex, {}, None, case))
            continue
        t0 = time.time()
        try:
            r = run_case(case)
        except Exception as e:  # noqa  (an exception escaping the harness itself is reported as a hard failure of the case)
            import traceback
            r = {"fail": "harness", "trace": [traceback.format_exc()[-800:]], "error": repr(e)[:300]}
        tuples = {o: (case_lines(case, r, o) if not ex[o] else []) for o in oracles}
        v = None
        if want_verdict:
            v = {"v": py_verdict(case, r) if r.get("fail") != "harness" else ["exc"], "steps": r.get("steps"), "esc": r.get("escaped"),
                 "L": tree_lines(r["L"]) if "L" in r else None, "R": tree_lines(r["R"]) if "R" in r else None, "ledger": r.get("ledger"),
                 "err": r.get("error"), "dt": time.time() - t0,
                 "lines": {o: [t[1] for t in case_lines(case, r, o) if t[0] == "line"] for o in ("C01", "C02", "C03")}}
        out.append((cid, ex, tuples, v, case))
    return out


def run_many(cids, oracles, want_verdict=False, chunk=200, nproc=None):
    """generator over worker results, in the order of `cids`"""
    chunks = [(cids[i:i + chunk], oracles, want_verdict) for i in range(0, len(cids), chunk)]
    if not chunks:
        return
    fast_tempdir()          # scratch folder made (and removed at exit) by the parent, inherited by the forked workers
    p2_histories()          # built once in the parent, inherited by the forked workers
    corpus_cases()
    load_cal()
    with multiprocessing.get_context("fork").Pool(nproc or NPROC) as pool:
        for res in pool.imap(_work, chunks):
            for x in res:
                yield x


# ------------------------------------------------------------------------------------------------ known findings (exact replays)

# ident -> (property, case, verdict the pinned engine produces).  One exact replay per root cause.
KNOWN_X = {
    "x-two-sided-name-clash": ("C01", {"fl": "oid-oid", "st": "mock", "bs": 1, "sp": 0, "tail": "LRS",
                                       "prog": [[0, "rename", "/a", "/c"], "", [1, "mkdir", "/c"]]}, "c01"),
    "x-rename-over-vs-peer": ("C01", {"fl": "path-oidf", "st": "mock", "bs": 0, "sp": 0, "tail": "RSL",
                                      "prog": [[0, "renover", "/a", "/b"], "", [1, "write", "/b"]]}, "c01"),
    "x-respelled-root-livelock": ("C01", {"fl": "oid-oid-ci", "st": "mock", "bs": 1, "sp": 1, "tail": "LRS",
                                          "prog": [[0, "create", "/d/c"], "", [1, "rmtree", "/d"]]}, "noquiet"),
    "x-pathid-name-reuse-never-quiet": ("C01", {"fl": "path-oidf", "st": "mock", "bs": 1, "sp": 0, "tail": "LRS",
                                                "prog": [[0, "delete", "/a"], "", [0, "mkdir", "/a"]]}, "noquiet"),
    "x-pathid-folder-name-reused-by-file-never-quiet": ("C01", {"fl": "oid-path", "st": "mock", "bs": 1, "sp": 0, "tail": "LSR",
                                                                "prog": [[0, "rename", "/d", "/c"], "LS", [0, "create", "/d"]]}, "noquiet"),
    "x-folder-rename-new-child": ("C03", {"fl": "oid-oid", "st": "mock", "bs": 1, "sp": 0, "tail": "LRS",
                                          "prog": [[0, "mkdir", "/d/c"], "", [0, "rename", "/d", "/e"]]}, "c03:mirror"),
    "x-pathid-folder-rename-then-child-op": ("C03", {"fl": "path-path", "st": "mock", "bs": 0, "sp": 0, "tail": "LRS",
                                                     "prog": [[0, "rename", "/d", "/c"], "", [0, "delete", "/c/k"]]}, "c03:mirror"),
    "x-pathid-deleted-folder-name-reused-origin-changed": ("C03", {"fl": "path-oidf", "st": "mock", "bs": 1, "sp": 0, "tail": "LRS",
                                                                   "prog": [[0, "rmtree", "/d"], "", [0, "create", "/d"]]}, "c03:origin"),
    "x-edit-of-replaced-target-lost": ("C02", {"fl": "oid-oid", "st": "sqlite", "bs": 0, "sp": 0, "tail": "SRL",
                                               "prog": [[1, "write", "/a"], "R", [1, "renover", "/a", "/d/k"], "S", [0, "write", "/d/k"]]}, "c02"),
    "x-respelled-root-rename-clash-loses-file": ("C02", {"fl": "oidcs-oidci", "st": "mock", "bs": 1, "sp": 2, "tail": "SLR",
                                                         "prog": [[0, "rename", "/b", "/c"], "", [0, "create", "/b"], "", [1, "renover", "/a", "/c"]]}, "c02"),
    "x-edit-beneath-deleted-folder-lost": ("C02", {"fl": "path-oidf", "st": "sqlite", "bs": 0, "sp": 0, "tail": "RSSLS",
                                                   "prog": [[0, "write", "/d/k"], "", [1, "rmtree", "/d"], "", [1, "rename", "/b", "/d"]]}, "c02"),
}


def _verdict_of(case):
    r = run_case(case)
    return py_verdict(case, r), tree_lines(r["L"]) if "L" in r else None, tree_lines(r["R"]) if "R" in r else None


def run_isolated(case):
    """run one explicit case in a forked child (keeps the parent's module patches untouched)"""
    fast_tempdir()
    with multiprocessing.get_context("fork").Pool(1) as pool:
        return pool.apply(_verdict_of, (case,))


def replay_known(pid, ident):
    """True: the finding reproduces exactly; False: it does not (stale); None: not one of ours"""
    k = KNOWN_X.get(ident)
    if not k or k[0] != pid:
        return None
    v, _l, _r = run_isolated(k[1])
    return k[2] in v


# ------------------------------------------------------------------------------------------------ tiers: which cases a check runs

# stride per family; the slice of seed s is { i : i = offset(s) mod stride } with offset rotating through all residues, so
# `stride` consecutive seeds cover a family completely (strides are odd: coprime to the 8 flavours and the 8 tails).  C03 takes one-sided histories only (about half of P2, 40 % of the pools).
STRIDES = {
    "quick": {"C01": {"P2": 389, "P3": 347, "P4": 347}, "C02": {"P2": 389, "P3": 347, "P4": 347}, "C03": {"P2": 199, "P3": 167, "P4": 167}},
    "thorough": {"C01": {"P2": 21, "P3": 21, "P4": 21}, "C02": {"P2": 21, "P3": 21, "P4": 21}, "C03": {"P2": 13, "P3": 9, "P4": 9}},
}
SALT = {"C01": 0, "C02": 71, "C03": 137}


def one_sided(case):
    return len({x[0] for x in case["prog"] if not isinstance(x, str)}) == 1


def select(pid, tier, seed):
    """the case ids a check runs for (tier, seed): the whole corpus + the seed's slice of P2, P3, P4"""
    ids = ["K:%d" % i for i in range(n_cases("K"))]
    for fam, stride in STRIDES[tier][pid].items():
        off = (seed * 37 + SALT[pid] + 11 * int(fam[1])) % stride
        ids += ["%s:%d" % (fam, i) for i in range(off, n_cases(fam), stride)]
    return ids


def x_cases(pid, tier, seed, stats):
    """generator in generic_run's format; fills `stats` (the coverage block) as a side effect"""
    cal = load_cal()
    if cal["meta"].get("missing"):
        raise HarnessError("harness/families_x_cal.json is missing (run `python harness/families_x.py --calibrate ...`)")
    ids = select(pid, tier, seed)
    t0 = time.time()
    st = stats
    st.update({"selected": len(ids), "run": 0, "lines": 0, "not_applicable_two_sided": 0, "excluded_by_rule": {}, "per_family": {}, "per_flavour": {},
               "per_length": {}, "per_storage": {}, "per_gap_pattern": {}, "per_tail": {}, "per_corpus_shape": {}, "not_quiet_skipped": 0,
               "calibrated_against": cal["meta"].get("engine"), "reverified": cal["meta"].get("reverified"),
               "strides": STRIDES[tier][pid], "space": {f: n_cases(f) for f in ("K", "P2", "P3", "P4")}, "seed": seed})

    def bump(d, k):
        st[d][k] = st[d].get(k, 0) + 1
    for cid, ex, tuples, _v, case in run_many(ids, (pid,)):
        if pid == "C03" and not one_sided(case):
            st["not_applicable_two_sided"] += 1
            continue
        if ex[pid]:
            bump("excluded_by_rule", ex[pid][0])
            continue
        st["run"] += 1
        bump("per_family", cid.split(":")[0])
        bump("per_flavour", case["fl"])
        bump("per_storage", case["st"])
        bump("per_length", str(len([x for x in case["prog"] if not isinstance(x, str)])))
        for g in [x for x in case["prog"] if isinstance(x, str)]:
            bump("per_gap_pattern", g or "(none)")
        bump("per_tail", case["tail"])
        if case.get("name"):
            bump("per_corpus_shape", case["name"])
        ts = tuples[pid]
        if not ts:
            st["not_quiet_skipped"] += 1
        for t in ts:
            st["lines"] += 1
            yield t
    st["wall_s"] = round(time.time() - t0, 1)


# ------------------------------------------------------------------------------------------------ calibration (never run by a check)

CAUSES = [
    # (rule id, predicate over (same, ci, cj, rel set, pcs)) -- first match labels a failing table row; purely descriptive
    ("x-respelled-root-livelock", lambda same, ci, cj, rel, pc, star: star and (cj in ("rmdir", "rmtree") or ci in ("rmdir", "rmtree")) and not same),
    ("x-pathid-name-reuse", lambda same, ci, cj, rel, pc, star: same and pc[0].startswith("P") and any(r in rel for r in ("s=d", "d=s", "d=d", "s=s")) or
     (same and pc[0].startswith("P") and "renover" in (ci, cj))),
    ("x-delete-then-folder-reuse", lambda same, ci, cj, rel, pc, star: same and any(r in rel for r in ("s=d", "d=s", "d=d"))),
    ("x-folder-rename-new-child", lambda same, ci, cj, rel, pc, star: same and cj in ("rnD", "mvD") and ci in ("mkdir", "create", "renover", "mvF", "rnF")),
    ("x-folder-rename-then-child-op-pathid", lambda same, ci, cj, rel, pc, star: same and ci in ("rnD", "mvD")),
    ("x-rename-over-vs-peer", lambda same, ci, cj, rel, pc, star: not same and "renover" in (ci, cj)),
    ("x-two-sided-name-clash", lambda same, ci, cj, rel, pc, star: not same and "d=d" in rel),
    ("x-folder-delete-vs-peer-change", lambda same, ci, cj, rel, pc, star: not same and (cj in ("rmdir", "rmtree") or ci in ("rmdir", "rmtree"))),
    ("x-folder-rename-vs-peer", lambda same, ci, cj, rel, pc, star: not same and (ci in ("rnD", "mvD") or cj in ("rnD", "mvD"))),
    ("x-two-sided-same-object", lambda same, ci, cj, rel, pc, star: not same),
    ("x-other", lambda *a: True),
]


def cause_of(key):
    p = key.split("|")
    same, ci, cj, rel, pcs = p[0] == "same", p[1], p[2], p[3].split(), p[4]
    star = pcs.endswith("*")
    pc = pcs.rstrip("*").split("/")
    for name, pred in CAUSES:
        if pred(same, ci, cj, rel, pc, star):
            return name
    return "x-other"


def _oracles_of(vs):
    o = set()
    for v in vs:
        if v in ("c01", "noquiet", "base", "exc"):
            o.add("c01")
        elif v.startswith("c03"):
            o.add("c03")
        elif v == "c02":
            o.add("c02")
    return o


def calibrate_run(fam, out_path, stride=1, offset=0, nproc=None):
    """run every case of a family on the engine under test, write the failing ones (and the census of shape classes)"""
    n = n_cases(fam)
    cids = ["%s:%d" % (fam, i) for i in range(offset, n, stride)]
    t0 = time.time()
    nf = 0
    mx = 0
    tot = 0
    check_lines = []
    with open(out_path, "w") as f:
        for cid, _ex, _t, v, case in run_many(cids, (), want_verdict=True, chunk=400, nproc=nproc):
            tot += 1
            if "noquiet" not in v["v"]:
                mx = max(mx, v["steps"] or 0)
            if v["v"] or v["esc"]:
                nf += 1
                f.write(json.dumps({"id": cid, "case": case, "v": v["v"], "esc": v["esc"], "L": v["L"], "R": v["R"], "ledger": v["ledger"], "err": v["err"]}) + "\n")
            if v["v"] or tot % 50 == 0:
                for o, ls in v["lines"].items():
                    for ln in ls:
                        check_lines.append((cid, o, ln, v["v"]))
            if tot % 50000 == 0:
                print("  %s %d/%d failing %d max-steps %d %.0fs" % (fam, tot, len(cids), nf, mx, time.time() - t0), flush=True)
    # the python rendering of the oracles must agree with the Lean monitor
    verdicts = run_driver("monitor", [c[2] for c in check_lines]) if check_lines else []
    bad = 0
    for (cid, o, ln, v), lv in zip(check_lines, verdicts):
        py_bad = ("c01" in v) if o == "C01" else ("c02" in v) if o == "C02" else any(x.startswith("c03") for x in v)
        if (lv != "ok") != py_bad:
            bad += 1
            print("  ORACLE MISMATCH %s %s lean=%s python=%s" % (cid, o, lv, v))
    print("%s: %d cases, %d failing, max steps to quiet %d, %d lines cross-checked with the Lean monitor (%d mismatches), %.0fs"
          % (fam, tot, nf, mx, len(check_lines), bad, time.time() - t0), flush=True)
    return bad == 0


def calibrate_table(fail_files, out_path=CAL_PATH):
    """build the exclusion tables from the failure files of complete runs: the pair-class table from P2, and for the corpus and
    the (finite, fixed) pools the list of failing members the pair table does not already exclude"""
    global _CAL
    fails = {}
    for p in fail_files:
        for line in open(p):
            r = json.loads(line)
            if r["v"]:
                fails[r["id"]] = r["v"]
    pairs = {}
    census = {}
    n2 = n_cases("P2")
    for i in range(n2):
        cid = "P2:%d" % i
        case = case_by_id(cid)
        singles, prs, _one = shape_keys(case)
        k = prs[0][2] if prs else singles[0]
        c = census.setdefault(k, [0, 0])
        c[0] += 1
        if cid in fails:
            if not prs:
                raise HarnessError("a single operation fails on the engine under test: %s %s" % (cid, fails[cid]))
            c[1] += 1
            e = pairs.setdefault(k, {"o": set(), "v": {}})
            e["o"] |= _oracles_of(fails[cid])
            for v in fails[cid]:
                e["v"][v] = e["v"].get(v, 0) + 1
    for k, e in pairs.items():
        e["o"] = sorted(e["o"])
        e["n"], e["bad"] = census[k]
        e["cause"] = cause_of(k)
    residual = {"C01": [], "C02": [], "C03": []}
    stats = {}
    for fam in ("K", "P3", "P4"):
        st = stats.setdefault(fam, {"cases": n_cases(fam), "failing_on_pinned_engine": {"C01": 0, "C02": 0, "C03": 0},
                                    "of_those_not_excluded_by_the_pair_table": {"C01": 0, "C02": 0, "C03": 0}})
        for cid in sorted((c for c in fails if c.startswith(fam + ":")), key=lambda c: int(c.split(":")[1])):
            case = case_by_id(cid)
            _singles, prs, one = shape_keys(case)
            os_ = _oracles_of(fails[cid])
            for oracle in ("C01", "C02", "C03"):
                want = set(WANT[oracle])
                if not (os_ & want) or (oracle == "C03" and one is None):
                    continue
                st["failing_on_pinned_engine"][oracle] += 1
                if any(k in pairs and (set(pairs[k]["o"]) & want) for _i, _j, k in prs):
                    continue
                st["of_those_not_excluded_by_the_pair_table"][oracle] += 1
                residual[oracle].append(cid)
                if len(prs) == 1:
                    raise HarnessError("corpus case %s fails but its pair class is clean in P2" % cid)
    meta = {"engine": os.popen("git -C %s rev-parse --short HEAD 2>/dev/null" % REPO).read().strip(), "pair_classes_total": len(census),
            "pair_classes_excluded": len(pairs), "p2_cases": n2, "p2_failing": sum(c[1] for c in census.values()),
            "p2_excluded_c01": sum(c[0] for k, c in census.items() if k in pairs and "c01" in pairs[k]["o"]),
            "p2_excluded_c03": sum(c[0] for k, c in census.items() if k in pairs),
            "residual_members_excluded": {o: len(v) for o, v in residual.items()}, "families": stats,
            "by_cause": {}}
    for k, e in pairs.items():
        b = meta["by_cause"].setdefault(e["cause"], {"classes": 0, "cases_excluded": 0, "failing_on_pinned_engine": 0, "verdicts": {}})
        b["classes"] += 1
        b["cases_excluded"] += e["n"]
        b["failing_on_pinned_engine"] += e["bad"]
        for v, c in e["v"].items():
            b["verdicts"][v] = b["verdicts"].get(v, 0) + c
    _CAL = {"meta": meta, "pairs": pairs, "residual": residual}
    with open(out_path, "w") as f:
        json.dump(_CAL, f, indent=0, sort_keys=True)
    print(json.dumps(meta, indent=1))


def show(cid):
    case = case_by_id(cid)
    r = run_case(case)
    print(json.dumps(summary(case, r, {"python_verdict": py_verdict(case, r), "excluded": {o: excluded(case, o) for o in ("C01", "C02", "C03")},
                                      "escaped": r.get("escaped")}), indent=1, default=str))
    lines = [t[1] for o in ("C01", "C02", "C03") for t in case_lines(case, r, o) if t[0] == "line"]
    for ln, v in zip(lines, run_driver("monitor", lines)):
        print("monitor: %s  <=  %s" % (v, ln[:160]))


if __name__ == "__main__":
    a = sys.argv[1:]
    if a[:1] == ["--show"]:
        show(a[1])
    elif a[:2] == ["--calibrate", "run"]:
        ok = calibrate_run(a[2], a[3], stride=int(a[4]) if len(a) > 4 else 1, offset=int(a[5]) if len(a) > 5 else 0)
        sys.exit(0 if ok else 1)
    elif a[:2] == ["--calibrate", "table"]:
        calibrate_table(a[2:])
    else:
        print("usage: families_x.py --show <case id> | --calibrate run <P2|P3|P4|K> <out.jsonl> [stride [offset]] | --calibrate table <failure files...>")
