"""C08 — persisted sync state equals in-memory state and round-trips unchanged.

Ties of the Lean model (lean/Csverif/Model/Codec.lean: namespaces CS.Codec and CS.Persist) to /repo:
  (a) codec: generated dicts (current and legacy shapes, odd values) through the real msgpack + SyncEntry(…, storage_init)
      vs `Entry.deserialize`; generated entries through the real `serialize` vs `Entry.row`; full round trips;
  (b) state: random sequences of hooked attribute writes, `update` events (decomposed by tracing into the top-level
      hooked writes they perform), commits and reloads on a real SyncState over MockStorage and over SqliteStorage on a
      temp file, vs the model; after every operation the whole state (entries, both indexes, pending set, dirty set,
      decoded rows) is compared;
  (c) generated fact table: tools/gen_direct_writes.py regenerates lean/Csverif/Gen/DirectWrites.lean from the repo and
      Props/C08Writes.lean proves (decide) that it equals the audited list.
Search oracle after a break: the C08 statements evaluated on the implementation (round-trip field equality; after a
commit the rows decode exactly to the live non-trash entries; reload equivalence on non-None keys), on the state API
and on whole-engine runs (CloudSync over two mock providers, checked after every step)."""
import math
import os
import shutil
import struct
import subprocess
import sys
import tempfile

sys.path.insert(0, os.path.dirname(os.path.abspath(__file__)))
from common import *  # noqa

PID = "C08"
TAG = "tag"
FP_SPEC = {"cloudsync/sync/state.py": [
    "SideState.__setattr__", "SideState._translate_exists", "SideState._set_exists", "SideState._set_mtime",
    "SideState.uncorrupt", "SideState.serialize", "SideState.deserialize", "SyncEntry.__init__", "SyncEntry.__setattr__",
    "SyncEntry.serialize", "SyncEntry.deserialize", "SyncEntry.__setitem__", "SyncState.__init__", "SyncState.updated",
    "SyncState._change_path", "SyncState._update_kids", "SyncState._update_kids_of", "SyncState._change_oid", "SyncState.get_kids", "SyncState.get_all",
    "SyncState.lookup_oid", "SyncState.lookup_path", "SyncState.storage_commit", "SyncState._storage_update",
    "SyncState.update", "SyncState.update_entry", "SyncState.mark_changed"],
    "cloudsync/types.py": ["OType", "IgnoreReason"],
    "cloudsync/event.py": ["EventManager._process_event", "EventManager._do_unsafe", "EventManager._do_walk_if_needed",
                           "EventManager._do_first_init", "EventManager.do", "EventManager.queue"],
    "cloudsync/cs.py": ["CloudSync.walk"],
    "cloudsync/sync/manager.py": ["SyncManager.do", "SyncManager._sync_one_entry"]}

# ------------------------------------------------------------------------------------------------ wire encoding

_tok = {}


def key_token(k):
    r = repr(k)
    if r not in _tok:
        _tok[r] = len(_tok)
    return "O%d" % _tok[r]


def enc_val(x):
    if x is None:
        return "N"
    if x is True:
        return "T"
    if x is False:
        return "F"
    if isinstance(x, int):
        return "I%d" % x
    if isinstance(x, float):
        return "D%d" % struct.unpack(">Q", struct.pack(">d", x))[0]
    if isinstance(x, str):
        return "S" + enc_str(x)
    if isinstance(x, (bytes, bytearray)):
        return "B" + (bytes(x).hex() or "-")
    if isinstance(x, list):
        return "L(" + ",".join(enc_val(i) for i in x) + ")"
    if isinstance(x, tuple):
        return "U(" + ",".join(enc_val(i) for i in x) + ")"
    if isinstance(x, dict):
        out = []
        for k, v in x.items():
            if isinstance(k, str):
                ks = "S" + enc_str(k)
            elif isinstance(k, bytes):
                ks = "B" + (k.hex() or "-")
            elif isinstance(k, int) and not isinstance(k, bool):
                ks = "I%d" % k
            else:
                ks = key_token(k)
            out.append(ks + ":" + enc_val(v))
        return "M(" + ",".join(out) + ")"
    raise HarnessError("cannot encode %r" % (x,))


def us(s):
    return s.replace(" ", "_")


class Repo:
    """the classes of the repo under test"""
    def __init__(self):
        import_repo()
        import msgpack
        import cloudsync.sync.state as state_mod
        from cloudsync.sync.state import SyncState, SyncEntry, SideState, Exists
        from cloudsync.types import OType, IgnoreReason
        from cloudsync.tests.fixtures.mock_storage import MockStorage
        from cloudsync.sync.sqlite_storage import SqliteStorage
        from cloudsync.providers.mock import MockProvider
        self.msgpack, self.state_mod = msgpack, state_mod
        self.SyncState, self.SyncEntry, self.SideState, self.Exists = SyncState, SyncEntry, SideState, Exists
        self.OType, self.IgnoreReason = OType, IgnoreReason
        self.MockStorage, self.SqliteStorage, self.MockProvider = MockStorage, SqliteStorage, MockProvider
        self.provs = (MockProvider(oid_is_path=False, case_sensitive=True), MockProvider(oid_is_path=False, case_sensitive=True))

    def loading_state(self):
        st = self.SyncState(self.provs, None, None)
        st._loading = True
        return st

    def unpack(self, b):
        return self.msgpack.loads(b, use_list=False, raw=False, strict_map_key=False)


SIDE_ATTRS = ["_otype", "_side", "_hash", "_changed", "_sync_hash", "_sync_path", "_path", "_oid", "_exists", "_temp_file",
              "_size", "_mtime", "_saved_exists", "_force_sync"]


def enc_side(s):
    g = lambda a: object.__getattribute__(s, a)
    sv = g("_saved_exists")
    return [us(g("_otype").value) if g("_otype") is not None else "?none", enc_val(g("_side")), enc_val(g("_hash")),
            enc_val(g("_changed")), enc_val(g("_sync_hash")), enc_val(g("_sync_path")), enc_val(g("_path")), enc_val(g("_oid")),
            us(g("_exists").value), enc_val(g("_temp_file")), enc_val(g("_size")), enc_val(g("_mtime")),
            "~" if sv is None else us(sv.value), enc_val(g("_force_sync"))]


def enc_entry(e):
    g = lambda a: object.__getattribute__(e, a)
    sid = g("_storage_id")
    return " ".join([us(g("_ignored").value), "%d" % g("_priority"), "~" if sid is None else "%d" % sid] + enc_side(e[0]) + enc_side(e[1]))


# ------------------------------------------------------------------------------------------------ value generators

def gen_scalar(rng):
    return rng.choice([None, True, False, 0, 1, -1, 7, 2 ** 31, 2 ** 63 - 1, -2 ** 63, 2 ** 64 - 1, 1.5, 0.0, -0.0, float("inf"),
                       1e300, 12345.678, "", "a", "abc", "é中𝄞", "/a/b", "x y", b"", b"\x00\xff", b"abc", b"\xc3\x28",
                       bytes(rng.getrandbits(8) for _ in range(rng.randint(1, 20)))])


def gen_val(rng, depth=0, allow_bad=True):
    r = rng.random()
    if depth >= 3 or r < 0.55:
        if allow_bad and rng.random() < 0.02:
            return rng.choice([2 ** 64, -2 ** 63 - 1, 2 ** 70])         # OverflowError in dumps
        return gen_scalar(rng)
    if r < 0.70:
        return tuple(gen_val(rng, depth + 1, allow_bad) for _ in range(rng.randint(0, 3)))
    if r < 0.82:
        return [gen_val(rng, depth + 1, allow_bad) for _ in range(rng.randint(0, 3))]
    d = {}
    for _ in range(rng.randint(0, 3)):
        kr = rng.random()
        if kr < 0.7 or not allow_bad:
            k = rng.choice(["a", "b", "k", "é", ""])
        elif kr < 0.85:
            k = rng.choice([b"a", b"\xff", b""])
        else:
            k = rng.choice([1, 0, -5, None, 2.5, (1, 2), 2 ** 40])       # rejected by loads (strict_map_key)
        d[k] = gen_val(rng, depth + 1, allow_bad)
    return d


def gen_hash(rng, allow_bad=True):
    r = rng.random()
    if r < 0.25:
        return rng.choice([None, b"\x01\x02", b"h1", "h2", 17, b""])
    return gen_val(rng, 0, allow_bad)


PATHS = [None, "", "/a", "/a/b", "/a/b/c", "/d", "/a2", "/A", "/é中", "/a/é", "/d/e", "/a\\b"]
OIDS = [None, "", "a", "b", "c", "d", "é", 5]
EX_VALUES = ["unknown", "exists", "trashed", "missing", "likely-trashed", "corrupt"]
IG_VALUES = ["none", "discarded", "conflict", "temp rename", "irrelevant"]
OT_VALUES = ["dir", "file", "trashed"]


def gen_side_dict(rng, side, allow_bad=True):
    return {
        "otype": rng.choice(OT_VALUES), "side": side, "hash": gen_hash(rng, allow_bad),
        "changed": rng.choice([None, None, 0, 1, 5, 1700000000.25, False, True]),
        "sync_hash": gen_hash(rng, allow_bad) if rng.random() < 0.5 else None, "path": rng.choice(PATHS),
        "sync_path": rng.choice(PATHS), "oid": rng.choice(OIDS + [gen_val(rng, 1, allow_bad)]), "exists": rng.choice(EX_VALUES),
        "temp_file": rng.choice([None, None, "/tmp/x", "é"]), "size": rng.choice([None, 0, 10, 2 ** 40]),
        "mtime": rng.choice([None, 0, 1700000000, 1700000000.5]),
        "_saved_exists": rng.choice([None, None] + EX_VALUES),
    }


def gen_entry_dict(rng, allow_bad=True):
    return {"side0": gen_side_dict(rng, 0, allow_bad), "side1": gen_side_dict(rng, 1, allow_bad), "ignored": rng.choice(IG_VALUES),
            "priority": rng.choice([0, 0, 1, -1, 3])}


def mutate_dict(rng, d):
    """legacy shapes and odd values, one to three per case; returns the list of mutation kinds"""
    kinds = []
    for _ in range(rng.choice([1, 1, 2, 3])):
        k = rng.choice(["legacy_exists", "drop_optional", "legacy_ignored", "bad_saved", "bad_exists", "bad_otype", "bad_mtime",
                        "drop_required", "side_shape", "odd_side", "ignored_odd", "corrupt_saved", "drop_top", "all_legacy"])
        kinds.append(k)
        sd = d.get(rng.choice(["side0", "side1"]))
        if k == "legacy_exists" and isinstance(sd, dict):
            sd["exists"] = rng.choice([True, False, None])
        elif k == "drop_optional" and isinstance(sd, dict):
            for kk in rng.sample(["size", "mtime", "_saved_exists"], rng.randint(1, 3)):
                sd.pop(kk, None)
            if rng.random() < 0.5:
                d.pop("priority", None)
        elif k == "legacy_ignored":
            c = rng.random()
            if c < 0.35:
                d["ignored"] = "trashed"
            else:
                d.pop("ignored", None)
                if c < 0.8:
                    d["discarded"] = rng.choice([True, False, 1, 0, "", "x", None])
                if rng.random() < 0.6:
                    d["conflicted"] = rng.choice([True, False, 1, 0, "", "x", None])
        elif k == "bad_saved" and isinstance(sd, dict):
            sd["_saved_exists"] = rng.choice(["bogus", 0, 5, True, False, "", (), (1,), {}, {"a": 1}, b"", b"exists", 0.0, 2.5, "Exists"])
        elif k == "bad_exists" and isinstance(sd, dict):
            sd["exists"] = rng.choice(["bogus", 0, 1, 5, "", b"exists", (1,), "EXISTS", 1.0])
        elif k == "bad_otype" and isinstance(sd, dict):
            sd["otype"] = rng.choice(["bogus", None, 5, "FILE", b"file", ("file",)])
        elif k == "bad_mtime" and isinstance(sd, dict):
            sd["mtime"] = rng.choice(["yesterday", b"1", (1,), True, -5, {}])
        elif k == "drop_required" and isinstance(sd, dict):
            sd.pop(rng.choice(["otype", "side", "hash", "changed", "sync_hash", "sync_path", "oid", "path", "exists", "temp_file"]), None)
        elif k == "side_shape":
            d[rng.choice(["side0", "side1"])] = rng.choice([None, "abc", (1, 2), 5, b"x", True, 1.5])
        elif k == "odd_side" and isinstance(sd, dict):
            sd["side"] = rng.choice([1, 0, 7, None, "0", True])
        elif k == "ignored_odd":
            d["ignored"] = rng.choice(["bogus", 5, "", None, 0, b"discarded", ("discarded",), True, "Discarded", "none"])
        elif k == "corrupt_saved" and isinstance(sd, dict):
            sd["exists"] = "corrupt"
            if rng.random() < 0.7:
                sd["_saved_exists"] = rng.choice(EX_VALUES)
            else:
                sd.pop("_saved_exists", None)
        elif k == "drop_top":
            d.pop(rng.choice(["side0", "side1", "ignored", "priority"]), None)
        elif k == "all_legacy":
            for s in ("side0", "side1"):
                if isinstance(d.get(s), dict):
                    d[s]["exists"] = rng.choice([True, False, None])
                    for kk in ("size", "mtime", "_saved_exists"):
                        d[s].pop(kk, None)
            d.pop("priority", None)
            d.pop("ignored", None)
            if rng.random() < 0.5:
                d["discarded"] = rng.choice([True, False])
            if rng.random() < 0.5:
                d["conflicted"] = rng.choice([True, False])
    return kinds


# ------------------------------------------------------------------------------------------------ (a) codec

def real_deser(R, sid, d):
    try:
        b = R.msgpack.dumps(d, use_bin_type=True)
    except (OverflowError, TypeError) as e:
        return "dumps-err " + type(e).__name__
    try:
        ent = R.SyncEntry(R.loading_state(), None, (sid, b))
    except Exception as e:  # noqa
        return "err " + type(e).__name__
    return "ok " + enc_entry(ent)


def build_entry(R, rng, allow_bad=True, wellformed=False):
    ent = R.SyncEntry(R.loading_state(), R.OType(rng.choice(OT_VALUES)))
    object.__setattr__(ent, "_ignored", R.IgnoreReason(rng.choice(IG_VALUES)))
    object.__setattr__(ent, "_priority", rng.choice([0, 0, 1, -1, 3, 10 ** 6]))
    object.__setattr__(ent, "_storage_id", rng.choice([None, 0, 1, 17]))
    for i in (0, 1):
        d = gen_side_dict(rng, i, allow_bad)
        s = ent[i]
        object.__setattr__(s, "_otype", R.OType(d["otype"]))
        object.__setattr__(s, "_side", i if (wellformed or rng.random() < 0.9) else rng.choice([1 - i, 7, None]))
        for k in ("hash", "changed", "sync_hash", "sync_path", "path", "oid", "temp_file", "size"):
            object.__setattr__(s, "_" + k, d[k])
        object.__setattr__(s, "_mtime", d["mtime"] if (wellformed or rng.random() < 0.95) else rng.choice(["bad", (1,)]))
        object.__setattr__(s, "_exists", R.Exists(d["exists"]))
        object.__setattr__(s, "_saved_exists", None if d["_saved_exists"] is None else R.Exists(d["_saved_exists"]))
        object.__setattr__(s, "_force_sync", rng.choice([False, False, True]))
    return ent


def real_row(R, ent):
    try:
        b = ent.serialize()
    except (OverflowError, TypeError) as e:
        return "err " + type(e).__name__, None
    return "ok " + enc_val(R.unpack(b)), b


def real_rt(R, sid, ent):
    try:
        b = ent.serialize()
    except (OverflowError, TypeError) as e:
        return "dumps-err " + type(e).__name__
    try:
        e2 = R.SyncEntry(R.loading_state(), None, (sid, b))
    except Exception as e:  # noqa
        return "err " + type(e).__name__
    return "ok " + enc_entry(e2)


def codec_correspondence(R, rng, n):
    lines, reals, meta = [], [], []
    hist = {}
    for i in range(n):
        c = i % 4
        if c in (0, 1):
            d = gen_entry_dict(rng)
            kinds = ["wellformed"] if c == 0 and rng.random() < 0.5 else mutate_dict(rng, d)
            sid = rng.choice([0, 1, 5, 99])
            try:
                line = "deser %d %s" % (sid, enc_val(d))
            except HarnessError:
                continue
            lines.append(line)
            reals.append(real_deser(R, sid, d))
            meta.append({"kind": "deser", "mutations": kinds, "dict": repr(d)[:1500]})
            for k in kinds:
                hist["deser:" + k] = hist.get("deser:" + k, 0) + 1
        elif c == 2:
            ent = build_entry(R, rng)
            lines.append("row " + enc_entry(ent))
            reals.append(real_row(R, ent)[0])
            meta.append({"kind": "row", "entry": enc_entry(ent)[:1500]})
            hist["row"] = hist.get("row", 0) + 1
        else:
            ent = build_entry(R, rng)
            sid = rng.choice([0, 1, 5, 99])
            lines.append("rt %d %s" % (sid, enc_entry(ent)))
            reals.append(real_rt(R, sid, ent))
            meta.append({"kind": "rt", "entry": enc_entry(ent)[:1500]})
            hist["rt"] = hist.get("rt", 0) + 1
    model = run_driver("codec", lines)
    dis = []
    outcomes = {}
    for ln, r, m, mt in zip(lines, reals, model, meta):
        o = " ".join(r.split()[:2]) if not r.startswith("ok") else "ok"
        outcomes[mt["kind"] + ":" + o] = outcomes.get(mt["kind"] + ":" + o, 0) + 1
        if r != m:
            dis.append({"layer": "codec", "line": ln[:3000], "implementation": r[:3000], "model": m[:3000], "case": mt})
    return lines, reals, dis, hist, outcomes


# ------------------------------------------------------------------------------------------------ (b) state level

class OSet:
    """insertion-ordered set: one admissible iteration order of the real program"""
    def __init__(self, it=()):
        self._d = dict.fromkeys(it)

    def add(self, x):
        self._d[x] = None

    def discard(self, x):
        self._d.pop(x, None)

    def remove(self, x):
        del self._d[x]

    def clear(self):
        self._d.clear()

    def copy(self):
        return OSet(self._d)

    def __iter__(self):
        return iter(self._d)

    def __contains__(self, x):
        return x in self._d

    def __len__(self):
        return len(self._d)

    def __bool__(self):
        return bool(self._d)


class FakeTime:
    """integer virtual clock, strictly increasing"""
    def __init__(self):
        self.t = 1000

    def time(self):
        self.t += 1
        return self.t

    def monotonic(self):
        return self.time()

    def sleep(self, _s):
        pass


class Harnessed:
    """a real SyncState with deterministic set order / clock, entry numbering, and a tracer that decomposes an
    `update` call into the top-level hooked writes it performs."""
    DBN = 0

    def __init__(self, R, backend, tmpdir):
        self.R, self.backend, self.tmpdir = R, backend, tmpdir
        self.ents = []
        self.trace = None
        self.depth = 0
        self.storage = None
        self.dbn = 0
        self.state = None
        self.ignore_new = False
        self.capture = None

    # -- patching
    def __enter__(self):
        R = self.R
        mod = R.state_mod
        self._saved = (mod.__dict__.get("set"), mod.time, R.SyncEntry.__init__, R.SideState.__setattr__, R.SyncEntry.__setattr__)
        mod.set = OSet
        mod.time = FakeTime()
        H = self
        o_init, o_sset, o_eset = R.SyncEntry.__init__, R.SideState.__setattr__, R.SyncEntry.__setattr__

        def init(self_, *a, **kw):
            o_init(self_, *a, **kw)
            if H.capture is not None:
                H.capture.append(self_)
            elif not H.ignore_new:
                H.ents.append(self_)
                if H.trace is not None:
                    H.trace.append("new %s" % us(self_[0].otype.value))

        def sset(self_, k, v):
            if k[0] == "_" or H.trace is None:
                return o_sset(self_, k, v)
            if H.depth == 0:
                H.trace.append(H.side_line(self_, k, v))
            H.depth += 1
            try:
                return o_sset(self_, k, v)
            finally:
                H.depth -= 1

        def eset(self_, k, v):
            if k[0] == "_" or H.trace is None:
                return o_eset(self_, k, v)
            if H.depth == 0:
                H.trace.append(H.ent_line(self_, k, v))
            H.depth += 1
            try:
                return o_eset(self_, k, v)
            finally:
                H.depth -= 1
        R.SyncEntry.__init__, R.SideState.__setattr__, R.SyncEntry.__setattr__ = init, sset, eset
        return self

    def __exit__(self, *a):
        R = self.R
        mod = R.state_mod
        st, tm, i, s, e = self._saved
        if st is None:
            mod.__dict__.pop("set", None)
        else:
            mod.set = st
        mod.time = tm
        R.SyncEntry.__init__, R.SideState.__setattr__, R.SyncEntry.__setattr__ = i, s, e
        self.close()

    def close(self):
        if self.storage is not None and hasattr(self.storage, "close"):
            try:
                self.storage.close()
            except Exception:  # noqa
                pass
        self.storage = None

    # -- encoding of writes
    def idx(self, ent):
        for i, e in enumerate(self.ents):
            if e is ent:
                return i
        raise HarnessError("unregistered entry")

    def side_line(self, s, k, v):
        parent = object.__getattribute__(s, "_parent")
        sd = 0 if parent[0] is s else 1
        return "ws %d %d %s %s" % (self.idx(parent), sd, k, self.enc_write(k, v))

    def enc_write(self, k, v):
        if k == "otype":
            return us(v.value)
        if k == "exists":
            return "E" + us(v.value) if isinstance(v, self.R.Exists) else "R" + enc_val(v)
        return enc_val(v)

    def ent_line(self, e, k, v):
        if k == "ignored":
            return "we %d ignored %s" % (self.idx(e), us(v.value))
        if k == "priority":
            return "we %d priority %d" % (self.idx(e), v)
        raise HarnessError("untraced entry attribute %s" % k)

    # -- operations (each returns (model lines, real result of the last line))
    def reset(self):
        self.close()
        self.ents = []
        if self.backend == "mock":
            self.sdict = {}
            self.storage = self.R.MockStorage(self.sdict)
        else:
            Harnessed.DBN += 1
            self.storage = self.R.SqliteStorage(os.path.join(self.tmpdir, "s%d.db" % Harnessed.DBN))
        self.state = self.R.SyncState(self.R.provs, self.storage, TAG)
        self.state._punt_secs = (1, 1)

    def reload(self):
        self.ents = []
        self.state = self.R.SyncState(self.R.provs, self.storage, TAG)
        self.state._punt_secs = (1, 1)

    def guarded(self, f):
        try:
            f()
            return "ok"
        except RecursionError:
            return "err Recursion"
        except Exception as e:  # noqa
            return "err " + type(e).__name__

    def new(self, ot):
        self.R.SyncEntry(self.state, self.R.OType(ot))
        return "ent %d" % (len(self.ents) - 1)

    def ws(self, i, sd, k, v):
        return self.guarded(lambda: setattr(self.ents[i][sd], k, v))

    def we(self, i, k, v):
        return self.guarded(lambda: setattr(self.ents[i], k, v))

    def commit(self):
        return self.guarded(self.state.storage_commit)

    def update(self, side, ot, oid, **kw):
        self.trace = []
        self.depth = 0
        try:
            r = self.guarded(lambda: self.state.update(side, self.R.OType(ot), oid, **kw))
        finally:
            tr, self.trace = self.trace, None
        return tr, r

    # -- digest, in the format of Driver/Codec.lean `encState` (without the ghost part)
    def dictn(self, d):
        return "{" + ",".join("%s>%d" % (enc_val(k), self.idx(e)) for k, e in d.items()) + "}"

    def ix(self, sd):
        st = self.state
        return "oids=" + self.dictn(st._oids[sd]) + " paths={" + ",".join(
            "%s>%s" % (enc_val(p), self.dictn(d)) for p, d in st._paths[sd].items()) + "}"

    def rows(self):
        rows = self.storage.read_all(TAG)
        return "[" + ";".join("%d=%s" % (k, enc_val(self.R.unpack(v))) for k, v in rows.items()) + "]"

    def dump(self):
        st = self.state
        return ("ents=[" + " | ".join(enc_entry(e) for e in self.ents) + "] L:" + self.ix(0) + " R:" + self.ix(1) +
                " cs=[" + ",".join(str(self.idx(e)) for e in st._changeset_storage) + "]" +
                " dirty=[" + ",".join(str(self.idx(e)) for e in st._dirtyset) + "]" + " rows=" + self.rows())

    def lo(self, sd, k):
        e = self.state.lookup_oid(sd, k)
        return "~" if e is None else str(self.idx(e))

    def lp(self, sd, k, stale):
        return "[" + ",".join(str(self.idx(e)) for e in self.state.lookup_path(sd, k, stale=stale)) + "]"


CHANGED_VALS = [None, 0, 1, 5, 9, False, True, 100, 2000]
W_KEYS = ["oid"] * 6 + ["path"] * 6 + ["changed"] * 4 + ["exists"] * 4 + ["hash"] * 3 + ["sync_hash", "sync_path", "sync_path", "otype",
                                                                                       "size", "mtime", "temp_file", "force_sync"]


def gen_write_value(R, rng, k):
    if k == "oid":
        return rng.choice(OIDS[:7] + ["a", "b", "c", None])
    if k in ("path", "sync_path"):
        return rng.choice(PATHS)
    if k == "changed":
        return rng.choice(CHANGED_VALS)
    if k == "exists":
        r = rng.random()
        if r < 0.6:
            return R.Exists(rng.choice(EX_VALUES + ["corrupt", "corrupt"]))
        return rng.choice([True, False, None, "exists", "trashed", "corrupt", "bogus", 5])
    if k in ("hash", "sync_hash"):
        return gen_hash(rng, allow_bad=rng.random() < 0.15) if rng.random() < 0.6 else rng.choice([None, b"h1", b"h2", True, 1])
    if k == "otype":
        return R.OType(rng.choice(OT_VALUES))
    if k == "size":
        return rng.choice([None, 0, 10, 2 ** 40])
    if k == "mtime":
        return rng.choice([None, 0, 1700000000, 1700000000.5, "bad"])
    if k == "temp_file":
        return rng.choice([None, "/tmp/x"])
    if k == "force_sync":
        return rng.choice([True, False])
    raise HarnessError(k)


def state_sequence(H, rng, nops, stats):
    """run one random sequence on the real state; return (model lines, real outputs)"""
    R = H.R
    lines, reals = [], []

    def emit(line, real):
        lines.append(line)
        reals.append(real)

    def check():
        emit("dump", H.dump())
    H.reset()
    emit("reset " + H.backend, "ok")
    for _ in range(nops):
        r = rng.random()
        n = len(H.ents)
        kind = None
        if n == 0 or r < 0.10:
            kind = "new"
            ot = rng.choice(["file", "file", "dir", "dir", "trashed"])
            emit("new " + ot, H.new(ot))
        elif r < 0.62:
            kind = "ws"
            i, sd, k = rng.randrange(n), rng.choice([0, 0, 1]), rng.choice(W_KEYS)
            v = gen_write_value(R, rng, k)
            try:
                ln = "ws %d %d %s %s" % (i, sd, k, H.enc_write(k, v))
            except HarnessError:
                continue
            emit(ln, H.ws(i, sd, k, v))
            kind = "ws:" + k
        elif r < 0.70:
            i = rng.randrange(n)
            if rng.random() < 0.5:
                v = R.IgnoreReason(rng.choice(IG_VALUES))
                emit("we %d ignored %s" % (i, us(v.value)), H.we(i, "ignored", v))
                kind = "we:ignored"
            else:
                v = rng.choice([0, 1, 2, -1, 3])
                emit("we %d priority %d" % (i, v), H.we(i, "priority", v))
                kind = "we:priority"
        elif r < 0.82:
            kind = "update"
            side = rng.choice([0, 1])
            oid = rng.choice(["a", "b", "c", "d", "é"])
            kw = {}
            if rng.random() < 0.8:
                kw["path"] = rng.choice(PATHS[2:])
            if rng.random() < 0.6:
                kw["hash"] = rng.choice([b"h1", b"h2", "s", (1, b"x"), [1, 2], {"a": 1}])
            kw["exists"] = rng.choice([True, True, False, None, R.Exists("trashed"), R.Exists("exists"), R.Exists("missing")])
            if rng.random() < 0.3:
                kw["size"] = rng.choice([0, 5])
            if rng.random() < 0.3:
                kw["mtime"] = rng.choice([1700000000, 1700000000.5])
            ot = rng.choice(["file", "file", "dir"]) if kw["exists"] is not False else rng.choice(["file", "dir", "trashed"])
            tr, res = H.update(side, ot, oid, **kw)
            if not tr:
                continue
            # the traced top-level writes are replayed by the model; only the resulting state is compared
            for t in tr:
                emit(t, None)
            stats["update:" + res] = stats.get("update:" + res, 0) + 1
        elif r < 0.95:
            kind = "commit"
            emit("commit", H.commit())
        else:
            kind = "reload"
            cr = H.commit()
            emit("commit", cr)
            check()
            H.reload()
            emit("reload", "ok")
            check()
            for _k in range(3):
                sd = rng.choice([0, 1])
                key = rng.choice(OIDS)
                emit("lo %d %s" % (sd, enc_val(key)), H.lo(sd, key))
                p = rng.choice(PATHS)
                stale = rng.random() < 0.5
                emit("lp %d %s %s" % (sd, enc_val(p), enc_bool(stale)), H.lp(sd, p, stale))
        stats[kind] = stats.get(kind, 0) + 1
        check()
    return lines, reals


def state_correspondence(R, rng, backend, nseq, nops, tmpdir):
    all_lines, all_reals, dis = [], [], []
    stats, outcomes = {}, {}
    unmodelled = 0
    with Harnessed(R, backend, tmpdir) as H:
        for _ in range(nseq):
            l, r = state_sequence(H, rng, rng.randint(5, nops), stats)
            all_lines += l
            all_reals += r
    model = run_driver("persist", all_lines)
    skip = False
    start = 0
    ghost = {"silent_nonempty": 0}
    for i, (ln, r, m) in enumerate(zip(all_lines, all_reals, model)):
        if ln.startswith("reset"):
            skip, start = False, i
        if skip:
            continue
        if m == "err Unmodelled":
            unmodelled += 1
            skip = True
            continue
        if r == "err Recursion" or m == "err Recursion":
            # the hooks recursed until Python's stack limit (real) / the model's fuel: where exactly the real run is cut
            # off depends on the interpreter's frame budget, which is outside the model; the rest of the run is not compared
            ghost["recursion_skipped"] = ghost.get("recursion_skipped", 0) + 1
            if (r == "err Recursion") != (m == "err Recursion"):
                ghost["recursion_one_sided"] = ghost.get("recursion_one_sided", 0) + 1
            skip = True
            continue
        if ln == "dump":
            m, _, g = m.partition(" ghost=")
            if g != "[]":
                ghost["silent_nonempty"] += 1
        elif r is not None:
            o = r if r.startswith("err") else r.split()[0]
            outcomes[ln.split()[0] + ":" + o] = outcomes.get(ln.split()[0] + ":" + o, 0) + 1
        if r is not None and r != m:
            dis.append({"layer": "persist/" + backend, "sequence": all_lines[start:i + 1], "implementation": r[:6000], "model": m[:6000]})
            skip = True
            if len(dis) >= 5:
                break
    return all_lines, all_reals, dis, stats, outcomes, unmodelled, ghost



# ------------------------------------------------------------------------------------------------ known findings / facts

def py_norm(x):
    """the msgpack normal form (lists -> tuples), the Python counterpart of `norm`"""
    if isinstance(x, (list, tuple)):
        return tuple(py_norm(i) for i in x)
    if isinstance(x, dict):
        return {k: py_norm(v) for k, v in x.items()}
    return x


def same_value(a, b):
    """equality that distinguishes True/1/1.0 and compares NaN by bits (what `Val` equality is)"""
    return enc_val(a) == enc_val(b)


def fresh_state(R, storage):
    st = R.SyncState(R.provs, storage, TAG)
    return st


def replay_none_key(R):
    """loader indexes absent sides under None (Lean: reload_indexes_absent_side_under_none)"""
    st_ = R.MockStorage({})
    st = fresh_state(R, st_)
    e = R.SyncEntry(st, R.OType("file"))
    e[0].oid = "a"
    st.storage_commit()
    before = (st.lookup_oid(1, None), st.lookup_path(1, None, stale=True))
    st2 = fresh_state(R, st_)
    after = (st2.lookup_oid(1, None), st2.lookup_path(1, None, stale=True), st2.lookup_path(0, None))
    fails = not (before == (None, []) and after == (None, [], []))
    return fails, {"ops": ["new file", "ent[0].oid='a'", "storage_commit", "reload"], "lookup_oid(REMOTE, None)":
                   {"live": repr(before[0]), "reloaded": repr(after[0])}}


def replay_pending(R):
    """pending set differs after reload (Lean: reload_pending_set_differs)"""
    st_ = R.MockStorage({})
    st = fresh_state(R, st_)
    e = R.SyncEntry(st, R.OType("file"))
    e[0].oid = "a"
    e[1].changed = 5
    st.storage_commit()
    live = len(st._changeset_storage)
    st2 = fresh_state(R, st_)
    rel = len(st2._changeset_storage)
    return live != rel, {"ops": ["new file", "ent[0].oid='a'", "ent[1].changed=5", "storage_commit", "reload"],
                                    "pending": {"live": live, "reloaded": rel}}


def replay_stale_id(R, tmpdir):
    """_storage_update leaves storage_id set after deleting the row (Lean: stale_storage_id_deletes_live_row)"""
    sq = R.SqliteStorage(os.path.join(tmpdir, "stale.db"))
    try:
        st = fresh_state(R, sq)
        a = R.SyncEntry(st, R.OType("file")); a[0].oid = "a"; st.storage_commit()
        b = R.SyncEntry(st, R.OType("file")); b[0].oid = "b"; st.storage_commit()
        b[0].oid = None; st.storage_commit()
        c = R.SyncEntry(st, R.OType("file")); c[0].oid = "c"; st.storage_commit()
        b[0].hash = "x"; st.storage_commit()
        ids = sorted(sq.read_all(TAG))
        live = [e[0].oid for e in (a, b, c) if not e.is_trash]
        c[0].path = "/c"
        try:
            st.storage_commit()
            raised = None
        except ValueError as ex:
            raised = "ValueError"
        # the MockStorage variant (no id reuse): a trash entry that comes back to life
        ms = R.MockStorage({})
        st2 = fresh_state(R, ms)
        d = R.SyncEntry(st2, R.OType("file")); d[0].oid = "a"; st2.storage_commit()
        d[0].oid = None; st2.storage_commit()
        d[0].oid = "a"
        try:
            st2.storage_commit()
            raised2 = None
        except ValueError as ex:
            raised2 = "ValueError"
        fails = not (ids == [1, 2] and live == ["a", "c"] and raised is None and raised2 is None and len(ms.read_all(TAG)) == 1)
        return fails, {"backend": "SqliteStorage", "ops": ["A.oid='a';commit", "B.oid='b';commit", "B.oid=None;commit", "C.oid='c';commit",
                                                           "B.hash='x';commit", "C.path='/c';commit"], "row ids": ids, "live non-trash": live,
                       "storage ids": [a.storage_id, b.storage_id, c.storage_id], "last commit": raised,
                       "MockStorage: e.oid='a';commit; e.oid=None;commit; e.oid='a';commit": raised2}
    finally:
        sq.close()


def replay_int_key(R):
    """a dict hash with a non-string key is written but cannot be loaded; the loader deletes the row
    (Lean: dict_hash_int_key_row_does_not_load)"""
    d = {}
    ms = R.MockStorage(d)
    st = fresh_state(R, ms)
    e = R.SyncEntry(st, R.OType("file"))
    e[0].oid = "a"
    e[0].hash = {1: 2}
    st.storage_commit()
    rows_before = len(d.get(TAG, {}))
    st2 = fresh_state(R, ms)
    return not (rows_before == 1 and len(d.get(TAG, {})) == 1 and st2.lookup_oid(0, "a") is not None), {
        "ops": ["new file", "ent[0].oid='a'", "ent[0].hash={1: 2}", "storage_commit", "reload"], "rows before reload": rows_before,
        "rows after reload": len(d.get(TAG, {})), "lookup_oid(LOCAL,'a') after reload": repr(st2.lookup_oid(0, "a"))}


def replay_narrower(R):
    """live pending set not contained in the reloaded one (Lean: pending_set_after_reload_narrower): a stamp on an id-less
    side, then the other side gets an id (`_change_oid` makes the entry pending; the loader does not)"""
    ms = R.MockStorage({})
    st = fresh_state(R, ms)
    e = R.SyncEntry(st, R.OType("file"))
    e[0].changed = 5
    e[1].oid = "b"
    st.storage_commit()
    live = len(st._changeset_storage)
    st2 = fresh_state(R, ms)
    rel = len(st2._changeset_storage)
    return live == 1 and rel == 0 and not e.is_trash and len(ms.read_all(TAG)) == 1, {
        "ops": ["new file", "ent[0].changed=5", "ent[1].oid='b'", "storage_commit", "reload"], "pending": {"live": live, "reloaded": rel}}


def replay_corrupt_fact(R):
    """model fact (not a finding): the CORRUPT marker alone does not mark dirty (Lean: corrupt_mark_alone_not_persisted)"""
    d = {}
    st = fresh_state(R, R.MockStorage(d))
    e = R.SyncEntry(st, R.OType("file"))
    e[0].oid = "a"
    e[0].exists = R.Exists("exists")
    st.storage_commit()
    e[0].exists = R.Exists("corrupt")
    n = len(st._dirtyset)
    st.storage_commit()
    row = R.unpack(d[TAG][0])
    return n == 0 and row["side0"]["exists"] == "exists" and e[0]._exists == R.Exists("corrupt")


KNOWN = {
    "loader-indexes-absent-side-under-none": lambda R, tmp: replay_none_key(R),
    "reload-pending-set-differs": lambda R, tmp: replay_pending(R),
    "stale-storage-id-after-row-delete": lambda R, tmp: replay_stale_id(R, tmp),
    "dict-hash-nonstring-key-row-dropped-on-load": lambda R, tmp: replay_int_key(R),
    "pending-set-after-reload-narrower": lambda R, tmp: replay_narrower(R),
}

# the same sequences, through the correspondence (corpus: runs first)
CORPUS = [
    ["reset sqlite", "new file", "ws 0 0 oid S97", "commit", "dump", "lo 1 N", "lp 1 N T", "reload", "dump", "lo 1 N", "lp 1 N T", "lp 0 N F"],
    ["reset sqlite", "new file", "ws 0 0 oid S97", "ws 0 1 changed I5", "commit", "dump", "reload", "dump"],
    ["reset sqlite", "new file", "ws 0 0 oid S97", "commit", "new file", "ws 1 0 oid S98", "commit", "ws 1 0 oid N", "commit", "dump",
     "new file", "ws 2 0 oid S99", "commit", "dump", "ws 1 0 hash S120", "commit", "dump", "ws 2 0 path S47.99", "commit", "dump", "commit", "dump"],
    ["reset mock", "new file", "ws 0 0 oid S97", "commit", "ws 0 0 oid N", "commit", "ws 0 0 oid S97", "commit", "dump"],
    ["reset mock", "new file", "ws 0 0 oid S97", "ws 0 0 hash M(I1:I2)", "commit", "dump", "reload", "dump"],
    ["reset mock", "new file", "ws 0 0 oid S97", "ws 0 0 exists Eexists", "commit", "ws 0 0 exists Ecorrupt", "commit", "dump",
     "ws 0 0 exists Etrashed", "dump", "ws 0 0 hash B01", "dump", "commit", "dump"],
    ["reset mock", "new file", "ws 0 0 changed I5", "ws 0 1 changed I7", "ws 0 0 changed I9", "dump"],
    ["reset sqlite", "new file", "ws 0 0 changed I5", "ws 0 1 oid S98", "commit", "dump", "reload", "dump"],
    ["reset mock", "new dir", "ws 0 0 oid S97", "ws 0 0 path S47.97", "new dir", "ws 1 0 oid S98", "ws 1 0 path S47.97.47.98",
     "ws 0 0 path S47.97.47.98.47.99", "dump", "ws 1 0 path S47.97", "dump", "commit", "dump"],
]


def dec_val(t):
    """inverse of enc_val for the corpus lines (scalars only)"""
    if t == "N":
        return None
    if t in ("T", "F"):
        return t == "T"
    if t[0] == "I":
        return int(t[1:])
    if t[0] == "S":
        return dec_str(t[1:])
    if t[0] == "B":
        return b"" if t[1:] == "-" else bytes.fromhex(t[1:])
    if t.startswith("M(I1:I2)"):
        return {1: 2}
    raise HarnessError("corpus value " + t)


def run_corpus(R, tmpdir):
    lines, reals = [], []
    for seq in CORPUS:
        be = seq[0].split()[1]
        with Harnessed(R, be, tmpdir) as H:
            for ln in seq:
                t = ln.split()
                if t[0] == "reset":
                    H.reset()
                    r = "ok"
                elif t[0] == "new":
                    r = H.new(t[1])
                elif t[0] == "ws":
                    k = t[3]
                    if k == "exists":
                        v = R.Exists(t[4][1:].replace("_", " ")) if t[4][0] == "E" else dec_val(t[4][1:])
                    else:
                        v = dec_val(t[4])
                    r = H.ws(int(t[1]), int(t[2]), k, v)
                elif t[0] == "commit":
                    r = H.commit()
                elif t[0] == "dump":
                    r = H.dump()
                elif t[0] == "reload":
                    H.reload()
                    r = "ok"
                elif t[0] == "lo":
                    r = H.lo(int(t[1]), dec_val(t[2]))
                elif t[0] == "lp":
                    r = H.lp(int(t[1]), dec_val(t[2]), t[3] == "T")
                else:
                    raise HarnessError(ln)
                lines.append(ln)
                reals.append(r)
    model = run_driver("persist", lines)
    dis = []
    start = 0
    for i, (ln, r, m) in enumerate(zip(lines, reals, model)):
        if ln.startswith("reset"):
            start = i
        if ln == "dump":
            m = m.partition(" ghost=")[0]
        if r != m:
            dis.append({"layer": "persist/corpus", "sequence": lines[start:i + 1], "implementation": r[:4000], "model": m[:4000]})
    return lines, dis


# ------------------------------------------------------------------------------------------------ step 4: oracles (implementation only)

ROUNDTRIP_FIELDS = ["_otype", "_path", "_sync_path", "_oid", "_hash", "_sync_hash", "_exists", "_saved_exists", "_changed", "_size",
                    "_mtime", "_temp_file"]


def oracle_roundtrip(R, rng, n):
    """`roundtrip` + `legacy_rows_load` on the implementation: entries whose values are msgpack-representable (no integer
    outside 64 bits, dict keys str/bytes) come back with every sync-relevant field equal up to list->tuple."""
    for _ in range(n):
        ent = build_entry(R, rng, allow_bad=False, wellformed=True)
        sid = rng.choice([0, 1, 7])
        try:
            e2 = R.SyncEntry(R.loading_state(), None, (sid, ent.serialize()))
        except Exception as ex:  # noqa
            return {"statement": "roundtrip", "entry": enc_entry(ent), "failure": "deserialize(serialize(e)) raised %s: %s" % (type(ex).__name__, ex)}
        for i in (0, 1):
            for f in ROUNDTRIP_FIELDS:
                a, b = object.__getattribute__(ent[i], f), object.__getattribute__(e2[i], f)
                if not same_value(py_norm(a) if not hasattr(a, "value") else a.value, b if not hasattr(b, "value") else b.value):
                    return {"statement": "roundtrip", "entry": enc_entry(ent), "failure": "side %d field %s: %r came back as %r" % (i, f, a, b)}
        if e2._ignored != ent._ignored:
            return {"statement": "roundtrip", "entry": enc_entry(ent), "failure": "ignore reason %r came back as %r" % (ent._ignored, e2._ignored)}
        if e2._storage_id != sid:
            return {"statement": "roundtrip", "entry": enc_entry(ent), "failure": "storage id %r, expected %r" % (e2._storage_id, sid)}
    # legacy rows: the expected result is the statement of `legacy_rows_load`
    for _ in range(n // 2):
        d = gen_entry_dict(rng, allow_bad=False)
        want_ex = {}
        for s in ("side0", "side1"):
            b = rng.choice([True, False, None])
            d[s]["exists"] = b
            want_ex[s] = {True: "exists", False: "trashed", None: "unknown"}[b]
            for kk in ("size", "mtime", "_saved_exists"):
                d[s].pop(kk, None)
        d.pop("priority", None)
        c = rng.choice(["reason", "trashed", "flags"])
        if c == "reason":
            want_ig = d["ignored"]
        elif c == "trashed":
            d["ignored"], want_ig = "trashed", "discarded"
        else:
            d.pop("ignored")
            dd, cc = rng.choice([True, False]), rng.choice([True, False])
            d["discarded"], d["conflicted"] = dd, cc
            want_ig = "discarded" if dd else ("conflict" if cc else "none")
        try:
            e2 = R.SyncEntry(R.loading_state(), None, (3, R.msgpack.dumps(d, use_bin_type=True)))
        except Exception as ex:  # noqa
            return {"statement": "legacy_rows_load", "dict": repr(d)[:1500], "failure": "legacy row did not load: %s %s" % (type(ex).__name__, ex)}
        bad = None
        for i, s in enumerate(("side0", "side1")):
            g = lambda f: object.__getattribute__(e2[i], f)
            if g("_exists").value != want_ex[s]:
                bad = "%s exists %r loaded as %s" % (s, d[s]["exists"], g("_exists"))
            if g("_size") is not None or g("_mtime") is not None or g("_saved_exists") is not None:
                bad = "%s: missing size/mtime/_saved_exists did not default to None" % s
            for f, k in (("_path", "path"), ("_oid", "oid"), ("_hash", "hash"), ("_sync_hash", "sync_hash"), ("_sync_path", "sync_path"),
                         ("_changed", "changed")):
                if not same_value(py_norm(d[s][k]), g(f)):
                    bad = "%s field %s: %r loaded as %r" % (s, k, d[s][k], g(f))
        if e2._ignored.value != want_ig:
            bad = "ignore reason loaded as %s, expected %s" % (e2._ignored.value, want_ig)
        if bad:
            return {"statement": "legacy_rows_load", "dict": repr(d)[:1500], "failure": bad}
    return None


def rows_vs_live(R, storage, ents, silent):
    """the conclusion of `commit_makes_storage_exact` on the implementation; None or a failure text"""
    rows = {k: R.unpack(v) for k, v in storage.read_all(TAG).items()}
    owners = {}
    for i, e in enumerate(ents):
        if i in silent:
            if e.storage_id is not None:
                owners.setdefault(e.storage_id, i)
            continue
        sid = e.storage_id
        if e.is_trash:
            if sid is not None:
                return "entry %d is trash but keeps the storage id %r" % (i, sid)
            continue
        if sid is None or sid not in rows:
            return "live entry %d (%s) has no row" % (i, enc_entry(e)[:200])
        want = R.unpack(e.serialize())
        if enc_val(rows[sid]) != enc_val(want):
            diff = []
            for s in ("side0", "side1"):
                for k in want[s]:
                    if enc_val(rows[sid][s].get(k)) != enc_val(want[s][k]):
                        diff.append("%s.%s: stored %r, live %r" % (s, k, rows[sid][s].get(k), want[s][k]))
            for k in ("ignored", "priority"):
                if enc_val(rows[sid].get(k)) != enc_val(want[k]):
                    diff.append("%s: stored %r, live %r" % (k, rows[sid].get(k), want[k]))
            return "row %r differs from live entry %d: %s" % (sid, i, "; ".join(diff)[:600])
        if sid in owners:
            return "entries %d and %d share row %r" % (owners[sid], i, sid)
        owners[sid] = i
    for k in rows:
        if k not in owners:
            return "stale row %r: %s" % (k, repr(rows[k])[:300])
    return None


def gen_oracle_ops(R, rng, nops):
    ops = []
    for _ in range(rng.randint(4, nops)):
        r = rng.random()
        if r < 0.06:
            # a cluster: two or three entries that share a (side, path) under different ids, one of them possibly
            # discarded/conflicted, then a commit (index -1 = the entry created last)
            sd, path = rng.choice([0, 0, 1]), rng.choice([p for p in PATHS if p])
            for oid in rng.sample(["a", "b", "c", "d", "é"], rng.choice([2, 2, 3])):
                ops.append(("new", rng.choice(["file", "dir"])))
                if rng.random() < 0.4:
                    ops.append(("we", -1, "ignored", R.IgnoreReason(rng.choice(["discarded", "conflict", "irrelevant"]))))
                ops.append(("ws", -1, sd, "oid", oid))
                ops.append(("ws", -1, sd, "path", path))
            ops.append(("commit",))
            continue
        if not ops or r < 0.12:
            ops.append(("new", rng.choice(["file", "dir"])))
        elif r < 0.78:
            k = rng.choice(W_KEYS + ["ignored", "priority"])
            i = rng.randrange(8)
            if k == "ignored":
                ops.append(("we", i, k, R.IgnoreReason(rng.choice(IG_VALUES))))
            elif k == "priority":
                ops.append(("we", i, k, rng.choice([0, 1, 2, -1])))
            else:
                v = gen_hash(rng, allow_bad=False) if k in ("hash", "sync_hash") else gen_write_value(R, rng, k)
                if (k == "exists" and v in ("bogus", 5)) or (k == "mtime" and v == "bad"):
                    continue                                   # these raise by design (ValueError / AssertionError)
                ops.append(("ws", i, rng.choice([0, 0, 1]), k, v))
        else:
            ops.append(("commit",))
    return ops


def show_op(op):
    if op[0] == "new":
        return "new %s" % op[1]
    if op[0] == "ws":
        return "ent%d[%d].%s = %r" % (op[1], op[2], op[3], op[4])
    if op[0] == "we":
        return "ent%d.%s = %r" % (op[1], op[2], op[3])
    return "storage_commit()"


def run_oracle_ops(R, H, ops):
    """one sequence on a fresh real SyncState; the statement of `commit_makes_storage_exact` after every commit,
    `commit_raises_only_overflow`, and the reload statements after every commit at which nothing is silently changed.
    Entry indices are taken modulo the number of entries; a run in which a hooked write raises is abandoned there (the
    hook may have written fields before the exception)."""
    corrupt = R.Exists("corrupt")
    H.reset()
    silent = set()
    done = []
    for op in ops:
        n = len(H.ents)
        if op[0] == "new":
            H.new(op[1])
            done.append(show_op(op))
        elif op[0] in ("ws", "we"):
            if n == 0:
                continue
            i = op[1] % n
            ent = H.ents[i]
            add = set()
            if op[0] == "we":
                done.append(show_op(("we", i) + op[2:]))
                res_ = H.we(i, op[2], op[3])
            else:
                sd, k, v = op[2], op[3], op[4]
                if k == "path" and v and not ent[sd]._oid:
                    continue                                   # `assert ent[side].oid` in _change_path
                if k == "exists":
                    # the CORRUPT early returns of SideState.__setattr__ reach no dirty mark
                    is_c = ent[sd]._exists == corrupt
                    v_c = isinstance(v, R.Exists) and v == corrupt
                    if (v_c and not is_c) or (not v_c and is_c):
                        add.add(i)
                if k == "path" and v:
                    other = H.state._paths[sd].get(v, {}).get(ent[sd]._oid)
                    if other is not None and other is not ent:
                        add.add(H.idx(other))                       # the ousting write of _change_path
                done.append(show_op(("ws", i) + op[2:]))
                res_ = H.ws(i, sd, k, v)
            if res_ != "ok":
                return None
            dirty = {j for j, e in enumerate(H.ents) if e in H.state._dirtyset}
            silent = (silent | add) - dirty
        else:
            res_ = H.commit()
            done.append("storage_commit()")
            if res_ != "ok":
                if res_ == "err OverflowError":
                    return None
                return {"statement": "commit_raises_only_overflow", "ops": done, "failure": "storage_commit raised: " + res_}
            bad = rows_vs_live(R, H.storage, H.ents, silent)
            if bad:
                return {"statement": "commit_makes_storage_exact", "ops": done, "failure": bad}
            if not silent:
                bad = reload_check(R, H)
                if bad:
                    return {"statement": "reload_equiv", "ops": done + ["reload"], "failure": bad}
    return None


def oracle_state(R, rng, backend, nseq, nops, tmpdir):
    with Harnessed(R, backend, tmpdir) as H:
        for _ in range(nseq):
            ops = gen_oracle_ops(R, rng, nops)
            hit = run_oracle_ops(R, H, ops)
            if hit:
                # shrink: drop operations while the same statement still fails
                changed = True
                rounds = 0
                while changed and rounds < 6:
                    changed = False
                    rounds += 1
                    i = 0
                    while i < len(ops):
                        cand = ops[:i] + ops[i + 1:]
                        h2 = run_oracle_ops(R, H, cand)
                        if h2 and h2["statement"] == hit["statement"]:
                            ops, hit, changed = cand, h2, True
                        else:
                            i += 1
                hit["backend"] = backend
                return hit
    return None


def fields_match(live_e, got):
    for sd in (0, 1):
        for f in ROUNDTRIP_FIELDS:
            a, b = object.__getattribute__(live_e[sd], f), object.__getattribute__(got[sd], f)
            a = a.value if hasattr(a, "value") else py_norm(a)
            b = b.value if hasattr(b, "value") else b
            if not same_value(a, b):
                return False
    return got._ignored == live_e._ignored


def reload_compare(R, live_ents, st2, loaded):
    """the reload statements (`reload_equiv_entries`, `reload_none_key_absent`, `reload_pending_spec`, loader spec) for a state
    `st2` rebuilt from exact storage, whose loader created the entries `loaded`, against the live entries: one rebuilt
    entry per live non-trash entry; under a string id the rebuilt state finds the reloaded image of a live entry carrying
    that id and every live entry is found; under None nothing; `lookup_path` returns exactly the ids of the live entries at
    that path; pending = rows with a change stamp on a side that has an id"""
    live = [e for e in live_ents if not e.is_trash]
    if sorted(e.storage_id for e in loaded) != sorted(x.storage_id for x in live):
        return "a state rebuilt from storage has entries for the rows %r, the live non-trash entries have the rows %r" % (
            sorted(e.storage_id for e in loaded), sorted((x.storage_id is None, x.storage_id) for x in live))
    for sd in (0, 1):
        name = ("local", "remote")[sd]
        if st2.lookup_oid(sd, None) is not None:
            return "lookup_oid(%s, None) returns an entry after reload" % name
        if st2.lookup_path(sd, None, stale=True):
            return "lookup_path(%s, None) returns entries after reload" % name
        for e in live:
            k = e[sd]._oid
            if not isinstance(k, str):
                continue
            got = st2.lookup_oid(sd, k)
            if got is None:
                return "live entry with %s id %r is not found after reload" % (name, k)
            if not any(fields_match(c, got) for c in live if isinstance(c[sd]._oid, str) and c[sd]._oid == k):
                return "lookup_oid(%s, %r) after reload returns an entry that is no live entry: %s" % (name, k, enc_entry(got)[:300])
        paths = {e[sd]._path for e in live if isinstance(e[sd]._path, str) and e[sd]._path}
        for p in sorted(paths):
            want = sorted({repr(e[sd]._oid) for e in live if e[sd]._path == p and e[sd]._oid is not None})
            got = sorted({repr(x[sd]._oid) for x in st2.lookup_path(sd, p, stale=True)})
            if want != got:
                return "lookup_path(%s, %r, stale=True) after reload returns the ids %s, the live entries at that path have %s" % (
                    name, p, got, want)
            vis = [e for e in live if e[sd]._path == p and e[sd]._oid is not None]
            if len({repr(e[sd]._oid) for e in vis}) == len(vis):
                want = sorted(repr(e[sd]._oid) for e in vis if not (e.is_discarded or e.is_conflicted))
                got = sorted(repr(x[sd]._oid) for x in st2.lookup_path(sd, p))
                if want != got:
                    return "lookup_path(%s, %r) after reload returns the ids %s, the live non-ignored entries at that path have %s" % (
                        name, p, got, want)
    want = sorted(e.storage_id for e in loaded if any(e[s]._changed and e[s]._oid is not None for s in (0, 1)))
    got = sorted(e.storage_id for e in st2._changeset_storage)
    if want != got:
        return "after reload the pending set holds the entries with storage ids %r, the rows with a change stamp on a side that has an id are %r" % (got, want)
    return None


def reload_check(R, H):
    """after an exact commit on the harnessed state: rebuild a state from storage and compare (see reload_compare)"""
    H.capture = []
    try:
        st2 = R.SyncState(R.provs, H.storage, TAG)
    finally:
        loaded, H.capture = H.capture, None
    return reload_compare(R, H.ents, st2, loaded)


def rows_vs_live_engine(R, st, ents):
    """rows of the tag vs the live entries of an engine's state.  `priority` is left out: it is not in the property's field
    list and `deserialize` does not restore it (`priority_not_restored`), so after a restart a row keeps the old value
    until the entry is dirtied again."""
    def strip(d):
        d = dict(d)
        d.pop("priority", None)
        return d
    rows = {k: R.unpack(v) for k, v in st._storage.read_all(st._tag).items()}
    owners = {}
    for i, e in enumerate(ents):
        sid = e.storage_id
        if e.is_trash:
            if sid is not None:
                return "a trash entry keeps the storage id %r" % (sid,)
            continue
        if sid is None or sid not in rows:
            return "a live entry has no row in storage: %s" % describe_entry(e)
        want = R.unpack(e.serialize())
        if enc_val(strip(rows[sid])) != enc_val(strip(want)):
            diff = []
            for s in ("side0", "side1"):
                for k in want[s]:
                    if enc_val(rows[sid][s].get(k)) != enc_val(want[s][k]):
                        diff.append("%s.%s: stored %r, live %r" % (s, k, rows[sid][s].get(k), want[s][k]))
            if enc_val(rows[sid].get("ignored")) != enc_val(want["ignored"]):
                diff.append("ignored: stored %r, live %r" % (rows[sid].get("ignored"), want["ignored"]))
            return "row %r differs from the live entry %s: %s" % (sid, describe_entry(e), "; ".join(diff)[:600])
        if sid in owners:
            return "two live entries share row %r" % (sid,)
        owners[sid] = i
    for k in rows:
        if k not in owners:
            return "stale row %r" % (k,)
    return None


def describe_entry(e):
    g = lambda s, f: object.__getattribute__(e[s], f)
    return "[local %r %r | remote %r %r]" % (g(0, "_oid"), g(0, "_path"), g(1, "_oid"), g(1, "_path"))


# ------------------------------------------------------------------------------------------------ engine tie

class EntryTracker:
    """numbers the SyncEntry objects per owning SyncState (creation order)"""
    def __init__(self, R):
        self.R = R
        self.by_state = {}
        self.capture = None

    def __enter__(self):
        R, T = self.R, self
        self.saved = R.SyncEntry.__init__
        o_init = self.saved

        def init(s, parent, *a, **kw):
            o_init(s, parent, *a, **kw)
            if T.capture is not None:
                T.capture.append(s)
            else:
                T.by_state.setdefault(id(parent), []).append(s)
        R.SyncEntry.__init__ = init
        return self

    def __exit__(self, *a):
        self.R.SyncEntry.__init__ = self.saved

    def ents(self, st):
        return self.by_state.get(id(st), [])


ENGINE_FAMILIES = ["ordinary", "public-walk", "startup-walk", "restart-nocursor", "walk-fault", "walk-stop", "events-stop"]


class EngineRun:
    """One deterministic engine history (harness/engine.py World: two mock providers, CloudSync stepped manually) with the
    C08 statements evaluated on the implementation after EVERY single step:
      * an intake step ('L'/'R') always, and a sync step ('S') that returns normally, ends with an empty dirty set
        (`intake_step_commits`; a sync step that ends in backoff has punted without a commit: state.py/manager.py as they are)
      * the decoded rows of the tag are exactly the live non-trash entries (`commit_makes_storage_exact`)
      * a state rebuilt from storage has the same entries, lookups and (loader-rule) pending set (`reload_equiv_entries` …)
    Walk delivery is part of the histories: `cs.walk(side)` with the provider's own events suppressed, start-up walks, a new
    engine over storage whose cursor row was removed, walks cut short by a temporary error or a stop, event delivery cut
    short by a stop."""

    def __init__(self, R, tracker, flavour, storage, rng):
        import engine as E
        self.R, self.T, self.E = R, tracker, E
        self.flavour, self.storage_kind, self.rng = flavour, storage, rng
        self.w = E.World(flavour=flavour, storage=storage)
        self.trace = []
        self.steps = 0
        self.skipped_dirty = 0
        self.dirty_but_equal = 0
        self.tag = self.w.cs.state._tag
        self.next = 0

    def close(self):
        try:
            self.w.close()
        except Exception:  # noqa
            pass

    # -- actions
    def user(self, side, op, *args):
        r = self.w.user(side, op, *args)
        self.trace.append("%s.%s(%s)%s" % (("local", "remote")[side], op, ", ".join(repr(a) for a in args), "!" + r if r else ""))
        return r

    def fresh(self):
        self.next += 1
        return b"v%d" % self.next

    def random_user_op(self, side=None):
        rng, w = self.rng, self.w
        side = rng.choice([0, 1]) if side is None else side
        root = w.roots[side]
        tree = w.tree(side)
        files = sorted(k for k, v in tree.items() if v[0] == "f")
        dirs = sorted(k for k, v in tree.items() if v[0] == "d")
        kind = rng.choice(["create", "create", "create", "mkdir", "write", "rename", "delete", "create_in"])
        name = rng.choice(["a", "b", "c.txt", "d"])
        if kind == "create":
            return self.user(side, "create", root + "/" + name, self.fresh())
        if kind == "create_in" and dirs:
            return self.user(side, "create", root + rng.choice(dirs) + "/" + name, self.fresh())
        if kind == "mkdir":
            return self.user(side, "mkdir", root + (rng.choice(dirs) if dirs and rng.random() < 0.3 else "") + "/" + name)
        if kind == "write" and files:
            return self.user(side, "write", root + rng.choice(files), self.fresh())
        if kind == "rename" and (files or dirs):
            src = rng.choice(files + dirs)
            return self.user(side, "rename", root + src, root + "/" + name)
        if kind == "delete" and files:
            return self.user(side, "delete", root + rng.choice(files))
        return self.user(side, "create", root + "/" + name, self.fresh())

    def mute(self, side):
        """suppress the provider's own events: move its cursor to the latest position"""
        p = self.w.provs[side]
        p._cursor = p._latest_cursor
        self.trace.append("%s: provider cursor moved to latest (its pending events are dropped)" % ("local", "remote")[side])

    def public_walk(self, side):
        self.w.by = "engine"
        try:
            self.w.cs.walk(side)
        finally:
            self.w.by = "user"
        self.trace.append("cs.walk(%s)" % ("LOCAL" if side == 0 else "REMOTE" if side == 1 else "None"))

    def restart(self, del_cursor_side=None):
        self.w.drop_engine()
        if del_cursor_side is not None:
            st = self.w.make_storage()
            n = 0
            for tg, rows in list(st.read_all().items()):
                if "_cursor" in tg and tg.startswith(("mock-l", "mock-r")[del_cursor_side]):
                    for k in list(rows):
                        st.delete(tg, k)
                        n += 1
            if hasattr(st, "close"):
                st.close()
            self.trace.append("engine stopped; %d cursor row(s) of the %s side removed from storage" % (n, ("local", "remote")[del_cursor_side]))
        else:
            self.trace.append("engine stopped")
        return "new engine over the same storage"

    def start(self):
        self.w.new_engine()
        self.trace.append("new engine over the same storage")

    def cut_walk(self, side, k, how):
        """the next walk_oid of that provider raises CloudTemporaryError / sets the stop flag after k items"""
        from cloudsync.exceptions import CloudTemporaryError
        p = self.w.provs[side]
        em = self.w.cs.emgrs[side]
        orig = p.walk_oid
        run = self

        def walk_oid(oid, recursive=True):
            n = 0
            for ev in orig(oid, recursive=recursive):
                if n >= k:
                    p.walk_oid = orig
                    if how == "fault":
                        raise CloudTemporaryError("injected: walk interrupted")
                    em._Runnable__stopped = True
                    run.to_unstop = em
                yield ev
                n += 1
            p.walk_oid = orig
        p.walk_oid = walk_oid
        self.trace.append("%s: the next walk %s after %d item(s)" % (("local", "remote")[side], "raises CloudTemporaryError" if how == "fault" else "sees a stop request", k))

    def cut_events(self, side, k):
        p = self.w.provs[side]
        em = self.w.cs.emgrs[side]
        orig = p.events
        run = self

        def events():
            n = 0
            for ev in orig():
                yield ev
                n += 1
                if n >= k:
                    em._Runnable__stopped = True
                    run.to_unstop = em
            p.events = orig
        p.events = events
        self.trace.append("%s: a stop request arrives after %d delivered event(s)" % (("local", "remote")[side], k))

    to_unstop = None

    def step(self, which):
        """one engine step, then the statements; returns a failure text or None"""
        out = self.w.step(which)
        if self.to_unstop is not None:
            self.to_unstop._Runnable__stopped = False
            self.to_unstop = None
        self.steps += 1
        self.trace.append({"L": "local-events.do()", "R": "remote-events.do()", "S": "sync.do()"}[which] + ("" if out is None else " -> " + out))
        return self.check(which, out)

    def check(self, which, out):
        R, st = self.R, self.w.cs.state
        if st._storage is None:
            return None
        ents = self.T.ents(st)
        bad = rows_vs_live_engine(R, st, ents)
        if bad:
            if which == "S" and out is not None and st._dirtyset:
                self.skipped_dirty += 1            # a sync step that ended in backoff punted without a commit
                return None
            if st._dirtyset:
                bad += " — %d entr%s still waiting in the dirty set after the step (no storage_commit reached them): %s" % (
                    len(st._dirtyset), "y is" if len(st._dirtyset) == 1 else "ies are", ", ".join(describe_entry(e) for e in list(st._dirtyset)[:4]))
            return bad
        if st._dirtyset:
            self.dirty_but_equal += 1              # dirty entries whose serialisation equals their row: not a violation
        reader = self.w.make_storage()
        self.T.capture = []
        try:
            st2 = R.SyncState(self.w.provs, reader, st._tag)
        finally:
            loaded, self.T.capture = self.T.capture, None
            if self.storage_kind == "sqlite" and hasattr(reader, "close"):
                reader.close()
        return reload_compare(R, ents, st2, loaded)

    def steps_checked(self, seq):
        for which in seq:
            bad = self.step(which)
            if bad:
                return bad
        return None

    def settle(self, cap):
        n = 0
        quiet = 0
        while n < cap:
            for which in self.rng.sample("LRS", 3):
                bad = self.step(which)
                n += 1
                if bad:
                    return bad
            if not self.w.busy():
                quiet += 1
                if quiet >= 2:
                    break
            else:
                quiet = 0
        return None

    # -- families
    def run(self, family):
        rng = self.rng
        if family == "ordinary":
            for _ in range(rng.randint(6, 18)):
                if rng.random() < 0.5:
                    self.random_user_op()
                bad = self.step(rng.choice("LRSS"))
                if bad:
                    return bad
            return self.settle(24)
        if family == "public-walk":
            bad = self.steps_checked("LRS")
            if bad:
                return bad
            if rng.random() < 0.5:
                for _ in range(rng.randint(0, 4)):
                    self.random_user_op()
                bad = self.settle(18)
                if bad:
                    return bad
            side = rng.choice([0, 1])
            for _ in range(rng.randint(1, 4)):
                self.random_user_op(side)
            self.mute(side)
            if rng.random() < 0.3:
                self.random_user_op(1 - side)
                self.mute(1 - side)
                self.public_walk(None)
            else:
                self.public_walk(side)
            bad = self.steps_checked("LR" if side == 0 else "RL")
            if bad:
                return bad
            return self.settle(18)
        if family == "startup-walk":
            for _ in range(rng.randint(1, 5)):
                self.random_user_op()
            self.mute(0)
            self.mute(1)
            bad = self.steps_checked(rng.choice(["LR", "RL", "LSR"]))
            if bad:
                return bad
            return self.settle(18)
        if family == "restart-nocursor":
            for _ in range(rng.randint(0, 4)):
                self.random_user_op()
            bad = self.settle(18)
            if bad:
                return bad
            side = rng.choice([0, 1])
            self.restart(del_cursor_side=side)
            for _ in range(rng.randint(1, 4)):
                self.random_user_op(side)
            self.mute(side)
            self.start()
            bad = self.steps_checked("LR" if side == 0 else "RL")
            if bad:
                return bad
            return self.settle(18)
        if family in ("walk-fault", "walk-stop"):
            for _ in range(rng.randint(2, 6)):
                self.random_user_op()
            self.mute(0)
            self.mute(1)
            side = rng.choice([0, 1])
            self.cut_walk(side, rng.randint(1, 3), "fault" if family == "walk-fault" else "stop")
            bad = self.steps_checked("LR" if side == 0 else "RL")
            if bad:
                return bad
            return self.settle(18)
        if family == "events-stop":
            bad = self.steps_checked("LRS")
            if bad:
                return bad
            side = rng.choice([0, 1])
            for _ in range(rng.randint(2, 5)):
                self.random_user_op(side)
            self.cut_events(side, rng.randint(1, 2))
            bad = self.steps_checked("LR" if side == 0 else "RL")
            if bad:
                return bad
            return self.settle(18)
        raise HarnessError("family " + family)


def engine_tie(R, rng, nruns, budget_s=None):
    """runs `nruns` engine histories round-robin over families x flavours x storages; returns (failure or None, stats)"""
    import engine as E
    stats = {"runs": 0, "steps_checked": 0, "sync_steps_in_backoff_with_dirty_entries_skipped": 0, "families": {}, "flavours": {}, "storages": {}}
    flavours = sorted(E.FLAVOURS)
    t0 = time.time()
    with EntryTracker(R) as T:
        for n in range(nruns):
            if budget_s is not None and time.time() - t0 > budget_s:
                break
            fam = ENGINE_FAMILIES[n % len(ENGINE_FAMILIES)]
            fl = flavours[(n // len(ENGINE_FAMILIES) + rng.randrange(len(flavours))) % len(flavours)]
            sk = "sqlite" if rng.random() < 0.4 else "mock"
            run = EngineRun(R, T, fl, sk, rng)
            try:
                bad = run.run(fam)
            except HarnessError:
                raise
            finally:
                run.close()
            stats["runs"] += 1
            stats["steps_checked"] += run.steps
            stats["sync_steps_in_backoff_with_dirty_entries_skipped"] += run.skipped_dirty
            for k, v in (("families", fam), ("flavours", fl), ("storages", sk)):
                stats[k][v] = stats[k].get(v, 0) + 1
            T.by_state.clear()
            if bad:
                return {"statement": "after every event-intake step and every sync step storage holds exactly the live entries and a "
                                     "state rebuilt from it is equivalent (engine run)", "family": fam, "flavour": fl, "storage": sk,
                        "history": run.trace, "failure": bad}, stats
    return None, stats


PINNED_FP = {
 "cloudsync/sync/state.py:SideState.__setattr__": "74d04dc8774d596a",
 "cloudsync/sync/state.py:SideState._translate_exists": "b7ea164427c87783",
 "cloudsync/sync/state.py:SideState._set_exists": "a645923b932b031b",
 "cloudsync/sync/state.py:SideState._set_mtime": "f50083c516debfe6",
 "cloudsync/sync/state.py:SideState.uncorrupt": "729c3e46e16bea8f",
 "cloudsync/sync/state.py:SideState.serialize": "5d9c9afbe70854a7",
 "cloudsync/sync/state.py:SideState.deserialize": "528a105bfbb716af",
 "cloudsync/sync/state.py:SyncEntry.__init__": "60e7530a459751d8",
 "cloudsync/sync/state.py:SyncEntry.__setattr__": "60d707a83a3705a0",
 "cloudsync/sync/state.py:SyncEntry.serialize": "b48a25b9869827d8",
 "cloudsync/sync/state.py:SyncEntry.deserialize": "5db0ed269f6f493b",
 "cloudsync/sync/state.py:SyncEntry.__setitem__": "0b1857a6cfae1665",
 "cloudsync/sync/state.py:SyncState.__init__": "2bd3d65267cb9e3e",
 "cloudsync/sync/state.py:SyncState.updated": "db826802657fd707",
 "cloudsync/sync/state.py:SyncState._change_path": "48476ce0c5af7de5",
 "cloudsync/sync/state.py:SyncState._update_kids": "f769ceba63e5d490",
 "cloudsync/sync/state.py:SyncState._update_kids_of": "6c0864f9638f48ce",
 "cloudsync/sync/state.py:SyncState._change_oid": "8c6fcbc68c25a6c1",
 "cloudsync/sync/state.py:SyncState.get_kids": "77ced86b1649c2f6",
 "cloudsync/sync/state.py:SyncState.get_all": "5f9264305c04de2d",
 "cloudsync/sync/state.py:SyncState.lookup_oid": "57c0d900f7ef360b",
 "cloudsync/sync/state.py:SyncState.lookup_path": "6ea36c2d829428f0",
 "cloudsync/sync/state.py:SyncState.storage_commit": "3b103294ab9aee22",
 "cloudsync/sync/state.py:SyncState._storage_update": "0372cec96b08e674",
 "cloudsync/sync/state.py:SyncState.update": "a9e12218df84da09",
 "cloudsync/sync/state.py:SyncState.update_entry": "ec2209ba081d1604",
 "cloudsync/sync/state.py:SyncState.mark_changed": "af5c6b2283cb90b4",
 "cloudsync/types.py:OType": "7587040bd2d1a00c",
 "cloudsync/types.py:IgnoreReason": "4550da71db5b9962",
 "cloudsync/event.py:EventManager._process_event": "5059ad75f98bb423",
 "cloudsync/event.py:EventManager._do_unsafe": "4c084dda0bf3dcc0",
 "cloudsync/event.py:EventManager._do_walk_if_needed": "4fbba31d51d53366",
 "cloudsync/event.py:EventManager._do_first_init": "c7c0259e3f9687e9",
 "cloudsync/event.py:EventManager.do": "be11d0da3c66542a",
 "cloudsync/event.py:EventManager.queue": "b1469ef2ad120f6a",
 "cloudsync/cs.py:CloudSync.walk": "1ba5625ea5fc084d",
 "cloudsync/sync/manager.py:SyncManager.do": "b15c541bee283dae",
 "cloudsync/sync/manager.py:SyncManager._sync_one_entry": "d8adc129233e60fa",
}

TABLE = {"rows": [], "audited": []}


def _parse_rows(text, name):
    import re
    m = re.search(r"def %s\b[^\[]*:= \[(.*?)\n\]" % name, text, re.S)
    if not m:
        return []
    return [tuple(re.findall(r'"((?:[^"\\\\]|\\\\.)*)"', ln)) for ln in m.group(1).split("\n") if ln.strip().startswith("(")]


def regenerate_table():
    """tools/gen_direct_writes.py on the repo under test.  The module holding the `decide` theorem
    (Csverif.Props.C08Writes, listed in lean/obligations/C08.json) is built by common.audit()."""
    tools = os.path.join(VERIF, "tools")
    if tools not in sys.path:
        sys.path.insert(0, tools)
    import gen_direct_writes as g
    rows = g.analyse(REPO)
    text = g.render(rows)
    out = os.path.join(LEAN, "Csverif", "Gen", "DirectWrites.lean")
    old = open(out, encoding="utf8").read() if os.path.exists(out) else None
    if old != text:
        with open(out, "w", encoding="utf8") as f:
            f.write(text)
    TABLE.update({"rows": [tuple(r) for r in rows],
                  "audited": _parse_rows(open(os.path.join(LEAN, "Csverif", "Props", "C08Writes.lean"), encoding="utf8").read(), "audited")})


def run(res, tier, seed, proof_broken, replay):
    R = Repo()
    rng = rng_for(seed, "c08")
    opens, fixed = load_known_findings(PID)
    tmpdir = tempfile.mkdtemp(prefix="c08_", dir="/dev/shm" if os.path.isdir("/dev/shm") else None)
    try:
        broken = list(proof_broken)
        if TABLE["rows"] != TABLE["audited"]:
            broken.append("generated fact table: the private-field write sites of the repo differ from the audited list of "
                          "Props/C08Writes.lean: new %r, gone %r" % ([r for r in TABLE["rows"] if r not in TABLE["audited"]][:6],
                                                                       [r for r in TABLE["audited"] if r not in TABLE["rows"]][:6]))
        # 2. known findings / fixed entries, replayed on the real code
        stale = []
        for ident, fn in KNOWN.items():
            fails, detail = fn(R, tmpdir)
            if ident in opens:
                if fails:
                    res.known.append("%s :: %s" % (ident, opens[ident]))
                else:
                    stale.append(ident)
            elif ident in fixed and fails:
                res.violation({"property": PID, "kind": "regression of fixed finding", "id": ident, "what": fixed[ident], "replay": detail})
        facts = {"corrupt_mark_alone_not_persisted": replay_corrupt_fact(R)}
        # 3. correspondence
        fps = fingerprints(FP_SPEC)
        changed_fp = sorted(k for k in fps if PINNED_FP.get(k) != fps[k])
        big = tier == "thorough" or bool(changed_fp)
        n_codec = 40000 if tier == "thorough" else (12000 if changed_fp else 3000)
        nseq, nops = (1500, 45) if tier == "thorough" else ((500, 40) if changed_fp else (110, 40))
        cl, cr, cd, chist, cout = codec_correspondence(R, rng, n_codec)
        kl, kd = run_corpus(R, tmpdir)
        sl, sr, sd, sstats, sout, sunm, sghost = {}, {}, [], {}, {}, 0, {}
        total_lines = 0
        samples = []
        for be in ("mock", "sqlite"):
            l, r, d, st_, o, u, g = state_correspondence(R, rng, be, nseq, nops, tmpdir)
            total_lines += len(l)
            sd += d
            sunm += u
            for k, v in st_.items():
                sstats[be + ":" + k] = v
            for k, v in o.items():
                sout[k] = sout.get(k, 0) + v
            sghost[be] = g
            samples.append({"backend": be, "ops": [x for x in l[:40] if x != "dump"][:12]})
        ehit, estats = engine_tie(R, rng_for(seed, "c08engine"), 1500 if tier == "thorough" else (600 if changed_fp else 280))
        res.coverage.update({
            "evaluations": len(cl) + total_lines + len(kl) + estats["steps_checked"], "programs": n_codec + 2 * nseq + len(CORPUS) + estats["runs"],
            "distinct_nontrivial": len({ln for ln, r in zip(cl, cr) if not (r.startswith("err TypeError"))}) + sum(
                v for k, v in sout.items() if k.split(":")[0] in ("ws", "we", "commit", "reload", "lo", "lp")),
            "rule": "codec: distinct generated (operation, value) lines that get past the outermost shape check (deser of current/legacy/odd "
                    "dicts, row of generated entries, full round trips); state: hooked writes / entry writes / commits / reloads / lookups "
                    "executed on a real SyncState (MockStorage and SqliteStorage on a temp file) with the whole state compared after each; "
                    "engine tie: deterministic CloudSync histories (harness/engine.py World; families ordinary / public-walk / startup-walk / "
                    "restart-nocursor / walk-fault / walk-stop / events-stop over all flavours and both storages) with rows-vs-live-entries "
                    "and reload equivalence evaluated after every single step",
            "samples": [{"codec": cl[0][:300], "result": cr[0][:300]}] + samples,
            "disagreements_checked": len(cd) + len(sd) + len(kd),
            "codec_case_histogram": chist, "codec_outcome_histogram": cout, "state_op_histogram": sstats, "state_outcome_histogram": sout,
            "engine_tie": estats,
            "state_lines": total_lines, "unmodelled": sunm, "model_ghost_activity": sghost, "corpus_lines": len(kl),
            "fingerprints": fps, "fingerprints_changed": changed_fp, "escalated": bool(changed_fp) and tier == "quick",
            "stale_known_findings": stale, "model_facts_confirmed_on_code": facts,
            "direct_write_sites": len(TABLE["rows"]), "fact_table_equals_audited": TABLE["rows"] == TABLE["audited"],
        })
        res.assumptions += [
            "msgpack byte encoding, SQLite and CPython's dict/enum semantics are trusted; msgpack is modelled at the value level (lists->tuples, "
            "64 bit integers, strict_map_key)",
            "state layer: providers with oid_is_path=False, case sensitive, default prioritize; one admissible set iteration order "
            "(insertion-ordered set injected into cloudsync.sync.state); integer clock and integer _punt_secs (float arithmetic on `changed` is outside the model)",
            "`update` events are tied by trace refinement (the top-level hooked writes they perform are replayed by the model), "
            "SyncEntry.__setitem__/split are not modelled",
            "the extractor tools/gen_direct_writes.py is syntactic and trusted",
        ]
        if not facts["corrupt_mark_alone_not_persisted"]:
            res.notes.append("model fact corrupt_mark_alone_not_persisted no longer holds on the code")
        if cd:
            broken.append("correspondence codec: %d disagreements, first %r" % (len(cd), {k: cd[0][k] for k in ("line", "implementation", "model")}))
        if kd:
            broken.append("correspondence persist/corpus: %r" % (kd[0],))
        if ehit:
            broken.append("engine tie (%s, %s, %s): %s" % (ehit["family"], ehit["flavour"], ehit["storage"], ehit["failure"][:400]))
        if sd:
            broken.append("correspondence %s: sequence %r implementation %s model %s" % (sd[0]["layer"], [x for x in sd[0]["sequence"] if x != "dump"][-25:],
                                                                                        sd[0]["implementation"][:400], sd[0]["model"][:400]))
        # 4. search the implementation for a concrete failing input
        if broken:
            srng = rng_for(seed, "c08search")
            hit = oracle_roundtrip(R, srng, 1500 if tier == "quick" else 15000)
            if not hit:
                for be in ("mock", "sqlite"):
                    hit = oracle_state(R, srng, be, 400 if tier == "quick" else 4000, 40, tmpdir)
                    if hit:
                        break
            if not hit:
                hit = ehit
            if not hit:      # widen: more engine histories, independent streams
                hit, _ = engine_tie(R, rng_for(seed, "c08engine-search"), 400 if tier == "quick" else 2000)
            if not hit:
                hit, _ = engine_tie(R, rng_for(seed + 7919, "c08engine-wide"), 600 if tier == "quick" else 3000)
            if hit:
                res.violation({"property": PID, "kind": "C08 statement fails on the implementation", "failing": hit, "broken": broken})
            else:
                res.violation({"property": PID, "kind": "proof obligation or correspondence no longer checks", "broken": broken,
                               "first_disagreements": (cd + kd + sd)[:3]}, no_input=True)
    finally:
        shutil.rmtree(tmpdir, ignore_errors=True)


if __name__ == "__main__" and os.environ.get("C08_DEBUG"):
    R = Repo()
    rng = rng_for(seed_from_env(), "c08dbg")
    what = os.environ["C08_DEBUG"]
    if "codec" in what:
        l, r, d, h, o = codec_correspondence(R, rng, 2000)
        print(len(l), "codec cases;", len(d), "disagreements")
        print(h)
        print(o)
        for x in d[:5]:
            print(json.dumps(x, indent=1, default=str)[:3000])
    if "oracle" in what:
        tmp = tempfile.mkdtemp(prefix="c08_")
        try:
            print("roundtrip", oracle_roundtrip(R, rng, 1500))
            for be in ("mock", "sqlite"):
                print("state", be, oracle_state(R, rng, be, 300, 40, tmp))
            t0 = time.time()
            hit, est = engine_tie(R, rng_for(seed_from_env(), "c08engine"), int(os.environ.get("C08_ENGINE_RUNS", "56")))
            print("engine", hit, est, "%.1fs" % (time.time() - t0))
            print("corpus", run_corpus(R, tmp)[1])
            for k, f in KNOWN.items():
                print(k, f(R, tmp))
            print("corrupt fact", replay_corrupt_fact(R))
        finally:
            shutil.rmtree(tmp, ignore_errors=True)
    if "state" in what:
        tmp = tempfile.mkdtemp(prefix="c08_")
        try:
            for be in ("mock", "sqlite"):
                l, r, d, s, o, u, g = state_correspondence(R, rng, be, 150, 40, tmp)
                print(be, len(l), "lines;", len(d), "disagreements; unmodelled", u, g)
                print(s)
                print(o)
                for x in d[:3]:
                    print("SEQ", x["sequence"][-12:])
                    print("IMPL ", x["implementation"])
                    print("MODEL", x["model"])
        finally:
            shutil.rmtree(tmp, ignore_errors=True)
    sys.exit(0)


if __name__ == "__main__":
    regenerate_table()
    standard_main(PID, run)
