"""C12 — root confinement.

(1) Lean (Model/Spec/Confine.lean, Props/C12.lean, Props/C12Sites.lean): component-level `confined` bridged to the
    string-level path model (`isSubpath`/`translate` of Model/Path.lean), the universal safety theorem of the Confine
    contract (`confined_ops_outside_untouched`), the decision table of the head of `SyncManager.embrace_change`
    (manager.py 1420-1444) and the generated WRITE-SITE TABLE (tools/gen_write_sites.py -> Gen/WriteSites.lean, proved equal
    to the audited list by `decide` in Props/C12Sites.lean).
(2) Ties:  a) differential execution of the real `embrace_change` head on stub entries against the Lean table (`head`),
           b) the bridge `confinedStr` / `isSubpath` against the real `Provider.is_subpath` on the paths seen in the runs (`sub`),
           c) TRACE REFINEMENT of the real engine (driver layer `monc12`): every engine-issued mutating call with the target's
              path at call time (`call`), the snapshot of everything outside the roots around every engine step (`out`),
              no alien object inside the roots (`alien`), move-out = deletion / move-in = creation at quiescence (`mout`/`min`).
Families/flavours are those on which the pinned engine was measured to have zero failures (see DELIVERY_C12.md); the
shapes on which the pinned engine itself violates C12 are known findings replayed exactly and excluded from the random
generator by construction.  The finding `root-folder-rename-undetected` is FIXED (event.py): its replays are re-run on every
run and must pass, and renames of the root folder itself are part of the random histories on all 11 flavours.
The four findings of the class "a change is written BY ID to a peer that has left the root" (KNOWN) have a proposed repair
(fix_C12_1.diff); their replays are the probe for it: on a tree that contains it the generator is WIDE (the concurrent shapes
around a move-out are generated), on a tree that does not they are reported as known findings (placeholder commit) or as a
regression (real commit).  Family `folderout`: folder-level move-outs with child events in every partial-intake pattern."""
import io
import os
import random
import re
import sys

sys.path.insert(0, os.path.dirname(os.path.abspath(__file__)))
from engine_checks import *  # noqa  (histories, engine, common)

PID = "C12"
LAYER = "monc12"
if os.path.isdir("/dev/shm"):
    import tempfile
    tempfile.tempdir = "/dev/shm"       # the engine's scratch directory (one per engine instance): keep it off the disk

# provider flavours: (oid_is_path, case_sensitive, filter_events) per side.  engine.FLAVOURS plus three more with event
# filtering on the id side(s) (the dict is extended here, engine.py is not edited)
FLAVOURS.setdefault("oidf-oid", ((False, True, True), (False, True, False)))
FLAVOURS.setdefault("oidf-oidf", ((False, True, True), (False, True, True)))
FLAVOURS.setdefault("oidfci-oidf", ((False, False, True), (False, True, True)))
FL_ALL = list(FLAVOURS)

ROOTSETS = [("/local", "/remote"), ("/sync/local", "/sync/remote")]
IN_NAMES = NAMES                                   # names used inside the roots by histories.Recorder
OUT_NAMES = ["oa", "ob.txt", "od", "oe"]           # names given to objects created outside the roots
HOLE = "/priv"                                     # the sub-folder a custom translate declines (relative to the roots)

C12_FP = {"cloudsync/cs.py": ["CloudSync.translate"],
          "cloudsync/provider.py": ["Provider.is_subpath", "Provider.is_subpath_of_root", "Provider.set_root"],
          "cloudsync/sync/manager.py": ["SyncManager.embrace_change", "SyncManager.check_revivify", "SyncManager.delete_synced",
                                        "SyncManager.pre_sync", "SyncManager.handle_rename", "SyncManager.upload_synced",
                                        "SyncManager._create_synced", "SyncManager.unsafe_mkdir_synced", "SyncManager.conflict_rename",
                                        "SyncManager._validate_provider_roots", "SyncManager.handle_path_change_or_creation"],
          "cloudsync/providers/mock.py": ["MockProvider._filter_event", "MockProvider._translate_event"],
          "cloudsync/event.py": ["EventManager._notify_on_root_change_event", "EventManager._process_event", "EventManager._fill_event_path"]}


# ---------------------------------------------------------------------------------------------------------------
# paths

def comps_of(path):
    return [c for c in path.replace("\\", "/").split("/") if c]


def enc_abs(path):
    """an absolute provider path as a monitor path token (components)"""
    return enc_rel(path)


def under(root, path, fold):
    """harness-side classification used only to *generate* histories and to cut the snapshots (the verdict on engine calls is
    the Lean monitor's): `path` is `root` or below it, on a component boundary"""
    r, p = comps_of(root), comps_of(path)
    if fold:
        r, p = [x.lower() for x in r], [x.lower() for x in p]
    return p[:len(r)] == r


def related(a, b):
    ca, cb = [x.lower() for x in comps_of(a)], [x.lower() for x in comps_of(b)]
    n = min(len(ca), len(cb))
    return ca[:n] == cb[:n]


# ---------------------------------------------------------------------------------------------------------------
# the world: engine.World with roots by id, a hole-declining translate, call sites, case-aware outside()

def hole_translate(hole=HOLE):
    """a custom translate: the default one, except that everything at or below <root>/priv is declined (both directions)"""
    def tf(cs, side, path):
        from cloudsync import CloudSync
        r = CloudSync.translate(cs, side, path)
        if not r:
            return None
        rel = cs.providers[side].is_subpath(cs.roots[side], r)
        if rel and cs.providers[side].is_subpath(hole, rel):
            return None
        return r
    return tf


class W12(World):
    def __init__(self, flavour="oid-oid", roots=ROOTSETS[0], by_id=False, hole=False, storage="mock", **kw):
        self.by_id = by_id
        self.hole = HOLE if hole else None
        self.root_oids = None
        self.pre_engine = []
        super().__init__(flavour, storage=storage, roots=roots, translate=hole_translate() if hole else None, **kw)

    # copy of engine.World._wrap_providers with: the destination of a rename kept apart, whether the object existed at call
    # time, and the engine function that issued the call (first frame inside cloudsync/sync or cloudsync/smartsync)
    def _wrap_providers(self):
        world = self
        for side, p in enumerate(self.provs):
            for m in MUTATORS + ("download",):
                orig = getattr(p, m)

                def wrapper(*a, _orig=orig, _m=m, _side=side, _p=p, **kw):
                    by = world.by
                    target = a[0] if a else None
                    pac, existed = None, None
                    if _m in ("upload", "rename", "delete", "download"):
                        o = _p._mock_fs.get(target)
                        pac = o.path if o is not None else None
                        existed = bool(o is not None and o.exists)
                    if by == "engine" and world.fault_hook:
                        world.fault_hook(_side, _m, a)
                    c = Call(side=_side, method=_m, target=target, path_at_call=pac, by=by, t=world.clock.now)
                    if _m == "rename":
                        c.target = "%s=>%s" % (a[0], a[1])
                    c.site = (existed, a[1] if _m == "rename" else None, _site() if by == "engine" else None)
                    try:
                        r = _orig(*a, **kw)
                    except Exception as e:  # noqa
                        c.error = type(e).__name__
                        world.calls.append(c)
                        raise
                    c.result = getattr(r, "oid", r) if _m != "download" else None
                    world.calls.append(c)
                    if by == "engine" and _m != "download" and world.after_hook:
                        world.after_hook(c)
                    return r
                setattr(p, m, wrapper)

    def new_engine(self):
        """engine.World.new_engine with root ids (roots given by id as well as by path)"""
        from cloudsync import CloudSync
        from cloudsync.event import EventManager
        EventManager._provider_guard.clear()
        world = self

        class CS(CloudSync):
            def handle_notification(self, n):
                world.notifications.append(n)

            def resolve_conflict(self, f1, f2):
                return None

        if self.translate_fn:
            tf = self.translate_fn
            CS.translate = lambda self_, side, path: tf(self_, side, path)
        self.storage = self.make_storage()
        kw = {}
        self.by = "user"
        for s in (0, 1):
            # nested roots and roots given by id exist before the engine starts (the engine creating the *ancestors* of a
            # missing nested root is not a question C12 asks)
            if self.by_id or len(comps_of(self.roots[s])) > 1:
                if not self.provs[s].info_path(self.roots[s]):
                    self.provs[s].mkdirs(self.roots[s])
        if self.by_id:
            if self.root_oids is None:
                self.root_oids = tuple(self.provs[s].info_path(self.roots[s]).oid for s in (0, 1))
            kw["root_oids"] = self.root_oids
        self.cs = CS(self.provs, self.roots, storage=self.storage, sleep=None, **kw)
        self.cs.aging = self.aging
        self.by = "engine"
        try:
            self.cs.smgr._validate_provider_roots()
        finally:
            self.by = "user"
        return self.cs

    def fold(self, side):
        return not self.provs[side].case_sensitive

    def is_inside(self, side, path):
        return under(self.roots[side], path, self.fold(side))

    def snapshot(self):
        """(outside L, outside R, inside L, inside R) in one pass per side"""
        res_out, res_in = [], []
        for side in (0, 1):
            root = self.roots[side]
            f = self.fold(side)
            rc = [x.lower() for x in comps_of(root)] if f else comps_of(root)
            hc = None
            if self.hole:
                hc = [x.lower() for x in comps_of(root + self.hole)] if f else comps_of(root + self.hole)
            n = len(rc)
            o, i = {}, {}
            for ob in self.provs[side]._mock_fs.fs_objects():
                if not ob.exists or ob.path in (None, "/"):
                    continue
                v = ("d", None) if ob.type == ob.DIR else ("f", bytes(ob.contents or b""))
                pc = comps_of(ob.path)
                cmpc = [x.lower() for x in pc] if f else pc
                if cmpc[:n] != rc or (hc is not None and cmpc[:len(hc)] == hc):
                    o[ob.path] = v
                elif len(pc) > n:
                    i["/" + "/".join(pc[n:])] = v
            res_out.append(o)
            res_in.append(i)
        return res_out[0], res_out[1], res_in[0], res_in[1]

    def account(self, side):
        """{absolute path: ('d',None)|('f',bytes)} of the whole account of a side"""
        out = {}
        for o in self.provs[side]._mock_fs.fs_objects():
            if o.exists and o.path not in (None, "/"):
                out[o.path] = ("d", None) if o.type == o.DIR else ("f", bytes(o.contents or b""))
        return out

    def outside(self, side):
        """everything that is not the root folder or below it — and, with a declining translate, the declined sub-folder too"""
        acc = self.account(side)
        root = self.roots[side]
        f = self.fold(side)
        return {k: v for k, v in acc.items() if not under(root, k, f) or (self.hole and under(root + self.hole, k, f))}

    def inside(self, side):
        """{path relative to the root: node} of what lies below the root and is not declined"""
        acc = self.account(side)
        root = self.roots[side]
        f = self.fold(side)
        n = len(comps_of(root))
        out = {}
        for k, v in acc.items():
            if under(root, k, f) and len(comps_of(k)) > n and not (self.hole and under(root + self.hole, k, f)):
                out["/" + "/".join(comps_of(k)[n:])] = v
        return out


def _site():
    f = sys._getframe(2)
    while f is not None:
        fn = f.f_code.co_filename
        if fn.endswith(("sync/manager.py", "smartsync.py", "sync/state.py", "cloudsync/cs.py", "cloudsync/event.py")):
            return f.f_code.co_name
        f = f.f_back
    return None


# ---------------------------------------------------------------------------------------------------------------
# the recorder: user operations by absolute path, snapshots around every engine step, what is legitimately inside

class Rec12(Recorder):
    def __init__(self, world, rng):
        super().__init__(world, rng)
        self.spell_roots = False
        self._snap = None
        self._alien_key = None
        self.steps = []                 # per engine step: (which, [outside before L, R], [outside after L, R])
        self.legit_names = set()
        self.legit_tags = set()
        self.touched = [[], []]         # root-relative paths touched per side since the last quiescence
        self.moved_out = [[], []]       # root-relative paths moved out of the root per side since the last quiescence
        self.alien_lines = []
        self.op_hist = {}
        self.went_out = [[], []]        # (outside path, former inside path) of objects moved out of the root, per side
        self.last_move = None
        self.move_lines = []
        self.frozen = [False, False]    # side must stay out of the roots until the next quiescence (see `admissible`)
        self.freeze_request = None
        self.hole_born = set()
        self.root_away = [None, None]   # where the root folder of a side currently is, if a user renamed it away
        self.orphans = []               # root-relative paths whose object went into the declined folder (peer left behind)
        self.note_inside()

    # -- bookkeeping ---------------------------------------------------------------------------------
    def note_inside(self):
        self._snap = None
        sn = self.snap()
        for s in (0, 1):
            for k, v in sn[2 + s].items():
                self.legit_names.add(k.rsplit("/", 1)[1].lower())
                if v[0] == "f":
                    self.legit_tags.add(tag_of(v[1]))

    def restart(self, graceful=True):
        """stop the engine and start a new one over the same providers and storage (what a new process would do)"""
        self.w.fault_hook = None
        self.w.after_hook = None
        self.w.drop_engine(graceful=graceful)
        self.w.new_engine()
        self._snap = None
        self.trace.append("X")
        self.count("restart")

    def snap(self):
        if self._snap is None:
            self._snap = self.w.snapshot()
        return self._snap

    def engine(self, which, watch_side=None):
        sb = self.snap()
        before = [sb[0], sb[1]]
        self._snap = None
        try:
            r = self.w.step(which)
        except _Crash:
            # the process died right after a provider write, before the state was committed
            self.w.by = "user"
            self.engine_steps += 1
            self.trace.append(which)
            sa = self.snap()
            self.steps.append((which, before, [sa[0], sa[1]]))
            self.restart(graceful=False)
            self.alien_point()
            return "crash"
        self.engine_steps += 1
        self.trace.append(which)
        sa = self.snap()
        self.steps.append((which, before, [sa[0], sa[1]]))
        self.alien_point()
        return r

    def alien_point(self):
        sn = self.snap()
        key = (len(self.legit_names), len(self.legit_tags), tuple(sorted(sn[2].items())), tuple(sorted(sn[3].items())))
        if key == self._alien_key:
            return
        self._alien_key = key
        self.alien_lines.append("alien | %s | %s | %s | %s" % (" ".join(sorted(enc_str(n) for n in self.legit_names)),
                                                             " ".join(str(t) for t in sorted(self.legit_tags)),
                                                             enc_tree(lower_tree(sn[2])), enc_tree(lower_tree(sn[3]))))

    def quiesce(self, cap=400, watch_side=None):
        q = super().quiesce(cap=cap, watch_side=watch_side)
        if q:
            self.touched = [[], []]
            self.moved_out = [[], []]
            self.frozen = [False, False]
        return q

    def count(self, k):
        self.op_hist[k] = self.op_hist.get(k, 0) + 1

    # -- user operations by absolute path -----------------------------------------------------------------
    def uabs(self, side, kind, *paths, tag=None, label=None):
        """a user operation by absolute path (inside, outside or across the boundary); returns True if accepted"""
        args = list(paths)
        if kind in ("create", "write"):
            args.append(content(tag))
        err = self.w.user(side, kind, *args)
        self._snap = None
        self.trace.append("U%d:%s:%s%s" % (side, kind, ",".join(paths), ":%d" % tag if tag is not None else ""))
        if err:
            self.rejected += 1
            return False
        self.ops.append((side, kind) + tuple(paths) + ((tag,) if tag is not None else ()))
        self.count(label or kind)
        if kind == "create" and zone(self.w, side, paths[0]) == "hole":
            self.hole_born.add(paths[0].lower())
        self.note_inside()
        for p in paths:
            if self.w.is_inside(side, p):
                self.touched[side].append(self.rel(side, p))
        return True

    def rel(self, side, path):
        n = len(comps_of(self.w.roots[side]))
        return "/" + "/".join(comps_of(path)[n:])

    def spell(self, side, path):
        """a case-insensitive account lets its user spell an existing path in any case"""
        if self.w.fold(side) and not self.w.provs[side].oid_is_path and self.rng.random() < 0.3:
            root = self.w.roots[side]
            if under(root, path, True):
                return self.rng.choice([root.upper(), root.title()]) + path[len(root):]
        return path


def zone(w, side, path):
    """'in' = below the root and translatable, 'hole' = below the root but declined by the custom translate, 'out' = elsewhere"""
    if not w.is_inside(side, path):
        return "out"
    if w.hole and under(w.roots[side] + w.hole, path, w.fold(side)):
        return "hole"
    return "in"


class _Crash(BaseException):
    """simulated process death (not an Exception: nothing in the engine may catch it)"""


def arm_fault(rec, mode, k):
    """mode 'transient': the k-th engine-issued mutating provider call from now raises CloudTemporaryError instead of happening;
    mode 'crash': the process dies right after the k-th successful engine-issued mutating call (before the state is committed)"""
    w = rec.w
    count = {"n": 0}
    if mode == "transient":
        from cloudsync.exceptions import CloudTemporaryError

        def hook(side, method, args):
            if method == "download":
                return
            count["n"] += 1
            if count["n"] == k:
                w.fault_hook = None
                raise CloudTemporaryError("injected fault at engine call %d" % k)
        w.fault_hook = hook
    elif mode == "crash":
        def after(call):
            count["n"] += 1
            if count["n"] == k:
                w.after_hook = None
                raise _Crash()
        w.after_hook = after
    rec.trace.append("F:%s:%d" % (mode, k))
    rec.count("fault-" + mode)


def lower_tree(t):
    return {k.lower(): v for k, v in t.items()}


def outside_folders(world, side):
    """the folders outside the root that the histories use on this side: prefix siblings of the root, a case variant of the
    root's name where the side tells cases apart, an unrelated folder; the account root itself is used for files"""
    root = world.roots[side]
    parent, leaf = root.rsplit("/", 1)
    out = [parent + "/" + leaf + "2", parent + "/" + leaf + "-archive", parent + "/" + leaf + "X", "/zone"]
    if world.provs[side].case_sensitive:
        out.append(parent + "/" + leaf.upper())
    if parent:
        out.append(parent + "/other")
    return out


def setup_outside(rec, rich=True):
    """user-made objects outside the roots (before any history): folders, files in them, a file in the account root"""
    w, rng = rec.w, rec.rng
    for s in (0, 1):
        for f in outside_folders(w, s):
            if rich or rng.random() < 0.6:
                rec.uabs(s, "mkdir", f, label="setup")
                if rng.random() < 0.8:
                    rec.uabs(s, "create", f + "/" + rng.choice(OUT_NAMES[:2]), tag=rec.fresh(), label="setup")
                if rng.random() < 0.4:
                    rec.uabs(s, "mkdir", f + "/od", label="setup")
                    rec.uabs(s, "create", f + "/od/" + rng.choice(OUT_NAMES[:2]), tag=rec.fresh(), label="setup")
        rec.uabs(s, "create", "/top.txt", tag=rec.fresh(), label="setup")
    if w.hole:
        s = rng.randint(0, 1)
        rec.uabs(s, "mkdir", w.roots[s] + w.hole, label="setup")
        rec.uabs(s, "create", w.roots[s] + w.hole + "/secret", tag=rec.fresh(), label="setup")


# ---------------------------------------------------------------------------------------------------------------
# history generator: proposals against the current account, filtered syntactically, then executed

INSIDE_KINDS = ["create", "create", "write", "write", "delete", "mkdir", "rmdir", "rename", "move", "dirrename"]
OUTSIDE_KINDS = ["ocreate", "owrite", "otouch", "odelete", "orename", "omkdir"]
CROSS_KINDS = ["out_file", "out_file", "out_dir", "in_file", "in_file", "in_dir", "back"]
HOLE_KINDS = ["hcreate", "hwrite", "into_hole", "from_hole"]
ROOT_KINDS = ["root_away", "root_back", "root_back"]      # the root folder itself is renamed away / renamed back


def propose(rec, side, kinds):
    """one user operation drawn against the current account of `side`: (kind, [absolute paths], needs_tag, label) or None"""
    w, rng = rec.w, rec.rng
    root = w.roots[side]
    acc = w.account(side)
    ins = w.inside(side)
    files = [k for k, v in ins.items() if v[0] == "f" and not conflicted(k)]
    dirs = [k for k, v in ins.items() if v[0] == "d" and not conflicted(k)]
    parents = [""] + [d for d in dirs if d.count("/") < 2]
    outs = w.outside(side)
    hole_abs = (root + w.hole) if w.hole else None
    ofiles = [k for k, v in outs.items() if v[0] == "f" and not (hole_abs and under(hole_abs, k, w.fold(side)))]
    odirs = [k for k, v in outs.items() if v[0] == "d" and not (hole_abs and under(hole_abs, k, w.fold(side)))
             and not under(k, root, w.fold(side))]           # never an ancestor of the root
    ofolders = [d for d in odirs] + [""]
    low = {k.lower() for k in acc}
    walks = bool(FLAVOURS[w.flavour][side][2]) and not w.provs[side].oid_is_path     # MockProvider._filter_event walks

    def free(path):
        return path.lower() not in low

    def new_in(parent, names=IN_NAMES):
        c = [root + parent + "/" + n for n in names if free(root + parent + "/" + n)]
        return rng.choice(c) if c else None

    def new_out(folder, names=OUT_NAMES):
        c = [folder + "/" + n for n in names if free(folder + "/" + n)]
        return rng.choice(c) if c else None

    k = rng.choice(kinds)
    if rec.root_away[side] and "root_back" in kinds and rng.random() < 0.35:
        k = "root_back"
    if k == "create":
        n = new_in(rng.choice(parents))
        return n and ("create", [n], True, k)
    if k == "write" and files:
        return ("write", [root + rng.choice(files)], True, k)
    if k == "delete" and files:
        return ("delete", [root + rng.choice(files)], False, k)
    if k == "mkdir":
        n = new_in(rng.choice(parents))
        return n and ("mkdir", [n], False, k)
    if k == "rmdir":
        e = [d for d in dirs if not any(x.startswith(d + "/") for x in ins)]
        return e and ("delete", [root + rng.choice(e)], False, k)
    if k == "rename" and files:
        f = rng.choice(files)
        n = new_in(f.rsplit("/", 1)[0])
        return n and ("rename", [root + f, n], False, k)
    if k == "move" and files:
        f = rng.choice(files)
        n = new_in(rng.choice(parents))
        return n and ("rename", [root + f, n], False, k)
    if k == "dirrename" and dirs:
        d = rng.choice(dirs)
        par = rng.choice(parents)
        if par == d or par.startswith(d + "/"):
            return None
        n = new_in(par)
        return n and ("rename", [root + d, n], False, k)
    if k == "ocreate":
        n = new_out(rng.choice(ofolders))
        return n and ("create", [n], True, k)
    if k == "owrite" and ofiles:
        return ("write", [rng.choice(ofiles)], True, k)
    if k == "otouch" and ofiles:
        # the same bytes written again: an event that changes nothing (preferably for an object that used to be inside the root)
        went = [p for (p, _home) in rec.went_out[side]]
        cands = [f for f in ofiles if any(under(g, f, w.fold(side)) for g in went)] or ofiles
        f = rng.choice(cands)
        return ("write", [f], tag_of(outs[f][1]), k)
    if k == "odelete" and ofiles:
        return ("delete", [rng.choice(ofiles)], False, k)
    if k == "orename" and ofiles:
        n = new_out(rng.choice(ofolders))
        return n and ("rename", [rng.choice(ofiles), n], False, k)
    if k == "omkdir":
        n = new_out(rng.choice(ofolders), ["od", "oe"])
        return n and ("mkdir", [n], False, k)
    if k == "out_file" and files:
        f = rng.choice(files)
        fo = rng.choice(ofolders)
        n = fo + "/" + f.rsplit("/", 1)[1]
        if not free(n):
            n = new_out(fo)
        return n and ("rename", [root + f, n], False, k)
    if k == "out_dir" and dirs:
        d = rng.choice(dirs)
        fo = rng.choice(ofolders)
        n = fo + "/" + d.rsplit("/", 1)[1]
        if not free(n):
            n = new_out(fo, ["od", "oe"])
        return n and ("rename", [root + d, n], False, k)
    if k == "in_file" and ofiles:
        f = rng.choice(ofiles)
        par = rng.choice(parents)
        n = root + par + "/" + f.rsplit("/", 1)[1]
        if not free(n):
            n = new_in(par)
        return n and ("rename", [f, n], False, k)
    if k == "in_dir" and odirs:
        # known finding `folder-moved-in-children-not-created`: where the provider does not filter events (no walk of a folder
        # that enters the root) only EMPTY folders are moved in by the random histories
        if not walks:
            odirs = [d for d in odirs if not any(x != d and under(d, x, w.fold(side)) for x in acc)]
            if not odirs:
                return None
        cands = [d for d in odirs if d not in outside_folders(w, side)] or odirs
        d = rng.choice(cands)
        par = rng.choice(parents)
        n = root + par + "/" + d.rsplit("/", 1)[1]
        if not free(n):
            n = new_in(par)
        return n and ("rename", [d, n], False, k)
    if k == "root_away" and not any(rec.root_away):
        parent, leaf = root.rsplit("/", 1)
        n = parent + "/" + leaf + "-away"
        return free(n) and root.lower() in low and ("rename", [root, n], False, k)
    if k == "root_back" and rec.root_away[side]:
        return free(root) and rec.root_away[side] in acc and ("rename", [rec.root_away[side], root], False, k)
    if k == "back" and rec.went_out[side]:
        src, home = rng.choice(rec.went_out[side])
        if src in acc and acc[src][0] == "d" and not walks and any(x != src and under(src, x, w.fold(side)) for x in acc):
            return None
        if src in acc and free(home) and (home.rsplit("/", 1)[0] in acc or home.rsplit("/", 1)[0] == root):
            return ("rename", [src, home], False, k)
        return None
    if hole_abs and k == "hcreate":
        if hole_abs not in acc:
            return ("mkdir", [hole_abs], False, k)
        n = new_out(hole_abs, IN_NAMES + OUT_NAMES)
        return n and ("create", [n], True, k)
    if hole_abs and k == "hwrite":
        hf = [x for x, v in outs.items() if v[0] == "f" and under(hole_abs, x, w.fold(side))]
        return hf and ("write", [rng.choice(hf)], True, k)
    if hole_abs and k == "into_hole" and files and hole_abs in acc:
        f = rng.choice(files)
        n = hole_abs + "/" + f.rsplit("/", 1)[1]
        return free(n) and ("rename", [root + f, n], False, k)
    if hole_abs and k == "from_hole":
        # only files born in the declined folder: one that was synchronised before it went in is not revived when it comes
        # back (check_revivify skips entries with a sync_path) -- the engine's business with its own orphans, see `admissible`
        hf = [x for x, v in outs.items() if v[0] == "f" and under(hole_abs, x, w.fold(side)) and x.lower() in rec.hole_born]
        if hf:
            f = rng.choice(hf)
            n = root + "/" + f.rsplit("/", 1)[1]
            return free(n) and ("rename", [f, n], False, k)
    return None


# True when the tree under test contains the repair of the `peer-left-the-root` findings (probed by their exact replays at the
# start of every run, see `run`): the random histories then include the shapes that used to be excluded on their account
WIDE = False


def admissible(rec, side, prop):
    """the syntactic filter of the random histories.
    Always: nobody works inside the roots while a root folder is renamed away; the path of an orphan (peer of an object that went
    into the declined folder) is left alone.
    Only on a tree WITHOUT the repair of `move-out-vs-peer-edit` / `move-out-then-name-reuse` / `move-out-vs-conflict-rename`
    (WIDE false): while an object that was moved out of the root on one side has not been synchronised, neither side touches the
    same relative path (or a path above/below it), and an object is not moved out while the other side has an unsynchronised
    change at such a path."""
    kind, paths, _t, label = prop
    w = rec.w
    if label == "root_back":
        return True
    rels = [rec.rel(side, p) for p in paths if w.is_inside(side, p)]
    # while a root folder is renamed away the synchronisation is dead (CloudRootMissingError): nobody works inside the roots,
    # on either side, until it is back (anything else is the shape of `move-out-vs-peer-edit`, with the whole tree moved out)
    if any(rec.root_away) and rels:
        return False
    # an object moved into the folder translate declines leaves its peer behind, unsynchronised, on the other side (by design:
    # manager.py 1426-1428); what the engine does with that orphan afterwards is not a C12 question: its path is left alone
    for r in rels:
        if zone(w, side, w.roots[side] + r) == "in" and any(related(r, o) for o in rec.orphans):
            return False
    for r in rels:
        # ... nor is the vacated path (or one above/below it) used again on the mover's own side: known finding
        # `move-out-then-name-reuse`
        if any(related(r, m) for m in rec.moved_out[0] + rec.moved_out[1] if not WIDE or m == "/"):
            return False
    if rels and rec.frozen[side]:
        return False
    leaving = kind == "rename" and zone(w, side, paths[0]) == "in" and zone(w, side, paths[1]) != "in"
    if leaving and (not WIDE or label == "root_away"):
        r = rec.rel(side, paths[0])
        if any(related(r, t) for t in rec.touched[1 - side]):
            return False
        # the object (or something above/below it) has an unsynchronised change of its own on this side, so its peer may go by
        # another name: admissible only if the other side has no unsynchronised change at all, and then the other side stays
        # out of the roots until the next quiescence
        if any(related(r, t) for t in rec.touched[side]):
            if rec.touched[1 - side]:
                return False
            rec.freeze_request = 1 - side
    return True


def do_op(rec, side, kinds, tries=8):
    """propose / filter / execute; returns the proposal executed (accepted by the provider) or None"""
    for _ in range(tries):
        prop = propose(rec, side, kinds)
        if not prop:
            continue
        if not admissible(rec, side, prop):
            rec.count("filtered")
            continue
        kind, paths, needs_tag, label = prop
        w = rec.w
        z0 = zone(w, side, paths[0])
        other_before = lower_tree(w.inside(1 - side))
        spelled = [rec.spell(side, p) for p in paths]
        fr, rec.freeze_request = rec.freeze_request, None
        tag = None
        if needs_tag is True:
            tag = rec.fresh()
        elif needs_tag is not False and needs_tag is not None:
            tag = needs_tag                     # a rewrite of the bytes that are already there
        ok = rec.uabs(side, kind, *spelled, tag=tag, label=label)
        if not ok:
            continue
        if fr is not None:
            rec.frozen[fr] = True
        rec.last_move = None
        if label == "root_away":
            rec.root_away[side] = paths[1]
            rec.moved_out[side].append("/")
        elif label == "root_back":
            rec.root_away[side] = None
            rec.frozen = [True, True]           # let the engine settle before anybody works inside the roots again
        elif kind == "rename":
            z1 = zone(w, side, paths[1])
            if z0 == "in" and z1 != "in":
                rec.moved_out[side].append(rec.rel(side, paths[0]))
                if z1 == "hole":
                    rec.orphans.append(rec.rel(side, paths[0]))
                if z1 == "out":
                    rec.went_out[side].append((paths[1], paths[0]))
            if z0 != z1:
                rel_dst = rec.rel(side, paths[1]).lower() if z1 != "out" else None
                vacant = rel_dst is not None and not any(related(rel_dst, k) and len(comps_of(k)) >= len(comps_of(rel_dst)) for k in other_before)
                rec.last_move = {"side": side, "from": z0, "to": z1, "src": paths[0], "dst": paths[1], "vacant": vacant,
                                 "other_before": other_before}
        return prop
    return None


# ---------------------------------------------------------------------------------------------------------------
# monitor lines of a run

def call_tokens(w, side, calls):
    """tokens of the successful engine-issued mutating calls on `side` whose target existed when the call was made"""
    toks, kept = [], []
    for c in calls:
        if c.by != "engine" or c.side != side or c.method == "download" or c.error:
            continue
        existed, dst, _site_name = c.site
        if c.method in ("create", "mkdir"):
            toks.append("%s:%s" % (c.method, enc_str(c.target)))
        elif c.method == "rename":
            if not existed or c.path_at_call is None:
                continue
            toks.append("rename:%s:%s" % (enc_str(c.path_at_call), enc_str(dst)))
        else:
            if not existed or c.path_at_call is None:
                continue            # delete of an object that is already gone: no effect
            toks.append("%s:%s" % (c.method, enc_str(c.path_at_call)))
        kept.append(c)
    return toks, kept


def call_line(w, side, calls):
    toks, kept = call_tokens(w, side, calls)
    holes = [enc_str(w.roots[side] + w.hole)] if w.hole else []
    return "call | %s %s | %s | %s" % (enc_bool(w.provs[side].case_sensitive), enc_str(w.roots[side]), " ".join(holes), " ".join(toks)), kept


_enc_cache = {}


def abs_tree(t):
    k = id(t)
    hit = _enc_cache.get(k)
    if hit is not None and hit[0] is t:
        return hit[1]
    e = enc_tree(t)
    if len(_enc_cache) > 4000:
        _enc_cache.clear()
    _enc_cache[k] = (t, e)
    return e


def out_line(rec, side):
    secs = []
    for (_which, before, after) in rec.steps:
        secs.append(abs_tree(before[side]))
        secs.append(abs_tree(after[side]))
    return "out | " + " | ".join(secs) if secs else None


def run_lines(rec):
    """[(line, what)] for one finished run: calls per side, outside snapshots per side, alien points, boundary moves"""
    w = rec.w
    out = []
    for s in (0, 1):
        ln, kept = call_line(w, s, w.calls)
        out.append((ln, "calls side %d (%d)" % (s, len(kept))))
        ol = out_line(rec, s)
        if ol:
            out.append((ol, "outside snapshots side %d" % s))
    for ln in rec.alien_lines:
        out.append((ln, "alien"))
    for ln in rec.move_lines:
        out.append((ln, "boundary move"))
    return out


# ---------------------------------------------------------------------------------------------------------------
# families

def make_world(fl, rng, **kw):
    cfg = {"roots": rng.choice(ROOTSETS) if kw.pop("vary_roots", True) else ROOTSETS[0],
           "by_id": kw.pop("by_id", rng.random() < 0.4), "hole": kw.pop("hole", rng.random() < 0.3),
           "storage": kw.pop("storage", "mock")}
    cfg.update(kw)
    return W12(fl, **cfg), cfg


def build_base12(rec, n):
    side = rec.rng.randint(0, 1)
    for _ in range(n):
        do_op(rec, side, ["create", "create", "mkdir", "create"])
    return rec.quiesce()


def move_check(rec):
    """after a settled move across a boundary: the Lean verdict on how it ended on the other side"""
    lm = rec.last_move
    if not lm:
        return
    w, side = rec.w, lm["side"]
    other = enc_tree(lower_tree(w.inside(1 - side)))
    if lm["from"] == "in" and lm["to"] == "out":
        # out of the root: a deletion on the other side
        rec.move_lines.append("mout | %s | %s" % (other, enc_rel(rec.rel(side, lm["src"]).lower())))
    elif lm["from"] == "in" and lm["to"] == "hole":
        # into the folder translate declines: left alone on the other side (the snapshots of the declined folder itself are
        # part of the `out` lines)
        rel = rec.rel(side, lm["src"]).lower()
        sub = {k: v for k, v in lm["other_before"].items() if related(rel, k) and len(comps_of(k)) >= len(comps_of(rel))}
        now = {k: v for k, v in lower_tree(w.inside(1 - side)).items() if related(rel, k) and len(comps_of(k)) >= len(comps_of(rel))}
        rec.move_lines.append("out | %s | %s" % (enc_tree(sub), enc_tree(now)))
    elif lm["to"] == "in" and lm["vacant"]:
        # into the root (from outside, or out of the declined folder): a creation on the other side
        rec.move_lines.append("min | %s | %s | %s" % (enc_tree(lower_tree(w.inside(side))), other, enc_rel(rec.rel(side, lm["dst"]).lower())))


def disturb(rec, mode):
    """one disturbance before the engine works on the operation just made"""
    if mode == "restart":
        rec.restart()
    elif mode in ("transient", "crash"):
        arm_fault(rec, mode, rec.rng.randint(1, 3))


def fam12_settled(rec, nops, kinds, mode=None):
    """every user operation is followed by quiescence; returns False if the engine did not go quiet"""
    at = rec.rng.randrange(nops) if mode else -1
    disturbed = bool(mode)
    for i in range(nops):
        s = rec.rng.randint(0, 1)
        if not do_op(rec, s, kinds):
            continue
        if i >= at and mode:
            if mode == "restart" and rec.rng.random() < 0.5:
                rec.interleave(3)           # restart in the middle of the synchronisation
            disturb(rec, mode)
            mode = None
        if not rec.quiesce():
            return False
        rec.w.fault_hook = rec.w.after_hook = None
        if not disturbed:
            move_check(rec)     # move-out = deletion / move-in = creation is asserted of undisturbed histories only (C12's quantifier)
    return True


def fam12_mixed(rec, nops, kinds, interleave=3, mode=None):
    """user operations on both sides with 0..interleave engine steps in between, then quiescence"""
    at = rec.rng.randrange(nops) if mode else -1
    for i in range(nops):
        s = rec.rng.randint(0, 1)
        do_op(rec, s, kinds)
        if i >= at and mode:
            disturb(rec, mode)
            mode = None
        rec.interleave(interleave)
    q = rec.quiesce()
    rec.w.fault_hook = rec.w.after_hook = None
    return q


# ---------------------------------------------------------------------------------------------------------------
# family `folderout`: a synchronised FOLDER (1-3 children, optionally a nested folder) is moved out of the root; events for
# the moved children (no-op rewrite, real edit, rename, delete) are injected between the move-out and the following engine
# steps in every partial-intake pattern; afterwards the other side works on whatever is left of the counterpart inside its
# root (the write outside the root, if the pairing survived, only shows up then)

CHILD_EVENTS = ["touch", "edit", "rename", "delete"]
# engine steps between the move-out and the (first / second group of) child events: I = event intake of the mover's side,
# O = intake of the other side, S = one sync step.  Every word of length <= 2 over {I, S}, and the longer ones that matter
# (partial intake, the folder handled but punted, ...)
INTAKE_PATTERNS = ["", "I", "S", "O", "II", "IS", "SI", "SS", "IO", "OI", "IIS", "ISI", "ISS", "SIS", "IOS", "ISIS", "IISS"]


def folderout_specs(rng, tier, wide):
    """the variants of one flavour: mover side, creator side, #children, nested folder, groups of (intake pattern, child events),
    later operations of the other side.  A child event names one child or "all" of them (a tool touching a whole tree)."""
    specs = []
    kinds = list(CHILD_EVENTS) + (["peer_edit", "peer_delete"] if wide else [])
    pats = INTAKE_PATTERNS if tier != "quick" else ["", "I"] + rng.sample(INTAKE_PATTERNS[2:], 1)
    reps = 1 if tier == "quick" else 2
    for ev in kinds:
        for p1 in pats:
            # the no-op rewrite before the folder is handled is the rarest event in the other families: one more of each
            for _ in range(reps + (1 if ev == "touch" and (tier != "quick" or p1 in ("", "I")) else 0)):
                target = rng.choice([0, 1, 2, "all", "all"])
                groups = [(p1, [(ev, target)])]
                if rng.random() < 0.4:
                    groups.append((rng.choice(INTAKE_PATTERNS[:10]), [(rng.choice(kinds), rng.choice([0, 1, 2, "all"]))]))
                if rng.random() < 0.3:
                    groups[0][1].append((rng.choice(CHILD_EVENTS), rng.choice([0, 1, 2, "all"])))
                specs.append({"mover": rng.randint(0, 1), "creator": rng.randint(0, 1), "kids": rng.choice([1, 1, 2, 3]),
                              "nested": rng.random() < 0.35, "groups": groups,
                              "later": [rng.choice(["edit", "delete", "edit"]) for _ in range(rng.randint(1, 2))]})
    return specs


def folderout_run(flavour, seed, salt, spec, **kw):
    """one run of the family -> the same dict as `one_run`"""
    rng = random.Random((seed * 1000003) ^ hash_str("c12-folderout-%s-%s" % (salt, flavour)))
    kw.pop("mode", None)
    w, cfg = make_world(flavour, rng, hole=False, **kw)
    cfg["mode"] = None
    cfg["spec"] = spec
    rec = Rec12(w, rng)
    hard = None
    s, c = spec["mover"], spec["creator"]
    step = {"I": "LR"[s], "O": "LR"[1 - s], "S": "S"}
    try:
        outs = outside_folders(w, s)
        dest_parent = rng.choice(outs[:4])
        for side in (0, 1):
            for f in outside_folders(w, side)[:4]:
                rec.uabs(side, "mkdir", f, label="setup")
        root_c, root_s, root_o = w.roots[c], w.roots[s], w.roots[1 - s]
        rec.uabs(c, "mkdir", root_c + "/d", label="setup")
        kids = []
        for i in range(spec["kids"]):
            rec.uabs(c, "create", root_c + "/d/k%d" % i, tag=rec.fresh(), label="setup")
            kids.append("/d/k%d" % i)
        if spec["nested"]:
            rec.uabs(c, "mkdir", root_c + "/d/n", label="setup")
            rec.uabs(c, "create", root_c + "/d/n/k9", tag=rec.fresh(), label="setup")
            kids.append("/d/n/k9")
        rec.uabs(c, "create", root_c + "/keep", tag=rec.fresh(), label="setup")
        if not rec.quiesce():
            hard = "engine did not go quiet within the step cap while the base tree was synchronised"
        elif lower_tree(w.inside(0)) != lower_tree(w.inside(1)):
            hard = None           # base did not converge (C01's business): nothing to check in this run
        else:
            # the folder leaves the root
            rec.uabs(s, "rename", root_s + "/d", dest_parent + "/d", label="out_dir")
            where = {k: dest_parent + k for k in kids}          # current outside path of every moved child
            for (pattern, events) in spec["groups"]:
                for ch in pattern:
                    rec.engine(step[ch])
                for (ev, idx) in [(e, k) for (e, t) in events for k in (kids if t == "all" else [kids[t % len(kids)]])]:
                    k = idx
                    path = where.get(k)
                    acc = w.account(s)
                    if ev in ("touch", "edit", "rename", "delete") and (path is None or path not in acc):
                        continue
                    if ev == "touch":
                        rec.uabs(s, "write", path, tag=tag_of(acc[path][1]), label="child_touch")
                    elif ev == "edit":
                        rec.uabs(s, "write", path, tag=rec.fresh(), label="child_edit")
                    elif ev == "rename":
                        if rec.uabs(s, "rename", path, path + "x", label="child_rename"):
                            where[k] = path + "x"
                    elif ev == "delete":
                        if rec.uabs(s, "delete", path, label="child_delete"):
                            where[k] = None
                    elif ev in ("peer_edit", "peer_delete"):
                        peer = root_o + k
                        if peer in w.account(1 - s):
                            if ev == "peer_edit":
                                rec.uabs(1 - s, "write", peer, tag=rec.fresh(), label=ev)
                            else:
                                rec.uabs(1 - s, "delete", peer, label=ev)
            peer_touched = any(ev.startswith("peer_") for (_p, evs) in spec["groups"] for (ev, _i) in evs)
            if not rec.quiesce():
                hard = "engine did not go quiet within the step cap after a folder was moved out of the root"
            elif not peer_touched:
                # moving out of the root is a deletion on the other side: nothing is left at or below /d there
                rec.move_lines.append("mout | %s | %s" % (enc_tree(lower_tree(w.inside(1 - s))), enc_rel("/d")))
            # later: the other side works on what is left inside its root
            for what in ([] if hard else spec["later"]):
                left = sorted(k for k, v in w.inside(1 - s).items() if v[0] == "f" and related("/d", k) and k != "/d")
                target = root_o + (rng.choice(left) if left else "/keep")
                if target not in w.account(1 - s):
                    continue
                if what == "edit" or not left:
                    rec.uabs(1 - s, "write", target, tag=rec.fresh(), label="later_edit")
                else:
                    rec.uabs(1 - s, "delete", target, label="later_delete")
                rec.interleave(2)
                if not rec.quiesce():
                    hard = "engine did not go quiet within the step cap after a later change of the other side"
                    break
        return {"flavour": flavour, "cfg": cfg, "family": "folderout", "rec": rec, "hard": hard, "lines": run_lines(rec)}
    finally:
        w.close()


# ---------------------------------------------------------------------------------------------------------------
# exact replays (known findings, --replay, shrinking)

def parse_trace_token(tok):
    """'U0:rename:/a,/b' / 'U1:create:/p:7' -> (side, kind, [paths], tag);  'L'/'R'/'S' -> engine step"""
    if tok in ("L", "R", "S", "X"):
        return tok
    if tok.startswith("F:"):
        _f, mode, k = tok.split(":")
        return ("fault", mode, int(k))
    head, kind, rest = tok.split(":", 2)
    tag = None
    if kind in ("create", "write"):
        rest, t = rest.rsplit(":", 1)
        tag = int(t)
    return (int(head[1:]), kind, rest.split(","), tag)


def replay_trace(flavour, cfg, trace, settle=True):
    """re-run a recorded schedule exactly (user operations by absolute path, engine steps L/R/S, X = restart);
    returns (rec, quiet)"""
    w = W12(flavour, roots=tuple(cfg.get("roots", ROOTSETS[0])), by_id=cfg.get("by_id", False), hole=cfg.get("hole", False),
            storage=cfg.get("storage", "mock"))
    rec = Rec12(w, random.Random(0))
    for tok in trace:
        st = parse_trace_token(tok)
        if st == "X":
            if rec.trace and rec.trace[-1] == "X":
                continue            # the restart that followed a crash was recorded by the crash itself
            rec.restart()
        elif isinstance(st, str):
            r = rec.engine(st)
        elif st[0] == "fault":
            arm_fault(rec, st[1], st[2])
        else:
            side, kind, paths, tag = st
            rec.uabs(side, kind, *paths, tag=tag)
    q = rec.quiesce() if settle else None
    return rec, q


def verdicts(rec):
    ls = run_lines(rec)
    vs = run_driver(LAYER, [l for l, _ in ls])
    return [(v, what) for v, (l, what) in zip(vs, ls) if v != "ok"]


# ---------------------------------------------------------------------------------------------------------------
# tie (a): the head of the real SyncManager.embrace_change on stub entries  vs  the Lean decision table

class _Proceed(Exception):
    """raised by the stub entry when the real code leaves the head (first thing the body reads: `sync.is_conflicted`)"""


def head_rows():
    import_repo()
    from cloudsync.sync import manager as mg
    from cloudsync.sync.state import EXISTS, TRASHED, MISSING, UNKNOWN
    from cloudsync.types import IgnoreReason
    rows = []
    for path in (None, "", "/local/x"):
        for exists in (EXISTS, TRASHED, MISSING, UNKNOWN):
            for tr in (None, "", "/remote/x"):
                for sp in (None, "", "/local/old"):
                    for inroot in (False, "", "/", "/x"):
                        for dr in (mg.FINISHED, mg.PUNT, mg.REQUEUE):
                            for ign in (IgnoreReason.NONE, IgnoreReason.DISCARDED, IgnoreReason.IRRELEVANT, IgnoreReason.CONFLICT):
                                for changed in (0, 1):
                                    rows.append((path, exists, tr, sp, inroot, dr, ign, changed))
    return rows


def real_head(row):
    """runs the real method on stubs; returns the canonical effect/outcome string (same vocabulary as the Lean layer)"""
    from cloudsync.sync import manager as mg
    from cloudsync.sync.state import EXISTS
    from cloudsync.types import IgnoreReason
    from cloudsync.notification import NotificationType
    path, exists, tr, sp, inroot, dr, ign, changed = row
    synced = 1 - changed
    eff = []

    class Side:
        pass

    class Prov:
        def __init__(self, side):
            self.side = side
            self.name = "stub%d" % side
            self.oid_is_path = False

        def is_subpath_of_root(self, p, strict=False):
            eff.append("inroot:%s" % ("changed" if self.side == changed and p == path else "synced" if self.side == synced else "other-path"))
            return inroot

    class Sync:
        def __init__(self):
            self.sides = [Side(), Side()]
            for s in self.sides:
                s.path, s.exists, s.sync_path, s.oid = "/other/side", EXISTS, "/other/old", "oid"
            c = self.sides[changed]
            c.path, c.exists, c.sync_path = path, exists, sp
            self.ignored = ign

        def __getitem__(self, i):
            return self.sides[i]

        @property
        def is_discarded(self):
            return self.ignored in (IgnoreReason.DISCARDED, IgnoreReason.IRRELEVANT)

        @property
        def is_conflicted(self):
            raise _Proceed()

        def ignore(self, reason, previous_reasons=(IgnoreReason.NONE,)):
            eff.append("ignore-" + reason.value.lower() if hasattr(reason, "value") else "ignore-?")
            self.ignored = reason

    class NM:
        def notify(self, n):
            eff.append("notify" if n.ntype == NotificationType.SYNC_DISCARDED and n.path == path else "notify-other")

    class State:
        def split(self, s):
            eff.append("split")

    class Mgr:
        providers = [Prov(0), Prov(1)]
        _nmgr = NM()
        state = State()

        def translate(self, side, p):
            eff.append("translate:%s" % ("synced" if side == synced and p == path else "changed" if side == changed else "other-path"))
            return tr

        def delete_synced(self, s, ch, sy, reason=IgnoreReason.DISCARDED):
            eff.append("delete-peer-%s%s" % (reason.value.lower(), "" if (ch, sy) == (changed, synced) else "-wrong-sides"))
            return dr

    sync = Sync()
    try:
        r = mg.SyncManager.embrace_change(Mgr(), sync, changed, synced)
        out = "ret:" + {mg.FINISHED: "F", mg.PUNT: "P", mg.REQUEUE: "R"}.get(r, "?%r" % (r,))
    except _Proceed:
        out = "proceed"
    except Exception as e:  # noqa
        out = "raise:" + type(e).__name__
    return " ".join(eff + [out])


def head_line(row):
    from cloudsync.sync import manager as mg
    from cloudsync.sync.state import EXISTS
    from cloudsync.types import IgnoreReason
    path, exists, tr, sp, inroot, dr, ign, changed = row
    return "head %s %s %s %s %s %s %s" % (enc_bool(bool(path)), enc_bool(exists == EXISTS), enc_bool(bool(tr)), enc_bool(bool(sp)),
                                          enc_bool(bool(inroot)), {mg.FINISHED: "F", mg.PUNT: "P", mg.REQUEUE: "R"}[dr],
                                          enc_bool(ign in (IgnoreReason.DISCARDED, IgnoreReason.IRRELEVANT)))


def head_differential():
    """-> (number of rows, distinct abstract rows, [disagreements])"""
    rows = head_rows()
    lines = [head_line(r) for r in rows]
    model = run_driver(LAYER, lines)
    bad = []
    for r, ln, m in zip(rows, lines, model):
        got = real_head(r)
        if got != m:
            bad.append({"row": repr(r), "line": ln, "model": m, "real": got})
    return len(rows), len(set(lines)), bad


# ---------------------------------------------------------------------------------------------------------------
# tie (c): generated runs

ALL_KINDS = INSIDE_KINDS + OUTSIDE_KINDS + CROSS_KINDS * 2
MODES = [None, None, None, "restart", "transient", "crash"]     # one disturbance per run, in half of the runs
ROOT_FLAVOURS = list(FL_ALL)      # flavours on which root renames are part of the random histories (calibrated, see DELIVERY)


def one_run(flavour, seed, salt, family, **kw):
    """one generated run of the real engine -> dict(cfg, rec, hard failure or None, [(monitor line, what)])"""
    rng = random.Random((seed * 1000003) ^ hash_str("c12-%s-%s-%s" % (family, salt, flavour)))
    mode = kw.pop("mode", "random")
    kw_root_ops = kw.pop("root_ops", True)
    if mode == "random":
        mode = rng.choice(MODES)
    w, cfg = make_world(flavour, rng, **kw)
    cfg["mode"] = mode
    rec = Rec12(w, rng)
    hard = None
    try:
        setup_outside(rec, rich=rng.random() < 0.5)
        kinds = ALL_KINDS + (HOLE_KINDS * 2 if w.hole else [])
        if mode is None and flavour in ROOT_FLAVOURS and kw_root_ops:
            # the root folder itself renamed away and back: only in undisturbed runs (a restart would re-validate the roots)
            kinds = kinds + ROOT_KINDS * 2
        if mode == "transient" and not WIDE:
            # a transient fault at the deletion of a moved-out folder's child makes the engine give up on the folder (C10's business)
            # and leaves the child paired with the object outside the root: a LATER edit of the surviving counterpart is then the
            # shape of `move-out-vs-peer-edit`.  No folder leaves the root in a run with an injected fault on a tree without the repair
            kinds = [k for k in kinds if k != "out_dir"]
        if mode == "crash" and not WIDE:
            # known finding move-out-crash-before-commit: no object leaves the root in a run with a simulated crash
            kinds = [k for k in kinds if k not in ("out_file", "out_dir", "into_hole")]
        if not build_base12(rec, rng.randint(1, 5)):
            hard = "engine did not go quiet within the step cap while the base tree was synchronised"
        elif family == "settled":
            if not fam12_settled(rec, rng.randint(2, 7), kinds, mode=mode):
                hard = "engine did not go quiet within the step cap (settled history: every operation followed by quiescence)"
        else:
            fam12_mixed(rec, rng.randint(2, 8), kinds, mode=mode)     # quiescence is not demanded of concurrent histories (C01's business)
        return {"flavour": flavour, "cfg": cfg, "family": family, "rec": rec, "hard": hard, "lines": run_lines(rec)}
    finally:
        w.close()


def summary12(run, extra=None):
    rec = run["rec"]
    d = {"property": PID, "flavour": run["flavour"], "cfg": run["cfg"], "family": run["family"], "trace": list(rec.trace),
         "left_account": tree_lines(rec.w.account(0)), "right_account": tree_lines(rec.w.account(1)),
         "engine_calls": [c.brief() + " path_at_call=%s site=%s" % (c.path_at_call, c.site[2] if c.site else None)
                          for c in rec.w.calls if c.by == "engine" and c.method != "download"][-40:]}
    if extra:
        d.update(extra)
    return d


def sub_differential(runs, rng):
    """tie (b): `confinedStr` / `isSubpath` of the Lean path model vs the real Provider.is_subpath on the paths seen in the runs
    (plus non-canonical respellings, where the two Lean verdicts are allowed to differ but `isSubpath` must agree with Python)"""
    import_repo()
    from cloudsync.providers.mock import MockProvider
    provs = {True: MockProvider(False, True), False: MockProvider(False, False)}
    seen = set()
    for run in runs:
        w = run["rec"].w
        for s in (0, 1):
            cs = w.provs[s].case_sensitive
            for c in w.calls:
                if c.side == s and c.by == "engine" and c.method != "download":
                    for p in (c.path_at_call, c.target if c.method in ("create", "mkdir") else None, c.site[1] if c.site else None):
                        if p:
                            seen.add((cs, w.roots[s], p))
            for p in list(w.account(s))[:6]:
                seen.add((cs, w.roots[s], p))
    cases = sorted(seen)
    extra = []
    for (cs, root, p) in cases[:400]:
        r = rng.random()
        if r < 0.15:
            extra.append((cs, root, p.replace("/", "//", 1)))
        elif r < 0.3:
            extra.append((cs, root, p + "/"))
        elif r < 0.45:
            extra.append((cs, root.upper(), p))
        elif r < 0.55:
            extra.append((cs, root, p.replace("/", "\\")))
    cases += extra
    lines = ["sub %s %s %s" % (enc_bool(cs), enc_str(root), enc_str(p)) for (cs, root, p) in cases]
    outs = run_driver(LAYER, lines) if lines else []
    bad = []
    for (cs, root, p), o in zip(cases, outs):
        conf, sub = o.split()
        real = bool(provs[cs].is_subpath(root, p))
        if (sub == "T") != real:
            bad.append({"case_sensitive": cs, "root": root, "path": p, "model_isSubpath": sub, "real_is_subpath": real})
        elif real and conf != "T":
            # the proved direction of the bridge, observed on the real function: is_subpath truthy => components confined
            bad.append({"case_sensitive": cs, "root": root, "path": p, "model_confinedStr": conf, "real_is_subpath": real,
                        "broken": "isSubpath_confinedStr"})
    return len(cases), bad


# ---------------------------------------------------------------------------------------------------------------
# known findings: exact deterministic replays (flavour + operations + schedule); identified by call site + guard

PRESYNC = list("LSRS" * 3)
RR = list("LRS" * 14)
KNOWN = {
    # (i) moving a file out of the root on one side while the other side edits its peer: the engine uploads BY ID over the
    #     moved, now-outside file (manager.py upload_synced: providers[synced].upload(sync[synced].oid, ...)) and deletes the edit
    "move-out-vs-peer-edit": {
        "flavour": "oid-oid", "cfg": {},
        "trace": ["U0:mkdir:/zone", "U0:create:/local/f:1"] + PRESYNC + ["U0:rename:/local/f,/zone/f", "U1:write:/remote/f:2"] + RR,
        "expect": ("outside-root", "upload", "upload_synced")},
    # (ii) a folder moved out of the root whose vacated name is taken again (here by its own child moved back in) before the peer's
    #     deletion is synchronised: the engine conflict-renames the peer and then renames BY ID the moved-out folder back into the
    #     root as <name>.conflicted (manager.py handle_rename: providers[synced].rename(sync[synced].oid, translated_path))
    "move-out-then-name-reuse": {
        "flavour": "oid-oid", "cfg": {},
        "trace": ["U0:mkdir:/zone", "U1:mkdir:/remote/c", "U1:mkdir:/remote/c/c"] + list("RSLS" * 3) +
                 ["U0:rename:/local/c,/zone/c", "U0:rename:/zone/c/c,/local/c"] + RR,
        "expect": ("outside-root", "rename", "handle_rename")},
    # (v) a folder is moved out of the root, the engine deletes its peer and the process dies before the state is committed: the
    #     restarted engine reads its own deletion as a user's and propagates it BY ID to the moved-out folder, outside the root
    "move-out-crash-before-commit": {
        "flavour": "oid-path", "cfg": {"roots": ROOTSETS[1], "by_id": True},
        "trace": ["U1:mkdir:/sync/REMOTE", "U1:mkdir:/sync/REMOTE/od", "U1:mkdir:/sync/remote/a"] + list("LSRSSSSSL") +
                 ["U1:rename:/sync/remote/a,/sync/REMOTE/od/a", "F:crash:1"] + list("RS" * 6),
        "expect": ("outside-root", "delete", "delete_synced")},
    # (vi) a file is edited and then moved out of the root on one side while the other side edits its peer: both sides carry a
    #     hash change, handle_hash_conflict -> resolve_conflict -> conflict_rename renames the file OUTSIDE the root to
    #     <name>.conflicted (manager.py conflict_rename: providers[side].rename(oinfo.oid, conflict_path), path = the moved path)
    "move-out-vs-conflict-rename": {
        "flavour": "oid-oid", "cfg": {},
        "trace": ["U0:mkdir:/zone", "U1:mkdir:/zone", "U0:create:/local/f:1"] + PRESYNC +
                 ["U0:write:/local/f:2", "U0:rename:/local/f,/zone/f", "U1:write:/remote/f:3"] + RR,
        "expect": ("outside-root", "rename", "conflict_rename")},
}
# All four are instances of one defect: a change is propagated BY ID to a peer that has meanwhile left the sync root.  Repair:
# fix_C12_1.diff (SyncManager.sync splits such an entry before anything is written).  The replays double as the PROBE that tells
# whether the tree under test contains the repair (see WIDE).
PEER_LEFT_IDS = list(KNOWN)
REPAIR_NOTE = {i: "fix_C12_1.diff" for i in PEER_LEFT_IDS}


def listed_commits(pid=PID):
    """{finding id: commit field} of the `fixed:` lines of known_findings.txt ('<SHA>' = repair proposed, not committed yet)"""
    out = {}
    path = os.path.join(VERIF, "known_findings.txt")
    if os.path.exists(path):
        for line in open(path, encoding="utf8"):
            m = re.match(r"fixed: property=%s\s+commit=(\S+)\s+id=(\S+)" % pid, line.strip())
            if m:
                out[m.group(2)] = m.group(1)
    return out


# fixed findings: the exact replays are re-run on every run and must now pass
ROOT_REPLAY = ["U0:create:/local/f:1", "U0:mkdir:/local/d", "U0:create:/local/d/g:2"] + PRESYNC
FIXED = {
    # id-style provider whose events carry no paths, filtering off: renaming the ROOT folder itself was not detected
    # (event.py: _fill_event_path filled the STALE path from the state in before _notify_on_root_change_event compared it with the
    # root path) and the engine deleted the whole tree of the other side, the other root folder included (delete_synced, guard
    # root-itself).  First entry = the replay under which the finding was listed; the others vary side, flavour and roots-by-id.
    "root-folder-rename-undetected": [
        ("oid-oid", {"by_id": True}, ROOT_REPLAY + ["U0:rename:/local,/renamed"] + RR, 0),
        ("oid-oid", {"by_id": False}, ROOT_REPLAY + ["U1:rename:/remote,/renamed"] + RR, 1),
        ("oid-path", {"by_id": False}, ROOT_REPLAY + ["U0:rename:/local,/renamed"] + RR, 0),
        ("oidcs-oidci", {"by_id": True}, ROOT_REPLAY + ["U1:rename:/remote,/renamed"] + RR, 1),
    ],
}


def replay_fixed_root(flavour, cfg, trace, side):
    """-> None if the fixed behaviour holds (the Lean monitor accepts the run AND the mover side's event intake raised
    CloudRootMissingError 'root was renamed'), else a description of what went wrong"""
    rec, _q = replay_trace(flavour, cfg, trace, settle=False)
    try:
        bad = verdicts(rec)
        if bad:
            return {"flavour": flavour, "cfg": cfg, "trace": trace, "monitor_verdict": bad[0][0], "monitor_line_kind": bad[0][1],
                    "engine_calls": [c.brief() + " path_at_call=%s" % c.path_at_call for c in rec.w.calls
                                     if c.by == "engine" and c.method != "download"][-12:]}
        noticed = [e for e in rec.w.escaped if e[0] == "LR"[side] and "CloudRootMissingError" in e[1] and "renamed" in e[1]]
        if not noticed:
            return {"flavour": flavour, "cfg": cfg, "trace": trace,
                    "failure": "the renamed root folder was not noticed: no CloudRootMissingError('root was renamed ...') from the event intake",
                    "escaped": [list(e) for e in rec.w.escaped[:4]]}
        return None
    finally:
        rec.w.close()


def replay_known(ident):
    """-> (reproduces: bool, detail)"""
    k = KNOWN[ident]
    rec, _q = replay_trace(k["flavour"], k["cfg"], k["trace"], settle=False)
    try:
        guard, meth, site = k["expect"]
        hits = []
        for s in (0, 1):
            ln, kept = call_line(rec.w, s, rec.w.calls)
            v = run_driver(LAYER, [ln])[0]
            if v.startswith("reject"):
                _r, g, idx, m = v.split()
                c = kept[int(idx)]
                hits.append((g, m, c.site[2], c.brief(), c.path_at_call))
        ok = any(h[0] == guard and h[1] == meth and h[2] == site for h in hits)
        return ok, hits
    finally:
        rec.w.close()


def replay_folder_move_in():
    """(iv) a NON-EMPTY folder moved into the root on a provider that does not walk it (no event filtering): only the folder is
    created on the other side, its children are not (MockProvider generates one event for the folder; the engine never lists it)"""
    w = W12("oid-oid")
    rec = Rec12(w, random.Random(0))
    try:
        for st in [(0, "mkdir", "/zone"), (0, "mkdir", "/zone/od")]:
            rec.uabs(*st)
        rec.uabs(0, "create", "/zone/od/oa", tag=1)
        rec.uabs(0, "create", "/local/a", tag=2)
        w.run_to_quiet()
        rec.uabs(0, "rename", "/zone/od", "/local/od")
        q = w.run_to_quiet()
        ln = "min | %s | %s | %s" % (enc_tree(w.inside(0)), enc_tree(w.inside(1)), enc_rel("/od"))
        v = run_driver(LAYER, [ln])[0]
        return (q is not None and v.startswith("reject moved-in-not-created")), v
    finally:
        w.close()


def scenario_runs(seed):
    """deterministic corner scenarios on which the pinned engine was checked clean (every flavour/side listed here):
    the ROOT FOLDER ITSELF is renamed (every flavour and side since the repair of `root-folder-rename-undetected`: the engine
    must notice, event.py _notify_on_root_change_event, and must not treat it as a move-out of everything) or removed with its
    content"""
    out = []
    n = 0
    for fl in FL_ALL:
        for side in (0, 1):
            for what in ("rename", "rmtree"):
                n += 1
                cfg = {"by_id": (seed + n) % 2 == 0, "roots": ROOTSETS[0], "hole": False, "storage": "mock", "mode": None}
                root = ROOTSETS[0][side]
                tr = ["U0:mkdir:/zone", "U0:create:/local/f:1", "U0:mkdir:/local/d", "U0:create:/local/d/g:2", "U1:create:/remote/h:3"] + PRESYNC + \
                     (["U%d:rename:%s,/renamed" % (side, root)] if what == "rename" else ["U%d:rmtree:%s" % (side, root)]) + list("LRS" * 22)
                rec, _q = replay_trace(fl, cfg, tr, settle=False)
                rec.w.close()
                out.append({"flavour": fl, "cfg": cfg, "family": "root-" + what, "rec": rec, "hard": None, "lines": run_lines(rec)})
    return out


# ---------------------------------------------------------------------------------------------------------------
# the generated write-site table

def write_sites_obligation():
    """regenerate Gen/WriteSites.lean from the repo under test, build Props/C12Sites.lean (kept outside the default import
    closure) and audit `write_sites_are_known`; everything under one lock.  -> (ok, detail, n_sites, changed)"""
    import fcntl
    import subprocess
    sys.path.insert(0, os.path.join(VERIF, "tools"))
    import gen_write_sites
    os.makedirs(os.path.join(LEAN, ".lake"), exist_ok=True)
    with open(os.path.join(LEAN, ".lake", "c12sites.lock"), "w") as lk:
        fcntl.flock(lk, fcntl.LOCK_EX)
        try:
            sites, changed = gen_write_sites.generate(write=True)
            ok, log = lean_build_module("Csverif.Props.C12Sites")
            if not ok:
                return False, "Props/C12Sites.lean no longer checks (generated table differs from the audited list): " + log[-700:], len(sites), changed, sites
            adir = os.path.join(LEAN, ".lake", "audit")
            os.makedirs(adir, exist_ok=True)
            fn = os.path.join(adir, "Audit_C12Sites_%d.lean" % os.getpid())
            with open(fn, "w") as f:
                f.write("import Csverif.Props.C12Sites\n#print axioms CS.Spec.write_sites_are_known\n")
            p = subprocess.run(["lake", "env", "lean", fn], cwd=LEAN, capture_output=True, text=True, timeout=1800)
            os.unlink(fn)
            out = p.stdout + p.stderr
            if "does not depend on any axioms" in out:
                return True, "", len(sites), changed, sites
            m = re.search(r"depends on axioms: \[([^\]]*)\]", out)
            if m and all(a.strip() in ALLOWED_AXIOMS for a in m.group(1).split(",") if a.strip()):
                return True, "", len(sites), changed, sites
            return False, "audit of write_sites_are_known failed: " + out[-400:], len(sites), changed, sites
        finally:
            fcntl.flock(lk, fcntl.LOCK_UN)


# ---------------------------------------------------------------------------------------------------------------
# the check

def plan(tier):
    """(family, flavour list, runs per flavour, world options)"""
    n = 6 if tier == "quick" else 100
    return [("settled", FL_ALL, n, {}),
            ("mixed", FL_ALL, n, {}),
            # the two mixed-case flavours with the case variant of the root next to it, always; roots by id; hole translate
            ("settled", ["oidci-oidcs", "oidcs-oidci"], n, {"by_id": True, "hole": False, "vary_roots": False}),
            ("mixed", ["oid-oid", "oidf-oidf", "path-oidf"], n, {"hole": True}),
            ("settled", ["oid-oid", "path-path"], max(1, n // 2), {"storage": "sqlite"})]


def run(res, tier, seed, proof_broken, replay):
    broken = list(proof_broken)
    opens, fixed = load_known_findings(PID)
    # 1b. the generated table
    ok, detail, nsites, changed, sites = write_sites_obligation()
    res.coverage["obligations"] = res.coverage.get("obligations", 0) + 1
    res.coverage.setdefault("theorems", []).append("CS.Spec.write_sites_are_known")
    if ok:
        res.coverage["discharged"] = res.coverage.get("discharged", 0) + 1
    else:
        broken.append(detail)
    res.coverage["write_sites"] = {"rows": nsites, "regenerated_file_changed": changed,
                                   "provider_sites": [list(s[:5]) + [s[5]] for s in sites if s[3] == "P"]}
    if replay:
        return run_replay(res, replay)
    # 2. known findings
    global WIDE
    commits = listed_commits()
    reproduces = {}
    for ident in KNOWN:
        hit, hits = replay_known(ident)
        reproduces[ident] = (hit, hits)
    # the wide generator (shapes formerly excluded on account of these findings) is used iff none of their replays reproduces
    WIDE = not any(h or hs for (h, hs) in reproduces.values())
    res.coverage["peer_left_root_repair_present"] = WIDE
    for ident, (hit, hits) in reproduces.items():
        if ident in opens:
            if hit:
                res.known.append("%s :: %s" % (ident, opens[ident]))
            else:
                res.notes.append("known finding %s no longer reproduces (stale): monitor says %r" % (ident, hits))
        elif ident in fixed:
            if hit or hits:
                if commits.get(ident) == "<SHA>":
                    # the repair is proposed (placeholder commit) but not in the tree under test: still a known finding
                    res.known.append("%s :: %s [repair proposed in %s, not in the tree under test]" % (ident, fixed[ident], REPAIR_NOTE[ident]))
                else:
                    k = KNOWN[ident]
                    res.violation({"property": PID, "kind": "regression of fixed finding", "id": ident, "flavour": k["flavour"],
                                   "cfg": k["cfg"], "trace": k["trace"], "monitor_rejects": [list(map(str, h)) for h in hits]})
        elif hit:
            k = KNOWN[ident]
            res.violation({"property": PID, "kind": "unlisted finding reproduces", "id": ident, "flavour": k["flavour"], "cfg": k["cfg"],
                           "trace": k["trace"], "monitor_rejects": [list(map(str, h)) for h in hits]})
    for ident, replays in FIXED.items():
        if ident in fixed:
            for (fl, cfg, trace, side) in replays:
                bad = replay_fixed_root(fl, cfg, trace, side)
                if bad:
                    if commits.get(ident) == "<SHA>":
                        res.known.append("%s :: %s [repair proposed, not in the tree under test]" % (ident, fixed[ident]))
                    else:
                        bad.update({"property": PID, "kind": "regression of fixed finding", "id": ident})
                        res.violation(bad)
                    break
        elif ident in opens:
            # still listed as open (tree without the repair): same replay, reported as a known finding while it reproduces
            if replay_fixed_root(*replays[0]):
                res.known.append("%s :: %s" % (ident, opens[ident]))
            else:
                res.notes.append("known finding %s no longer reproduces (stale)" % ident)
    if "folder-moved-in-children-not-created" in opens:
        hit, v = replay_folder_move_in()
        if hit:
            res.known.append("folder-moved-in-children-not-created :: " + opens["folder-moved-in-children-not-created"])
        else:
            res.notes.append("known finding folder-moved-in-children-not-created no longer reproduces (stale): %s" % v)
    # 3a. decision table of the embrace_change head
    nrows, nabs, hbad = head_differential()
    if hbad:
        broken.append("embrace_change head differs from the Lean table: %r" % (hbad[0],))
    # 3c. trace refinement
    runs, lines, owners, hard = [], [], [], []
    hist = {"family": {}, "flavour": {}, "ops": {}, "by_id": 0, "hole": 0, "nested_roots": 0, "sqlite": 0, "engine_calls": {}, "boundary_moves": 0}
    for (family, fls, n, opts) in plan(tier):
        for i in range(n):
            for fl in fls:
                r = one_run(fl, seed, "%d-%s" % (i, sorted(opts.items())), family, **dict(opts))
                runs.append(r)
                hist["family"][family] = hist["family"].get(family, 0) + 1
                hist["flavour"][fl] = hist["flavour"].get(fl, 0) + 1
                hist["by_id"] += bool(r["cfg"]["by_id"])
                hist["hole"] += bool(r["cfg"]["hole"])
                hist["nested_roots"] += r["cfg"]["roots"] != ROOTSETS[0]
                hist["sqlite"] += r["cfg"]["storage"] == "sqlite"
                hist["boundary_moves"] += len(r["rec"].move_lines)
                for k, v in r["rec"].op_hist.items():
                    hist["ops"][k] = hist["ops"].get(k, 0) + v
                for c in r["rec"].w.calls:
                    if c.by == "engine" and c.method != "download" and not c.error:
                        key = "%s@%s" % (c.method, c.site[2])
                        hist["engine_calls"][key] = hist["engine_calls"].get(key, 0) + 1
                if r["hard"]:
                    hard.append(summary12(r, {"failure": r["hard"]}))
                for ln, what in r["lines"]:
                    lines.append(ln)
                    owners.append((r, what))
    for r in scenario_runs(seed):
        runs.append(r)
        hist["family"][r["family"]] = hist["family"].get(r["family"], 0) + 1
        for ln, what in r["lines"]:
            lines.append(ln)
            owners.append((r, what))
    # family `folderout`: folder-level move-outs with child events in every partial-intake pattern, then later work of the other side
    for fl in FL_ALL:
        frng = random.Random((seed * 1000003) ^ hash_str("c12-fo-specs-" + fl))
        for j, spec in enumerate(folderout_specs(frng, tier, WIDE)):
            r = folderout_run(fl, seed, "%d" % j, spec)
            runs.append(r)
            hist["family"]["folderout"] = hist["family"].get("folderout", 0) + 1
            hist["flavour"][fl] = hist["flavour"].get(fl, 0) + 1
            for k, v in r["rec"].op_hist.items():
                hist["ops"][k] = hist["ops"].get(k, 0) + v
            for (_pat, evs) in spec["groups"]:
                hist.setdefault("folderout_patterns", {})[_pat or "-"] = hist.setdefault("folderout_patterns", {}).get(_pat or "-", 0) + 1
            if r["hard"]:
                hard.append(summary12(r, {"failure": r["hard"]}))
            for ln, what in r["lines"]:
                lines.append(ln)
                owners.append((r, what))
    vs = run_driver(LAYER, lines) if lines else []
    rejects = [(v, o) for v, o in zip(vs, owners) if v != "ok"]
    nsub, sbad = sub_differential(runs, rng_for(seed, "c12sub"))
    if sbad:
        broken.append("path bridge differs from Provider.is_subpath: %r" % (sbad[0],))
    keys = {(r["flavour"], tuple(r["rec"].ops)) for r in runs if r["rec"].move_lines or any(c.by == "engine" and c.method != "download" for c in r["rec"].w.calls)}
    res.coverage.update({
        "evaluations": len(lines) + nrows + nsub, "programs": len(runs), "distinct_nontrivial": len(keys),
        "rule": "a run = outside objects set up by users (prefix-sibling folders <root>2, <root>-archive, <root>X, a folder differing from "
                "the root by letter case on case-sensitive sides, /zone, files in the account root), a synchronised base, then 2-8 user "
                "operations on both sides drawn against the current accounts: inside the roots, outside them, and moves across the boundary "
                "in both directions (files and folders, out and back), the ROOT FOLDER itself renamed away and back (undisturbed runs), with a declining translate (<root>/priv) in ~30% of the runs, roots "
                "by id in ~40%, nested roots in ~50%; family `settled`: quiescence after every operation (+ move-out=deletion / move-in="
                "creation verdicts); family `mixed`: 0-3 engine steps between operations; family `folderout`: a synchronised folder with 1-3 "
                "children (optionally a nested folder) is moved out of the root, child events (same-bytes rewrite, edit, rename, delete; one "
                "child or all) are injected after 0-4 engine steps in every intake pattern, quiescence (+ move-out=deletion verdict), then the "
                "other side edits/deletes what is left of the counterpart.  Monitor lines per run: calls per side, outside "
                "snapshots around every engine step per side, alien points, boundary moves.  non-trivial = the engine issued at least one "
                "mutating call; distinct by (flavour, operations)",
        "samples": [{"monitor_line": lines[0][:400] if lines else None, "run": summary12(runs[0]) if runs else None}],
        "disagreements_checked": len(rejects) + len(hard) + len(hbad) + len(sbad),
        "traces_validated_against_impl": len(runs), "monitor_lines": len(lines),
        "head_rows": nrows, "head_abstract_rows_hit": nabs, "bridge_paths_compared": nsub,
        "histogram": hist, "fingerprints": fingerprints(C12_FP),
    })
    res.assumptions += ["step-atomic engine semantics: user operations interleave between, not inside, engine steps",
                        "harness determinisation (sequential ids, virtual clock, insertion-ordered sets) selects one admissible behaviour of the real program",
                        "the random histories exclude, by a syntactic filter (`admissible`), the shapes of the listed known findings that are "
                        "not repaired in the tree under test (probed by their exact replays); those are replayed exactly instead",
                        "MockProvider is the provider; `mkdirs`/`rmtree` decompose into the traced `mkdir`/`delete`",
                        "the write-site extractor is syntactic (tools/gen_write_sites.py); dynamic dispatch it cannot see is covered only by the trace monitor"]
    for v, (r, what) in rejects[:3]:
        res.violation(summary12(r, {"monitor_verdict": v, "monitor_line_kind": what, "broken": broken}))
    for s in hard[:3]:
        res.violation(s)
    if broken and not rejects and not hard:
        hit = search12(tier, seed)
        if hit:
            hit["broken"] = broken
            res.violation(hit)
        else:
            res.violation({"property": PID, "kind": "proof obligation / correspondence no longer checks", "broken": broken,
                           "head_disagreements": hbad[:3], "bridge_disagreements": sbad[:3],
                           "generated_write_sites": [list(map(str, s)) for s in sites if s[3] in ("P", "X", "V")]}, no_input=True)


def search12(tier, seed):
    """after a broken obligation / tie: widen the trace search (more runs, fresh salts) for a concrete violating run"""
    n = 6 if tier == "quick" else 60
    for i in range(n):
        lines, owners = [], []
        for family in ("settled", "mixed"):
            for fl in FL_ALL:
                r = one_run(fl, seed, "search-%d" % i, family)
                if r["hard"]:
                    return summary12(r, {"failure": r["hard"]})
                for ln, what in r["lines"]:
                    lines.append(ln)
                    owners.append((r, what))
        for v, (r, what) in zip(run_driver(LAYER, lines), owners):
            if v != "ok":
                return summary12(r, {"monitor_verdict": v, "monitor_line_kind": what})
    return None


def run_replay(res, path):
    import json
    with open(path) as f:
        d = json.load(f)
    if "trace" not in d:
        print("replay file has no schedule (it names a broken obligation): %s" % d.get("broken"))
        return
    rec, q = replay_trace(d["flavour"], d.get("cfg", {}), d["trace"], settle=False)
    try:
        bad = verdicts(rec)
        print("replayed %d schedule steps on flavour %s: %s" % (len(d["trace"]), d["flavour"], bad or "monitor accepts"))
        for v, what in bad[:3]:
            res.violation(summary12({"flavour": d["flavour"], "cfg": d.get("cfg", {}), "family": d.get("family"), "rec": rec},
                                    {"monitor_verdict": v, "monitor_line_kind": what}))
    finally:
        rec.w.close()


if __name__ == "__main__":
    standard_main(PID, run)
