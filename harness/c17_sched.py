"""C17 — scheduling laws: nothing syncs before it has aged; oldest eligible goes first.

Correspondence: random tables of pending entries are built through the real SyncState API (update, attribute writes
ent[side].oid/path/sync_path/changed, mark_changed, punt, priority writes, set_aged, finished) with two MockProviders under a
virtual clock; after every call the whole scheduling state (change times, priorities, changeset order, last issued stamp) and
for every query the entry returned by the real change(age) are compared with the Lean model (Model/Sched.lean).
Determinism: an insertion-ordered replacement of `set` is injected as the module global `set` of cloudsync.sync.state (one
admissible iteration order of the real program); the model keeps the changeset as a list in the same order, so ties in the
sort key are compared too (Python's sorted is stable).
Search oracle (only after a break): C17's own statements evaluated on the implementation."""
import os
import sys
from fractions import Fraction as F

sys.path.insert(0, os.path.dirname(os.path.abspath(__file__)))
from common import *  # noqa

sys.path.insert(0, os.path.join(VERIF, "tools"))
import gen_punt_sites  # noqa
import c17lib  # noqa

PID = "C17"
KF_ID = "two-sided-ageing"
FP_SPEC = {"cloudsync/sync/state.py": ["SyncState.change", "SyncState.mark_changed", "SyncState.updated", "SyncState.finished",
                                       "SyncEntry.punt", "SyncEntry.is_related_to", "SyncEntry.__setattr__", "SideState.set_aged",
                                       "SideState.__setattr__", "SyncState.update", "SyncState.update_entry",
                                       "SyncState._change_path", "SyncState._change_oid", "SyncState.__init__",
                                       "SyncEntry.get_latest", "SyncState.unconditionally_get_latest",
                                       "SyncState.unconditionally_get_no_info"],
           "cloudsync/sync/manager.py": ["SyncManager.do", "SyncManager.__init__", "SyncManager.finished",
                                         "SyncManager._sync_one_entry", "SyncManager.sync", "SyncManager.pre_sync"],
           "cloudsync/exceptions.py": ["CloudException", "CloudTemporaryError", "CloudOutOfSpaceError"],
           "cloudsync/runnable.py": ["Runnable.run", "Runnable.backoff", "Runnable.nothing_happened",
                                     "Runnable.__increment_backoff"],
           "cloudsync/cs.py": ["CloudSync.aging"]}
TOL = 1e-9
NEAR = 1e-6
GRID = 1024


class Invalid(Exception):
    """an op list that does not make sense on this table (only met while shrinking)"""


class VClock:
    def __init__(self):
        self.t = 0.0

    def time(self):
        return self.t


class OSet:
    """insertion-ordered stand-in for the builtin set (add/discard keep first-insertion order, like dict keys)"""
    def __init__(self, it=()):
        self.d = {}
        for x in it:
            self.d[x] = None

    def add(self, x):
        self.d[x] = None

    def discard(self, x):
        self.d.pop(x, None)

    def remove(self, x):
        del self.d[x]

    def __iter__(self):
        return iter(self.d)

    def __len__(self):
        return len(self.d)

    def __contains__(self, x):
        return x in self.d

    def copy(self):
        return OSet(self.d)

    def clear(self):
        self.d.clear()


class Env:
    """imports the real modules and patches cloudsync.sync.state's `time` and `set` (harness-level only)"""
    def __init__(self):
        import_repo()
        import cloudsync.sync.state as S
        from cloudsync.providers.mock import MockProvider
        from cloudsync.types import FILE, DIRECTORY, LOCAL, REMOTE
        self.DIRECTORY = DIRECTORY
        from cloudsync.types import OInfo

        class ScriptedProvider(MockProvider):
            """id-style MockProvider whose info_oid answers are scripted by the harness (the model's oracle parameter);
            ids the script does not mention fall through to the real mock file system"""
            def __init__(self, *a, **kw):
                super().__init__(*a, **kw)
                self.script = {}
                self.answer_paths = False

            def info_path(self, path, use_cache=True):
                # path-id provider in the state-level tie: every path the engine asks about exists (its id is its path)
                if self.answer_paths:
                    return OInfo(otype=FILE, oid=path, hash=None, path=path, size=0, mtime=None)
                return super().info_path(path, use_cache=use_cache)

            def info_oid(self, oid, use_cache=True):
                if oid in self.script:
                    path = self.script[oid]
                    if path is None:
                        return None
                    return OInfo(otype=FILE, oid=oid, hash=b"h", path=path, size=0, mtime=None)
                return super().info_oid(oid, use_cache=use_cache)
        self.S, self.MockProvider, self.FILE, self.ScriptedProvider = S, MockProvider, FILE, ScriptedProvider
        assert (LOCAL, REMOTE) == (0, 1)
        self.clock = VClock()
        self._time = S.time

    def __enter__(self):
        self.S.time = self.clock
        self.S.set = OSet
        return self

    def __exit__(self, *a):
        self.S.time = self._time
        if "set" in self.S.__dict__:
            del self.S.set


# ------------------------------------------------------------------ the real table

def fr(x):
    return "%d/%d" % (F(x).numerator, F(x).denominator)


def num(x):
    """priority/prioritize value handed to the real code: ints stay ints, the rest floats (all dyadic, exact)"""
    x = F(x)
    return int(x) if x.denominator == 1 else float(x)


def cfg_prio(cfg, side, path):
    """the application's prioritize: rule-based (value of the first matching name suffix, else of the top-level folder, else 0)
    or, for the older tables, a path -> (local, remote) map"""
    rules = cfg.get("rules")
    if rules is not None:
        for sfx, v in rules["sfx"]:
            if path.endswith(sfx):
                return F(v)
        parts = path.split("/")
        if len(parts) > 1:
            for top, v in rules["top"]:
                if parts[1] == top:
                    return F(v)
        return F(0)
    return F(cfg["prio"].get(path, ("0", "0"))[side])


class RealTable:
    def __init__(self, env, cfg):
        self.env, self.cfg = env, cfg
        env.clock.t = float(cfg["t0"])
        oip = cfg.get("oip", (False, False))
        pl, pr = env.ScriptedProvider(bool(oip[0]), True), env.ScriptedProvider(bool(oip[1]), True)
        pl.answer_paths, pr.answer_paths = bool(oip[0]), bool(oip[1])
        pl.default_sleep = float(cfg["punt"][0] * 10)
        pr.default_sleep = float(cfg["punt"][1] * 10)
        self.pl = pl
        self.provs = (pl, pr)
        self.state = env.S.SyncState((pl, pr), prioritize=lambda side, path: num(self.prio(side, path)))
        assert self.state._punt_secs == (float(cfg["punt"][0]), float(cfg["punt"][1]))
        assert type(self.state._changeset_storage) is OSet
        self.ents = []
        self.index = {}
        self.oids = set()

    def prio(self, side, path):
        return cfg_prio(self.cfg, side, path)

    def ent(self, i):
        if not (0 <= i < len(self.ents)):
            raise Invalid()
        return self.ents[i]

    def eid(self, e):
        return self.index[id(e)]

    def pending(self):
        return list(self.state._changeset_storage)

    def obs(self):
        return (self.state._last_changed_time,
                [(i, e.priority, e[0].changed, e[1].changed, e[0].path, e[1].path, bool(e[0].oid), bool(e[1].oid))
                 for i, e in enumerate(self.ents)],
                [self.eid(e) for e in self.pending()])

    def apply(self, op):
        st, k, clock = self.state, op[0], self.env.clock
        if k == "update":
            _, t, s, oid, path = op
            owner = st.lookup_oid(s, oid)
            if owner is None and oid in self.oids and not self.cfg.get("oip", (False, False))[s]:
                raise Invalid()
            clock.t = float(t)
            st.update(s, self.env.FILE, oid, path=path, hash=b"h")
            e = st.lookup_oid(s, oid)
            if id(e) not in self.index:
                self.index[id(e)] = len(self.ents)
                self.ents.append(e)
            self.oids.add(oid)
            return ("id", self.eid(e))
        if k == "info":
            _, s, oid, path = op
            self.provs[s].script[oid] = path
            return ("hdr",)
        if k == "updatedir":
            _, t, s, oid, prior, path = op
            if st.lookup_oid(s, oid) is None and oid in self.oids and not (prior and st.lookup_oid(s, prior) is not None) \
                    and not self.cfg.get("oip", (False, False))[s]:
                raise Invalid()
            clock.t = float(t)
            st.update(s, self.env.DIRECTORY, oid, path=path, prior_oid=prior)
            e = st.lookup_oid(s, oid)
            if e is None:
                raise Invalid()
            if id(e) not in self.index:
                self.index[id(e)] = len(self.ents)
                self.ents.append(e)
            self.oids.add(oid)
            return ("id", self.eid(e))
        if k == "attach":
            _, s, i, oid, path = op
            e = self.ent(i)
            if e[s].oid or oid in self.oids:
                raise Invalid()
            e[s].oid = oid
            e[s].path = path
            self.oids.add(oid)
        elif k == "mark":
            _, t, s, i = op
            e = self.ent(i)
            clock.t = float(t)
            st.mark_changed(s, e)
        elif k == "punt":
            self.ent(op[1]).punt()
        elif k == "setprio":
            self.ent(op[1]).priority = num(op[2])
        elif k == "clear":
            self.ent(op[2])[op[1]].changed = 0
        elif k == "setaged":
            self.ent(op[2])[op[1]].set_aged()
        elif k == "syncpath":
            self.ent(op[2])[op[1]].sync_path = op[3]
        elif k == "finished":
            st.finished(self.ent(op[1]))
        elif k == "change":
            _, now, age = op
            keep = clock.t
            clock.t = float(now)
            try:
                r = st.change(num(age))
            finally:
                clock.t = keep
            return ("pick", None if r is None else self.eid(r), fragile(self, now, age))
        else:
            raise HarnessError("bad op %r" % (op,))
        return ("ok",)


SIDE = "LR"


def op_line(op, table):
    k = op[0]
    if k == "update":
        _, t, s, oid, path = op
        return "update %s %s %s %s %s" % (SIDE[s], enc_str(oid), enc_str(path), fr(table.prio(s, path) if path else 0), fr(t))
    if k == "updatedir":
        _, t, s, oid, prior, path = op
        return "updatedir %s %s %s %s %s" % (SIDE[s], enc_str(oid), enc_str(prior), enc_str(path), fr(t))
    if k == "info":
        _, s, oid, path = op
        return "info %s %s %s %s" % (SIDE[s], enc_str(oid), enc_str(path), fr(table.prio(s, path) if path else 0))
    if k == "attach":
        _, s, i, oid, path = op
        return "attach %s %d %s %s %s" % (SIDE[s], i, enc_str(oid), enc_str(path), fr(table.prio(s, path)))
    if k == "mark":
        return "mark %s %d %s" % (SIDE[op[2]], op[3], fr(op[1]))
    if k == "punt":
        return "punt %d" % op[1]
    if k == "setprio":
        return "setprio %d %s" % (op[1], fr(op[2]))
    if k in ("clear", "setaged"):
        return "%s %s %d" % (k, SIDE[op[1]], op[2])
    if k == "syncpath":
        return "syncpath %s %d %s" % (SIDE[op[1]], op[2], enc_str(op[3]))
    if k == "finished":
        return "finished %d" % op[1]
    if k == "change":
        return "change %s %s" % (fr(op[1]), fr(op[2]))
    raise HarnessError("bad op")


def dec_line(ln):
    """a driver line with its encoded strings made readable (diagnostics)"""
    out = []
    for t in ln.split():
        if t and all(c.isdigit() or c == "." for c in t) and ("." in t or (t.isdigit() and 32 <= int(t) < 127 and False)):
            try:
                out.append(dec_str(t))
                continue
            except Exception:  # noqa
                pass
        out.append(t)
    return " ".join(out)


def header_lines(cfg, table):
    out = ["reset %s %s %s" % (fr(cfg["punt"][0]), fr(cfg["punt"][1]), fr(cfg["t0"]))]
    for p in cfg["paths"]:
        out.append("dir %s %s" % (enc_str(p), enc_str(table.pl.dirname(p))))
    if cfg.get("rules") is not None:
        for sfx, v in cfg["rules"]["sfx"]:
            out.append("rule sfx %s %s" % (enc_str(sfx), fr(F(v))))
        for top, v in cfg["rules"]["top"]:
            out.append("rule top %s %s" % (enc_str(top), fr(F(v))))
    if cfg.get("oip"):
        out.append("oip %s %s" % (enc_bool(cfg["oip"][0]), enc_bool(cfg["oip"][1])))
    return out


def op_json(op):
    return [str(x) if isinstance(x, F) else x for x in op]


def cfg_json(cfg):
    return {"punt_secs": [str(x) for x in cfg["punt"]], "t0": str(cfg["t0"]), "prioritize": cfg.get("prio", {}), "paths": cfg["paths"],
            "prioritize_rules": cfg.get("rules"), "oid_is_path": list(cfg.get("oip", (False, False)))}


# ------------------------------------------------------------------ generator (runs the real table while generating)

PATHS = ["/d1", "/d1/a", "/d1/b", "/d1/s", "/d1/s/x", "/d2", "/d2/a", "/d2/b", "/f", "/g"]
PRIOS = [F(-2), F(-1), F(-1, 2), F(1, 2), F(1), F(2), F(1), F(2), F(1, 2), F(3)]
AGES = [F(0), F(0), F(1, 8), F(1, 2), F(1), F(2), F(10), F(10), F(100)]
STEPS = [F(0), F(0), F(0), F(1, 8), F(1, 4), F(1, 2), F(1), F(2), F(5), F(10), F(-1)]


TOPS = ["d1", "d2", "f", "g", "m1", "m2", "m3", "m4"]
SFXS = ["b", "x", "k"]


def gen_cfg(rng):
    """the application's prioritize is path-dependent: classes (negative, zero, positive) keyed on the top-level folder and on the
    name suffix; providers are id-style or path-style"""
    rules = {"sfx": [[x, str(rng.choice(PRIOS))] for x in SFXS if rng.random() < 0.25],
             "top": [[x, str(rng.choice(PRIOS))] for x in TOPS if rng.random() < 0.45]}
    return {"punt": (rng.choice([F(1, 4), F(1, 2), F(1, 8), F(1)]), rng.choice([F(1, 4), F(1, 2), F(1), F(3, 2)])),
            "t0": F(rng.randint(1000, 5000)) + F(rng.randint(0, 7), 8), "rules": rules, "paths": list(PATHS),
            "oip": (rng.random() < 0.3, rng.random() < 0.3)}


def on_grid(x):
    return float(x) * GRID == int(float(x) * GRID)


def truthy(c):
    return bool(c)


def fragile(table, now, age):
    """True when float rounding could decide the outcome: a change time (or sort-key time) that is within NEAR of the
    threshold (or of another entry's) without both being exact grid values"""
    et = float(now) - float(age)
    ents = table.pending()
    for e in ents:
        for s in (0, 1):
            c = e[s].changed
            if truthy(c) and abs(c - et) < NEAR and not (on_grid(c) and on_grid(et)):
                return True
    keys = [(e.priority, max(e[0].changed or 0, e[1].changed or 0)) for e in ents]
    for i in range(len(keys)):
        for j in range(i + 1, len(keys)):
            if keys[i][0] == keys[j][0] and abs(keys[i][1] - keys[j][1]) < NEAR and \
                    not (on_grid(keys[i][1]) and on_grid(keys[j][1])):
                return True
    return False


class Gen:
    def __init__(self, rng, table):
        self.rng, self.tb = rng, table
        self.t = F(table.cfg["t0"])
        self.n_oid = 0
        self.skipped_fragile = 0

    def tick(self):
        self.t += self.rng.choice(STEPS)
        return self.t

    def fresh(self, s):
        self.n_oid += 1
        return "%s%d" % (SIDE[s], self.n_oid)

    def queries(self):
        """a few change() queries at the current table"""
        rng, tb = self.rng, self.tb
        out = []
        for _ in range(rng.randint(1, 4)):
            age = rng.choice(AGES)
            r = rng.random()
            now = self.t
            stamps = [e[s].changed for e in tb.pending() for s in (0, 1) if truthy(e[s].changed)]
            if r < 0.45 and stamps:
                now = F(rng.choice(stamps)) + age + rng.choice([F(0), F(0), F(1, 8), F(-1, 8), F(1, 1024), F(-1, 1024)])
                now = F(float(now))
            elif r < 0.7:
                now = self.t + rng.choice([F(1, 8), F(1), F(10), F(100), F(1000)])
            if fragile(tb, now, age):
                self.skipped_fragile += 1
                continue
            out.append(("change", now, age))
        return out

    def is_dir(self, e, s):
        return e[s].otype == self.tb.env.DIRECTORY

    def paths_on(self, s):
        return [e[s].path for e in self.tb.ents if e[s].path]

    def folder_ops(self):
        """folders: create one, put a file below one, rename / move one (with its descendants) across priority classes"""
        rng, tb = self.rng, self.tb
        s = rng.randint(0, 1)
        oip = tb.cfg.get("oip", (False, False))[s]
        used = self.paths_on(s)
        dirs = [e for e in tb.ents if self.is_dir(e, s) and e[s].path and e[s].oid]
        r = rng.random()
        if not dirs or r < 0.25:
            cands = [p for p in ["/d1", "/d2", "/d1/s", "/d2/t", "/m1", "/m2", "/d1/s/u"] if p not in used]
            if cands:
                path = rng.choice(cands)
                return [("updatedir", self.tick(), s, path if oip else self.fresh(s), None, path)]
            return []
        d = rng.choice(dirs)
        if r < 0.6:
            self.n_name = getattr(self, "n_name", 0) + 1
            path = d[s].path + "/" + rng.choice(["a", "n%d" % self.n_name, "n%db" % self.n_name, "n%dk" % self.n_name, "n%dx" % self.n_name])
            if path in used:
                return []
            return [("update", self.tick(), s, path if oip else self.fresh(s), path)]
        # move the folder
        self.n_name = getattr(self, "n_name", 0) + 1
        old = d[s].path
        if rng.random() < 0.55:
            new = "/" + rng.choice(["m1", "m2", "m3", "m4", "q%d" % self.n_name])
        else:
            parents = [x[s].path for x in dirs if x is not d and not (x[s].path + "/").startswith(old + "/")]
            if not parents:
                return []
            new = rng.choice(parents) + "/q%d" % self.n_name
        if new == old or (new + "/").startswith(old + "/") or any(p == new or p.startswith(new + "/") for p in used):
            return []
        if oip:
            return [("updatedir", self.tick(), s, new, d[s].oid, new)]
        return [("updatedir", self.tick(), s, d[s].oid, None, new)]

    def next_ops(self):
        rng, tb = self.rng, self.tb
        n = len(tb.ents)
        if rng.random() < 0.2:
            ops = self.folder_ops()
            if ops:
                return ops
        r = rng.random()
        if n == 0 or r < 0.22:
            s = rng.randint(0, 1)
            if tb.cfg.get("oip", (False, False))[s]:
                # path-id side: an id is a path; plain files get unique names
                self.n_name = getattr(self, "n_name", 0) + 1
                path = "/f%d%s" % (self.n_name, rng.choice(["", "b", "k", "x"]))
                same = [e for e in tb.ents if e[s].oid and e[s].path == e[s].oid and not self.is_dir(e, s)]
                if same and rng.random() < 0.4:
                    e0 = rng.choice(same)
                    return [("update", self.tick(), s, e0[s].oid, e0[s].path)]      # a later modification at the same path
                return [("update", self.tick(), s, path, path)]
            if n and rng.random() < 0.3:
                cands = [(e[s].oid, e[s].path) for e in tb.ents if e[s].oid and not self.is_dir(e, s)]
                if cands:
                    oid, path = rng.choice(cands)
                    q = rng.random()
                    if q < 0.4:
                        path = rng.choice(PATHS)
                    elif q < 0.6:
                        path = None                      # an event that carries no path
                    return [("update", self.tick(), s, oid, path)]
            oid = self.fresh(s)
            if rng.random() < 0.22:
                # id-style event without a path: the fill-in loop of change() will ask the provider
                return [("info", s, oid, rng.choice(PATHS) if rng.random() < 0.75 else None),
                        ("update", self.tick(), s, oid, None)]
            return [("update", self.tick(), s, oid, rng.choice(PATHS))]
        i = rng.randrange(n)
        e = tb.ents[i]
        if r < 0.30:
            s = rng.randint(0, 1)
            cands = [j for j, x in enumerate(tb.ents) if not x[s].oid]
            if cands and not tb.cfg.get("oip", (False, False))[s]:
                j = rng.choice(cands)
                other = tb.ents[j][1 - s].path
                path = other if other and rng.random() < 0.7 else rng.choice(PATHS)
                return [("attach", s, j, self.fresh(s), path)]
        if r < 0.42:
            sides = [s for s in (0, 1) if e[s].oid]
            if rng.random() < 0.25:
                sides = [0, 1]                            # also sides the engine has no id for
            if sides:
                return [("mark", self.tick(), rng.choice(sides), i)]
        if r < 0.54:
            pend = tb.pending()
            if pend and rng.random() < 0.8:
                i = tb.eid(rng.choice(pend))
            return [("punt", i)] * rng.choice([1, 1, 1, 2, 3])
        if r < 0.59:
            return [("setprio", i, rng.choice(PRIOS + [F(0), F(0), F(1, 4), F(-1, 4), F(3)]))]
        if r < 0.69:
            pend = tb.pending()
            if pend and rng.random() < 0.85:
                e = rng.choice(pend)
                i = tb.eid(e)
            q = rng.random()
            if q < 0.7:
                return [("clear", s, i) for s in (0, 1) if truthy(e[s].changed)] + [("finished", i)]
            if q < 0.85:
                return [("finished", i)]
            return [("clear", rng.randint(0, 1), i)]
        if r < 0.75:
            out = []
            for j in ([i] if rng.random() < 0.5 else rng.sample(range(n), min(n, rng.randint(2, 3)))):
                sides = [s for s in (0, 1) if tb.ents[j][s].oid and tb.ents[j][s].path]
                if rng.random() < 0.2:
                    sides = [0, 1]
                if sides:
                    out.append(("setaged", rng.choice(sides), j))
            if out:
                return out
        if r < 0.81:
            # the provider's answer for an id whose path the engine does not know yet changes
            cands = [(s, x[s].oid) for x in tb.ents for s in (0, 1) if x[s].oid and not x[s].path]
            if cands:
                s, oid = rng.choice(cands)
                return [("info", s, oid, rng.choice(PATHS) if rng.random() < 0.7 else None)]
        if r < 0.84:
            s = rng.randint(0, 1)
            return [("syncpath", s, i, e[s].path if e[s].path and rng.random() < 0.6 else rng.choice(PATHS))]
        self.tick()
        return self.queries()


def gen_and_run(env, rng, nops):
    """build one table on the real engine; returns (cfg, table, lines, real results, ops, generator)"""
    cfg = gen_cfg(rng)
    tb = RealTable(env, cfg)
    g = Gen(rng, tb)
    lines, reals, ops = header_lines(cfg, tb), [], []
    reals += [("hdr",)] * len(lines)
    while len(ops) < nops:
        for op in g.next_ops():
            lines.append(op_line(op, tb))
            r = tb.apply(op)
            ops.append(op)
            reals.append(r + (tb.obs(),))
    # closing sweep: every age at a few times, so that each table is queried in its final state
    for age in sorted(set(AGES)):
        for op in [("change", g.t, age), ("change", g.t + age, age), ("change", g.t + 1000, age)]:
            if fragile(tb, op[1], op[2]):
                g.skipped_fragile += 1
                continue
            lines.append(op_line(op, tb))
            ops.append(op)
            reals.append(tb.apply(op) + (tb.obs(),))
    return cfg, tb, lines, reals, ops, g


# ------------------------------------------------------------------ comparison

def close(a, b):
    return abs(float(a) - float(b)) <= TOL * max(1.0, abs(float(a)))


def cmp_changed(real, model):
    if model == "~":
        return real is None
    if real is None:
        return False
    return close(real, F(model))        # False == 0 in Python


def compare(real, mline):
    """real: result tuple of RealTable.apply (+ obs); mline: driver output.  Returns None or a description."""
    toks = mline.split()
    if real[0] == "hdr":
        return None if mline == "ok" else "header rejected: " + mline
    if real[0] == "pick":
        if len(toks) < 2 or toks[0] != "pick":
            return "model answered " + mline
        want = "~" if real[1] is None else str(real[1])
        if toks[1] != want and not real[2]:
            return "change(): implementation returned entry %s, model %s" % (want, toks[1])
        toks = toks[2:]
    elif toks and toks[0] == "id":
        if real[0] != "id" or int(toks[1]) != real[1]:
            return "entry used by update: implementation %r, model %s" % (real[:2], toks[1])
        toks = toks[2:]
    elif real[0] == "id":
        return "model did not report an entry id: " + mline
    if not toks or toks[0] not in ("M", "U"):
        return "model answered " + mline
    if toks[0] == "U":
        return "UNMODELLED"
    last, ents, pend = real[-1]
    body = " ".join(toks[1:]).split("|")
    if len(body) != 3:
        return "unparsable model state " + mline
    if not close(last, F(body[0].strip())):
        return "_last_changed_time: implementation %r, model %s" % (last, body[0].strip())
    ments = [x.split() for x in body[1].split(";") if x.strip()]
    if len(ments) != len(ents):
        return "number of entries: implementation %d, model %d" % (len(ents), len(ments))
    for (i, prio, lc, rc, lp, rp, _lo, _ro), m in zip(ents, ments):
        if int(m[0]) != i or not close(prio, F(m[1])):
            return "entry %d priority: implementation %r, model %s" % (i, prio, m[1])
        if not cmp_changed(lc, m[2]) or not cmp_changed(rc, m[3]):
            return "entry %d change times: implementation (%r, %r), model (%s, %s)" % (i, lc, rc, m[2], m[3])
        if enc_str(lp) != m[4] or enc_str(rp) != m[5]:
            return "entry %d paths: implementation (%r, %r), model (%s, %s)" % (i, lp, rp, dec_str(m[4]), dec_str(m[5]))
    mp = [int(x) for x in body[2].split()]
    if mp != pend:
        return "changeset (iteration order): implementation %r, model %r" % (pend, mp)
    return None


def correspondence(env, rng, ntables, nops, cov):
    all_lines, all_reals, starts, tables = [], [], [], []
    hist = cov.setdefault("op_histogram", {})
    qh = cov.setdefault("query_histogram", {})
    sig = set()
    skipped = 0
    samples = []
    for n in range(ntables):
        cfg, tb, lines, reals, ops, g = gen_and_run(env, rng, nops)
        starts.append(len(all_lines))
        tables.append((cfg, ops))
        skipped += g.skipped_fragile
        for op in ops:
            hist[op[0]] = hist.get(op[0], 0) + 1
        all_lines += lines
        all_reals += reals
        if n < 2:
            samples.append({"config": cfg_json(cfg), "lines": lines[len(cfg["paths"]) + 1:][:14],
                            "implementation": [repr(r[:2]) for r in reals[len(cfg["paths"]) + 1:][:14]]})
    model = run_driver("sched", all_lines)
    dis, unmodelled = [], 0
    for k, (r, m) in enumerate(zip(all_reals, model)):
        d = compare(r, m)
        if d == "UNMODELLED":
            unmodelled += 1
            continue
        if d:
            t = max(i for i, s0 in enumerate(starts) if s0 <= k)
            dis.append({"table": t, "config": cfg_json(tables[t][0]), "lines": all_lines[starts[t]:k + 1],
                        "implementation": repr(r), "model": m, "what": d})
            if len(dis) >= 5:
                break
    return all_lines, all_reals, model, dis, unmodelled, skipped, samples


def query_stats(lines, reals, cov):
    """distribution of the change() queries, measured on the model's echo of the state (the last state line before the query)"""
    qh = {"queries": 0, "pick_none": 0, "pick_negative_priority": 0, "pick_aged": 0, "age_zero": 0,
          "pending_0": 0, "pending_1": 0, "pending_2_3": 0, "pending_4_plus": 0, "boundary_exact": 0, "key_tie_with_pick": 0,
          "two_sided_pick_one_side_fresh": 0, "some_entry_not_eligible": 0, "fill_in_changed_state": 0,
          "fill_in_set_a_path": 0, "pick_compared": 0, "pending_with_idless_changed_side": 0}
    sigs = set()
    last_obs = None
    for ln, r in zip(lines, reals):
        if r[0] in ("ok", "id"):
            last_obs = r[-1]
        elif r[0] == "hdr":
            if ln.startswith("reset"):
                last_obs = (0, [], [])
        elif r[0] == "pick":
            _, now, age = ln.split()
            now, age = F(now), F(age)
            et = float(now) - float(age)
            if last_obs is not None and last_obs[1] != r[-1][1]:
                qh["fill_in_changed_state"] += 1
                if any(a[4:6] != b[4:6] for a, b in zip(last_obs[1], r[-1][1])):
                    qh["fill_in_set_a_path"] += 1
            last_obs = r[-1]                      # the table after the fill-in loop: what the sort sees
            qh["pick_compared"] += not r[2]
            ents = {x[0]: x[1:4] for x in last_obs[1]}
            pend = [ents[i] for i in last_obs[2]]
            full = {x[0]: x for x in last_obs[1]}
            if any((truthy(full[i][2]) and not full[i][6]) or (truthy(full[i][3]) and not full[i][7]) for i in last_obs[2]):
                qh["pending_with_idless_changed_side"] += 1
            qh["queries"] += 1
            qh["age_zero"] += age == 0
            n = len(pend)
            qh["pending_0" if n == 0 else "pending_1" if n == 1 else "pending_2_3" if n < 4 else "pending_4_plus"] += 1
            if any(truthy(c) and c == et for _, lc, rc in pend for c in (lc, rc)):
                qh["boundary_exact"] += 1

            def elig(x):
                return x[0] < 0 or any(truthy(c) and c <= et for c in x[1:])
            if any(not elig(x) for x in pend):
                qh["some_entry_not_eligible"] += 1
            if r[1] is None:
                qh["pick_none"] += 1
            else:
                p = ents[r[1]]
                qh["pick_negative_priority" if p[0] < 0 else "pick_aged"] += 1
                key = lambda x: (x[0], max(x[1] or 0, x[2] or 0))
                if sum(1 for x in pend if elig(x) and key(x) == key(p)) > 1:
                    qh["key_tie_with_pick"] += 1
                if p[0] >= 0 and truthy(p[1]) and truthy(p[2]) and (p[1] > et or p[2] > et):
                    qh["two_sided_pick_one_side_fresh"] += 1
                if n >= 2:
                    sigs.add((str(age), tuple((x[0], None if not truthy(x[1]) else round(x[1] - float(now), 6),
                                                None if not truthy(x[2]) else round(x[2] - float(now), 6)) for x in pend)))
    cov["query_histogram"] = qh
    return len(sigs)


# ------------------------------------------------------------------ known finding: two-sided ageing

def replay_two_sided(env):
    """remote no-op change flag at t0, local edit at t0+9.5, age 10, change() at t0+10.1 (Props/C17.lean `ageing_two_sided`).
    Returns a dict describing what the real SyncState did."""
    cfg = {"punt": (F(1, 4), F(1, 4)), "t0": F(900), "prio": {}, "paths": ["/f"]}
    tb = RealTable(env, cfg)
    st, clock, FILE = tb.state, env.clock, env.FILE
    # a synced file: both sides known, nothing pending
    st.update(0, FILE, "L1", path="/f", hash=b"v1")
    e = st.lookup_oid(0, "L1")
    e[1].oid = "R1"
    e[1].path = "/f"
    e[1].hash = b"v1"
    for s in (0, 1):
        e[s].sync_hash = b"v1"
        e[s].sync_path = "/f"
        e[s].changed = 0
    st.finished(e)
    assert not st.changeset_len
    t0 = 1000.0
    clock.t = t0
    st.update(1, FILE, "R1", path="/f", hash=b"v1")          # remote event that changes nothing
    clock.t = t0 + 9.5
    st.update(0, FILE, "L1", path="/f", hash=b"v2")          # the user edits the local file
    clock.t = t0 + 9.9
    early = st.change(10)
    clock.t = t0 + 10.1
    got = st.change(10)
    return {"remote_flag_at": e[1].changed, "local_edit_at": e[0].changed, "age": 10, "picked_at": t0 + 10.1,
            "change_at_t0_plus_9.9": None if early is None else "entry", "returned": got is e,
            "priority": e.priority, "local_edit_age_when_picked": t0 + 10.1 - (e[0].changed or 0),
            "reproduces": bool(got is e and e.priority >= 0 and e[0].changed and t0 + 10.1 - e[0].changed < 10 and early is None)}


def replay_two_sided_engine(env):
    """the same history through SyncManager.do with real MockProvider files: the edit made at t0+9.5 is uploaded by the
    do() call at t0+10.1.  Returns a dict; 'reproduces' is True when the upload happened 0.6 s after the edit."""
    import cloudsync.sync.manager as M
    from cloudsync import CloudSync  # noqa
    import io
    S, clock = env.S, env.clock
    out = {"reproduces": False}
    keep_time = M.time
    smgr = None

    class T:
        def time(self):
            return clock.t

        def sleep(self, _s):
            return None

        def monotonic(self):
            return clock.t
    try:
        M.time = T()
        clock.t = 900.0
        pl, pr = env.MockProvider(False, True), env.MockProvider(False, True)
        pl.connect({"key": "k"})
        pr.connect({"key": "k"})
        st = S.SyncState((pl, pr))
        smgr = M.SyncManager(st, (pl, pr), lambda side, path: path, lambda *a: None, sleep=(50, 50))
        out["aging"] = smgr.aging
        linfo = pl.create("/f", io.BytesIO(b"v1"))
        st.update(0, env.FILE, linfo.oid, path="/f", hash=linfo.hash)
        clock.t = 950.0
        for _ in range(6):
            smgr.do()
        rinfo = pr.info_path("/f")
        if not rinfo or st.changeset_len:
            out["note"] = "initial sync did not settle"
            return out
        e = st.lookup_oid(0, linfo.oid)
        t0 = 1000.0
        clock.t = t0
        st.update(1, env.FILE, rinfo.oid, path="/f", hash=rinfo.hash)       # remote event, no content change
        smgr.do()
        clock.t = t0 + 9.5
        linfo2 = pl.upload(linfo.oid, io.BytesIO(b"v2-edited"))
        st.update(0, env.FILE, linfo2.oid, path="/f", hash=linfo2.hash)
        edit_stamp = e[0].changed
        clock.t = t0 + 9.9
        smgr.do()
        before = pr.info_path("/f").hash
        clock.t = t0 + 10.1
        for _ in range(3):
            smgr.do()
        after = pr.info_path("/f").hash
        out.update({"remote_hash_unchanged_at_t0_plus_9.9": before == rinfo.hash, "uploaded_at_t0_plus_10.1": after == linfo2.hash,
                    "edit_stamp": edit_stamp, "seconds_after_edit": t0 + 10.1 - edit_stamp})
        out["reproduces"] = bool(before == rinfo.hash and after == linfo2.hash and t0 + 10.1 - edit_stamp < smgr.aging)
    except Exception as ex:  # noqa
        out["note"] = "engine-level replay not available: %r" % (ex,)
    finally:
        M.time = keep_time
        if smgr is not None:
            smgr.done()
    return out


# ------------------------------------------------------------------ the sync loop: real SyncManager.do vs Model/SchedLoop.lean

LOOP_PATHS = ["/a%d" % i for i in range(1, 10)]          # flat: no entry is another's parent (finished() resets nothing)
WORK = "FPQR"


def loop_case(env, rng):
    """one table + one script, run through the real Runnable.run / SyncManager.do / _sync_one_entry with the sync work
    scripted (pre_sync/sync overridden) under the virtual clock.  Returns (lines, real results)."""
    import cloudsync.sync.manager as M
    import cloudsync.exceptions as ex
    from cloudsync.notification import NotificationManager
    clock = env.clock
    prio = {}
    for p in LOOP_PATHS:
        if rng.random() < 0.3:
            a = rng.choice([F(-1), F(1), F(2), F(1, 2), F(3)])
            prio[p] = (str(a), str(a))
    cfg = {"punt": (rng.choice([F(1, 4), F(1, 2), F(1, 8), F(1)]), rng.choice([F(1, 4), F(1, 2), F(1)])),
           "t0": F(rng.randint(1000, 5000)), "prio": prio, "paths": list(LOOP_PATHS)}
    tb = RealTable(env, cfg)
    for pr in tb.provs:
        pr.connect({"key": "k"})
    lines, reals = header_lines(cfg, tb), []
    reals += [("hdr",)] * len(lines)
    t = F(cfg["t0"])
    n_oid = [0]

    def emit(op):
        lines.append(op_line(op, tb))
        r = tb.apply(op)
        reals.append(r + (tb.obs(),))

    def fresh(s):
        n_oid[0] += 1
        return "%s%d" % (SIDE[s], n_oid[0])
    paths = rng.sample(LOOP_PATHS, rng.randint(2, 7))
    for pth in paths:
        s = rng.randint(0, 1)
        t += rng.choice([F(1, 8), F(1, 4), F(1), F(2), F(5)])           # strictly increasing: every stamp is exact
        emit(("update", t, s, fresh(s), pth))
        i = len(tb.ents) - 1
        if rng.random() < 0.3:
            emit(("attach", 1 - s, i, fresh(1 - s), pth))
            if rng.random() < 0.6:
                t += rng.choice([F(1, 8), F(1), F(3)])
                emit(("mark", t, 1 - s, i))
        q = rng.random()
        if q < 0.15:
            emit(("punt", i))
        elif q < 0.25:
            emit(("setprio", i, rng.choice([F(-1), F(1), F(2), F(1, 2)])))
        elif q < 0.32:
            emit(("setaged", s, i))
    # the loop's parameters (all dyadic, so the float arithmetic of Runnable is exact)
    age = rng.choice([F(0), F(1, 2), F(1), F(2), F(10)])
    sleep = rng.choice([F(1, 8), F(1, 4), F(1)])
    mn, mx, mult = rng.choice([F(1, 4), F(1, 2), F(1)]), rng.choice([F(4), F(8), F(32)]), rng.choice([F(2), F(2), F(3, 2), F(4)])
    b0 = rng.choice([F(0), F(0), F(0), mn])
    t += rng.choice([F(0), F(1, 8), F(1), F(5), F(20)])
    nsteps = rng.randint(3, 18)
    bias = rng.choice(["mixed", "mixed", "fail", "finish"])
    weights = {"mixed": [4, 2, 1, 3], "fail": [1, 3, 1, 6], "finish": [8, 1, 1, 1]}[bias]
    script = [(rng.choices(WORK, weights)[0], rng.choice([F(0), F(0), F(1, 8), F(1, 2), F(2)])) for _ in range(nsteps)]
    todo = list(script)
    trace = []
    keep_time = M.time

    class T:
        def time(self):
            return clock.t

        def sleep(self, secs):
            clock.t += secs

        def monotonic(self):
            return clock.t

    class Scripted(M.SyncManager):
        """the real manager; only the sync work itself (pre_sync/sync) is scripted"""
        def do(self):
            self._step = todo.pop(0)
            self._rec = [clock.t, None, [(tb.eid(e), e.priority, e[0].changed, e[1].changed) for e in tb.pending()]]
            trace.append(self._rec)
            return M.SyncManager.do(self)

        def interruptable_sleep(self, secs):
            clock.t += secs

        def pre_sync(self, sync):
            self._rec[1] = tb.eid(sync)
            clock.t += float(self._step[1])
            return False

        def sync(self, sync):
            w = self._step[0]
            if w == "F":
                for s_ in (0, 1):
                    if sync[s_].changed:
                        self.finished(s_, sync)
                return True
            if w == "P":
                sync.punt()
                return False
            if w == "Q":
                return False
            if self._step[1] > 0:
                raise ex.CloudTemporaryError("scripted")
            raise RuntimeError("scripted")
    smgr = None
    try:
        M.time = T()
        clock.t = float(t)
        smgr = Scripted(tb.state, tb.provs, lambda side, path: path, lambda *a: None,
                        notification_manager=NotificationManager(lambda n: None), sleep=(float(sleep) * 4, float(sleep) * 4))
        smgr.aging = float(age)
        smgr.min_backoff, smgr.max_backoff, smgr.mult_backoff, smgr.in_backoff = float(mn), float(mx), float(mult), float(b0)
        smgr.run(until=lambda: not todo, sleep=float(sleep))
        final_backoff = smgr.in_backoff
    finally:
        M.time = keep_time
        if smgr is not None:
            smgr.done()
    lines.append("loop %s %s %s %s %s %s %s %s" % (fr(age), fr(sleep), fr(mn), fr(mx), fr(mult), fr(b0), fr(t),
                                                  " ".join("%s:%s" % (w, fr(dd)) for w, dd in script)))
    reals.append(("loop", [tuple(x) for x in trace], final_backoff, script,
                  {"age": float(age), "sleep": float(sleep), "min_backoff": float(mn), "max_backoff": float(mx),
                   "mult_backoff": float(mult), "in_backoff": float(b0), "start": float(t), "config": cfg_json(cfg),
                   "table_lines": lines[len(LOOP_PATHS) + 1:-1]}))
    return lines, reals


def loop_oracle(real):
    """C17's loop-level statements on the implementation's trace (real SyncManager.do, scripted sync work)"""
    import math
    _, trace, _fb, script, prm = real
    age = prm["age"]
    n = len(trace)
    base = {"parameters": {k: v for k, v in prm.items() if k not in ("config", "table_lines")}, "config": prm["config"],
            "table": prm["table_lines"], "script": ["%s:%s" % (w, d) for w, d in script],
            "trace": [(t, e) for t, e, _ in trace],
            "how": "harness/c17_sched.py loop_case: the table is built with the listed calls, then the real Runnable.run/"
                   "SyncManager.do runs under the virtual clock with pre_sync/sync scripted (F finish, P punt, Q requeue, R raise)"}
    key = lambda x: (x[1], max(x[2] or 0, x[3] or 0))
    for k, (t, a, snap) in enumerate(trace):
        elig = [x for x in snap if spec_eligible(x[1], x[2], x[3], t, age)]
        if a is None:
            if elig:
                return dict(base, statement="loop: an iteration idles although an entry is eligible", iteration=k, pending=snap)
            continue
        row = [x for x in snap if x[0] == a]
        if not row or row[0] not in elig:
            return dict(base, statement="loop_attempt_eligible: an entry is attempted (or re-attempted after a punt) before a change "
                                        "of it has aged", iteration=k, pending=snap)
        if any(key(x) < key(row[0]) for x in elig):
            return dict(base, statement="loop: the attempted entry is not the most urgent eligible one", iteration=k, pending=snap)
        if script[k][0] == "R" and k + 1 < n:
            gap = trace[k + 1][0] - t
            if gap + 1e-9 < min(prm["max_backoff"], prm["min_backoff"]) + float(script[k][1]):
                return dict(base, statement="iter_raised_gap: after a failed attempt the loop must back off at least min_backoff",
                            iteration=k, gap=gap)
        # no starvation: every entry eligible now is attempted before the other entries have used up their potential
        for y in elig:
            if y[0] == a:
                continue
            pot = sum(int(math.floor(y[1] - z[1])) + 1 for z in snap if z[0] != y[0] and z[1] <= y[1])
            m = next((j for j in range(k, n) if trace[j][1] == y[0]), n)
            busy = sum(1 for j in range(k, m) if script[j][0] != "Q")
            if busy > pot:
                return dict(base, statement="loop_no_starvation: entry %d was eligible at iteration %d, yet %d non-requeue iterations "
                                            "passed without attempting it; the other entries can account for at most %d"
                                            % (y[0], k, busy, pot), iteration=k, pending=snap)
    return None


def compare_loop(real, mline):
    trace, fb = real[1], real[2]
    try:
        body, mfb = mline.split("|")
        mtr = [x.split() for x in body.split(";") if x.strip()]
    except ValueError:
        return "model answered " + mline
    if len(mtr) != len(trace):
        return "iterations: implementation %d, model %d" % (len(trace), len(mtr))
    for k, ((tt, eid_, _snap), m) in enumerate(zip(trace, mtr)):
        want = "~" if eid_ is None else str(eid_)
        if m[1] != want:
            return "iteration %d: implementation attempted %s at %r, model %s at %s" % (k, want, tt, m[1], m[0])
        if not close(tt, F(m[0])):
            return "iteration %d (entry %s): implementation at virtual time %r, model at %s" % (k, want, tt, m[0])
    if not close(fb, F(mfb.strip())):
        return "final in_backoff: implementation %r, model %s" % (fb, mfb.strip())
    return None


def loop_correspondence(env, rng, ncases, cov):
    all_lines, all_reals, starts = [], [], []
    for _ in range(ncases):
        lines, reals = loop_case(env, rng)
        starts.append(len(all_lines))
        all_lines += lines
        all_reals += reals
    model = run_driver("sched", all_lines)
    dis = []
    st = {"cases": ncases, "iterations": 0, "idle_iterations": 0, "attempts": 0, "first_attempts": 0, "reattempts_of_failed": 0,
          "work": {w: 0 for w in WORK}}
    for k, (r, m) in enumerate(zip(all_reals, model)):
        d = compare_loop(r, m) if r[0] == "loop" else compare(r, m)
        if r[0] == "loop":
            seen = set()
            for (tt, e_, _snap), (w, _d) in zip(r[1], r[3]):
                st["iterations"] += 1
                if e_ is None:
                    st["idle_iterations"] += 1
                else:
                    st["attempts"] += 1
                    st["work"][w] += 1
                    st["first_attempts" if e_ not in seen else "reattempts_of_failed"] += 1
                    seen.add(e_)
        if d and d != "UNMODELLED":
            t = max(i for i, s0 in enumerate(starts) if s0 <= k)
            dis.append({"layer": "loop", "lines": all_lines[starts[t]:k + 1], "implementation": repr(r[:3]), "model": m, "what": d})
            if len(dis) >= 3:
                break
    cov["loop_histogram"] = st
    sample = {"line": all_lines[starts[0] + len(LOOP_PATHS) + 1:starts[1] if len(starts) > 1 else None][-1],
              "implementation_trace": [x[:2] for x in all_reals[(starts[1] if len(starts) > 1 else len(all_reals)) - 1][1]]}
    return all_lines, dis, sample


# ------------------------------------------------------------------ property oracle (search after a break)

def spec_eligible(prio, lc, rc, now, age):
    """C17's eligibility: negative priority = immediately; otherwise some change was notified at least `age` ago"""
    return prio < 0 or any(truthy(c) and c <= now - age for c in (lc, rc))


def spec_related(tb, a, b):
    dn = tb.pl.dirname
    for s in (0, 1):
        for attr in ("path", "sync_path"):
            x, y = getattr(a[s], attr), getattr(b[s], attr)
            if x and y == dn(x):
                return True
            if y and x == dn(y):
                return True
    return False


def check_query(tb, op, r, marks):
    """the statements about change() on the implementation; `marks` = per (entry, side): (last mark stamp, punts since)"""
    _, now, age = op
    nowf, agef = float(now), float(age)
    pend = tb.pending()
    rows = [(e.priority, e[0].changed, e[1].changed) for e in pend]
    elig = [spec_eligible(p, lc, rc, nowf, agef) for p, lc, rc in rows]
    key = lambda x: (x[0], max(x[1] or 0, x[2] or 0))
    table = [{"entry": tb.eid(e), "priority": p, "changed": [lc, rc], "eligible": el} for e, (p, lc, rc), el in zip(pend, rows, elig)]
    base = {"now": nowf, "age": agef, "pending": table, "returned": None if r is None else r}
    if r is None:
        if any(elig):
            if any(p < 0 for p, _, _ in rows):
                return dict(base, statement="negative_priority_immediate: a pending entry with negative priority is returned whatever its age")
            if agef == 0:
                return dict(base, statement="age_zero_all_eligible: with ageing 0 a pending change whose timestamp is not in the future is returned at once")
            return dict(base, statement="change_none_iff_no_eligible / punt_bounded_delay: an entry whose change was notified at least "
                                        "`age` ago (however often it was punted) is eligible, yet change() returned nothing")
        return None
    got = tb.ents[r]
    if got not in pend:
        return dict(base, statement="change_returns_eligible: the returned entry is not pending")
    g = (got.priority, got[0].changed, got[1].changed)
    if not spec_eligible(*g, nowf, agef):
        return dict(base, statement="change_returns_eligible / ageing: the returned entry has non-negative priority and no side "
                                    "notified at least `age` ago — it would be synced before it has aged")
    for e, x, el in zip(pend, rows, elig):
        if el and key(x) < key(g):
            return dict(base, statement="change_minimal: an eligible entry (%d) has a strictly smaller key (priority, latest change) "
                                        "than the returned one" % tb.eid(e))
    if any(p < 0 for p, _, _ in rows) and not g[0] < 0:
        return dict(base, statement="negative_priority_immediate: a negative-priority entry is pending but a non-negative one was returned")
    one = [c for c in g[1:] if truthy(c)]
    if g[0] >= 0 and len(one) == 1 and nowf - one[0] < agef:
        return dict(base, statement="ageing_respected_partial: the only changed side was notified less than `age` ago")
    # two changed sides, one aged, one fresh: the open known finding two-sided-ageing (exact shape), not reported
    return None


class Checker:
    """C17's statements, evaluated on the real table around every op"""
    def __init__(self, tb):
        self.tb = tb
        self.stamps = []
        self.tainted = set()        # entries whose priority was written by hand (setprio) since their last path change

    def priority_current(self, before, after, op):
        """PriorityCurrent on the implementation: the priority an entry HAS is the application's prioritize() of one of its
        current paths, plus the punts since (or a non-negative punt count after finished() reset it); an entry without a path
        has a non-negative integer priority.  Entries whose priority was set by hand are exempt until their path changes."""
        tb = self.tb
        old = {x[0]: x for x in before[1]}
        if op[0] == "setprio":
            self.tainted.add(op[1])
        for x in after[1]:
            i, prio, _lc, _rc, lp, rp = x[:6]
            if i in old and (old[i][4], old[i][5]) != (lp, rp):
                self.tainted.discard(i)
            if i in self.tainted:
                continue

            def nat(v):
                return v >= 0 and float(v) == int(v)
            paths = [(s, p) for s, p in ((0, lp), (1, rp)) if p]
            if not paths:
                ok = nat(F(prio))
            else:
                ok = any(nat(F(prio) - tb.prio(s, p)) or nat(F(prio)) for s, p in paths)
            if not ok:
                return {"statement": "PriorityCurrent: the priority of entry %d (%s) is not the application's prioritize() of its current "
                                     "path plus punts: a path change (its own or its folder's) did not re-prioritise it — a stale negative "
                                     "priority propagates without ageing, a stale class breaks 'lower priority first'" % (i, prio),
                        "entry": i, "priority": prio, "paths": [lp, rp],
                        "prioritize_of_paths": [str(tb.prio(s, p)) for s, p in paths]}
        return None

    def step(self, op):
        """apply `op` to the real table and check it; returns a failure dict or None (raises Invalid)"""
        tb = self.tb
        before = tb.obs()
        rel = None
        if op[0] == "finished" and 0 <= op[1] < len(tb.ents):
            me = tb.ents[op[1]]
            will = not (truthy(me[0].changed) or truthy(me[1].changed))
            rel = {tb.eid(x): (will and x is not me and spec_related(tb, me, x)) for x in tb.pending()}
        r = tb.apply(op)
        after = tb.obs()
        pend = set(after[2])
        for (i, _p, lc, rc, _lp, _rp, lo, ro) in after[1]:
            if ((truthy(lc) and lo) or (truthy(rc) and ro)) and i not in pend:
                return {"statement": "reachable_inv / changeSt_complete: an entry with a changed side that has an id must be pending "
                                     "(otherwise its change is never scheduled)", "entry": i, "changed": [lc, rc], "has_id": [lo, ro],
                        "pending_set": sorted(pend)}
            if i in pend and not (truthy(lc) or truthy(rc)):
                return {"statement": "reachable_inv / changeSt_sound: a pending entry must carry a change", "entry": i,
                        "changed": [lc, rc], "pending_set": sorted(pend)}
        bad = self.priority_current(before, after, op)
        if bad:
            return bad
        if op[0] == "change":
            return check_query(tb, op, r[1], None)
        if op[0] in ("update", "mark", "updatedir"):
            s = op[2]
            e = tb.ents[r[1]] if op[0] in ("update", "updatedir") else tb.ents[op[3]]
            c = e[s].changed
            stamps = self.stamps
            if stamps and not c > stamps[-1]:
                return {"statement": "markChanged_strictly_increasing: change stamps issued by mark_changed must strictly increase",
                        "issued": stamps[-3:] + [c], "clock": float(op[1])}
            if c < float(op[1]):
                return {"statement": "markChanged_stamp: the stamp lies before the clock reading", "issued": c, "clock": float(op[1])}
            stamps.append(c)
        elif op[0] == "punt":
            i = op[1]
            (_, p0, l0, r0), (_, p1, l1, r1) = before[1][i][:4], after[1][i][:4]
            has_oid = before[1][i][6:8]
            ps = tb.state._punt_secs
            if p1 != p0 + 1:
                return {"statement": "punt: raises the priority by one", "before": p0, "after": p1}
            for s, (a, b) in enumerate(((l0, l1), (r0, r1))):
                if truthy(a) and has_oid[s] and not (truthy(b) and a <= b <= a + ps[s] + 1e-9):
                    return {"statement": "punt_bounded_delay: one punt delays a changed side by at most punt_secs",
                            "side": s, "before": a, "after": b, "punt_secs": ps[s]}
                if truthy(a) and not (b == 0 or a <= b <= a + ps[s] + 1e-9):
                    return {"statement": "punt_bounded_delay: a punt shifts a change time by at most punt_secs (or drops the stale flag "
                                         "of an id-less side)", "side": s, "before": a, "after": b, "punt_secs": ps[s]}
                if not truthy(a) and truthy(b):
                    return {"statement": "punt: does not invent a change", "side": s, "before": a, "after": b}
        elif op[0] == "finished":
            for (i, p0, l0, r0), (_, p1, l1, r1) in zip([x[:4] for x in before[1]], [x[:4] for x in after[1]]):
                if (l0, r0) != (l1, r1):
                    return {"statement": "finished_entries: finished does not move change times", "entry": i,
                            "before": [l0, r0], "after": [l1, r1]}
                if p0 <= 0 and p1 != p0:
                    return {"statement": "finished_keeps_nonpositive: only punted entries (priority > 0) are reset; a negative "
                                         "('immediately') or normal priority is kept", "entry": i, "before": p0, "after": p1}
                if p0 > 0:
                    want = 0 if rel and rel.get(i) else p0
                    if p1 != want:
                        return {"statement": "finished_resets_related: finished resets the priority of exactly the punted pending "
                                             "entries related to the finished one (parent/child paths)", "entry": i,
                                "before": p0, "after": p1, "expected": want}
        return None


HOW = "build the table with the listed SyncState calls under the virtual clock (harness/c17_sched.py RealTable.apply); " \
      "./check C17 --replay <this file> re-runs it"


def oracle_table(env, rng, nops):
    """one random table; returns a failing case (dict) or None"""
    cfg = gen_cfg(rng)
    tb = RealTable(env, cfg)
    g = Gen(rng, tb)
    ck = Checker(tb)
    ops = []
    while len(ops) < nops:
        nxt = g.next_ops()
        if nxt and nxt[0][0] == "change":
            # add the boundary queries the laws speak about: every pending stamp exactly aged
            for e in tb.pending():
                for s in (0, 1):
                    c = e[s].changed
                    if truthy(c) and on_grid(c):
                        for age in (F(0), F(2), F(10)):
                            if not fragile(tb, F(c) + age, age):
                                nxt.append(("change", F(c) + age, age))
        for op in nxt:
            ops.append(op)
            bad = ck.step(op)
            if bad:
                bad.update({"config": cfg_json(cfg), "ops": [op_json(o) for o in ops], "how": HOW})
                return bad
    return None


def oracle(env, seed, tier):
    rng = rng_for(seed, "c17search")
    for _ in range(4000 if tier == "quick" else 40000):
        hit = oracle_table(env, rng, rng.randint(4, 30))
        if hit:
            return shrink(env, hit)
    return None


def parse_op(o):
    k = o[0]
    if k in ("update", "mark", "updatedir"):
        return (k, F(o[1])) + tuple(o[2:])
    if k == "setprio":
        return (k, o[1], F(o[2]))
    if k == "change":
        return (k, F(o[1]), F(o[2]))
    return tuple(o)


def cfg_from_json(c):
    out = {"punt": tuple(F(x) for x in c["punt_secs"]), "t0": F(c["t0"]), "prio": {k: tuple(v) for k, v in c["prioritize"].items()},
           "paths": c["paths"]}
    if c.get("prioritize_rules") is not None:
        out["rules"] = c["prioritize_rules"]
    if c.get("oid_is_path"):
        out["oip"] = tuple(c["oid_is_path"])
    return out


def rerun(env, cfgj, opsj):
    """replay an op list on a fresh real table with the statements checked; returns the first failing case
    (with the op list truncated to it) or None"""
    cfg = cfg_from_json(cfgj)
    tb = RealTable(env, cfg)
    ck = Checker(tb)
    try:
        for n, o in enumerate(opsj):
            bad = ck.step(parse_op(o))
            if bad:
                bad.update({"config": cfgj, "ops": list(opsj[:n + 1]), "how": HOW})
                return bad
    except Invalid:
        return None
    except Exception:  # noqa
        return None
    return None


def shrink(env, hit):
    """greedy removal of ops while the same statement still fails"""
    stmt = hit["statement"].split(":")[0]
    cur = hit
    changed = True
    while changed:
        changed = False
        ops = cur["ops"]
        for k in range(len(ops) - 2, -1, -1):
            bad = rerun(env, hit["config"], ops[:k] + ops[k + 1:])
            if bad and bad["statement"].split(":")[0] == stmt:
                cur = bad
                changed = True
                break
    return cur


# ------------------------------------------------------------------ main

_TABLE = {}


def table_tie(res, proof_broken):
    """Gen/PuntSites.lean was regenerated from the source tree before the audit (see __main__); Props/C17Sites.lean (generated
    except-clause tables = audited tables; every Exception lands in a clause that punts) is listed in obligations/C17.json and was
    built and audited with the rest.  Records what happened; the breakage itself is already in `proof_broken`."""
    mine = [f for f in proof_broken if "C17Sites" in f or "SchedSites.gen_" in f or "PuntSites" in f]
    info = dict(_TABLE, tie_checks=not mine)
    if mine:
        # the module over the generated table does not build, so the audit file as a whole did not load: audit the rest on its own
        # (obligations/C17Core.json = C17.json without Props/C17Sites) to keep the count of discharged obligations honest
        core = audit("C17Core")
        res.coverage["discharged"] = core["discharged"]
        proof_broken[:] = core["failures"] + ["Props/C17Sites.lean (generated except-clause table of SyncManager = audited table; every "
                                              "Exception lands in a clause that punts) does not check: " + mine[0][-400:]]
        src, _ = gen_punt_sites.generate()
        info["generated"] = [l for l in src.split("\n") if l.startswith("def ") and not l.startswith("def sites")]
        info["meaning"] = "an except clause of SyncManager changed: the generated table no longer equals the audited one, or a clause " \
                          "that leaves the entry pending does not punt it"
    res.coverage["except_clause_table"] = info


def starve_violation(case, f, info):
    return {"statement": f["statement"], "case": case, "monitor": f.get("monitor"), "iteration": f.get("iteration"),
            "observation": f.get("observation"), "healthy_synced": info["healthy_synced"],
            "trace": [(t["t"], t["attempted"], t["result"]) for t in info["trace"]],
            "how": "harness/c17lib.py run_case(case): CloudSync over two MockProviders (harness/engine.py World, virtual clock); the "
                   "provider call `kind` of the entry F raises `class` on every attempt (mode inject), or the remote provider is over quota "
                   "/ the path is locked (modes quota, lock); healthy files H* are created before (older) and after (younger) it; every "
                   "call of the real SyncManager.do is judged by the Lean monitor (driver layer sched, commands obs / wait); "
                   "./check C17 --replay <this file> re-runs it"}


def run(res, tier, seed, proof_broken, replay):
    rng = rng_for(seed, "c17")
    opens, fixed = load_known_findings(PID)
    if replay:
        import json
        with open(replay) as f:
            rp = json.load(f)
        case = rp.get("failing", rp)
        if "scenario" in case:
            lines, trace = c17lib.run_prio_case(case["scenario"])
            f = c17lib.judge_prio(case["scenario"], lines, trace, run_driver("sched", lines))
            print("REPLAY %s: %s" % (replay, "FAILS " + f["statement"] if f else "passes"))
            res.coverage.update({"evaluations": len(lines), "programs": 1, "distinct_nontrivial": 1, "rule": "replay of one recorded scenario",
                                 "samples": [case["scenario"]], "disagreements_checked": 0, "fingerprints": fingerprints(FP_SPEC)})
            if f:
                res.violation({"property": PID, "kind": "statement fails on implementation (replay)",
                               "failing": dict(f, scenario=case["scenario"])}, name="%s_replay_%d.json" % (PID, seed))
            return
        if "case" in case:
            # a starvation scenario
            lines, hnames, info = c17lib.run_case(case["case"])
            f = c17lib.judge(case["case"], lines, hnames, info, run_driver("sched", lines))
            bad = starve_violation(case["case"], f, info) if f and f["statement"] != "inconclusive" else None
            print("REPLAY %s: %s" % (replay, "FAILS " + bad["statement"] if bad else "passes"))
            res.coverage.update({"evaluations": len(lines), "programs": 1, "distinct_nontrivial": 1, "rule": "replay of one recorded scenario",
                                 "samples": [case["case"]], "disagreements_checked": 0, "fingerprints": fingerprints(FP_SPEC)})
            if bad:
                res.violation({"property": PID, "kind": "statement fails on implementation (replay)", "failing": bad},
                              name="%s_replay_%d.json" % (PID, seed))
            return
    table_tie(res, proof_broken)
    static_broken = []
    hit, broken, dis, ldis = None, [], [], []
    with Env() as env:
        if replay:
            # ./check C17 --replay <file>: re-run one recorded failing input on the real code, nothing else
            bad = rerun(env, case["config"], case["ops"]) if "ops" in case and "config" in case else None
            print("REPLAY %s: %s" % (replay, "FAILS " + bad["statement"] if bad else "passes (or carries no input)"))
            res.coverage.update({"evaluations": 1, "programs": 1, "distinct_nontrivial": 1, "rule": "replay of one recorded input",
                                 "samples": [case.get("ops")], "disagreements_checked": 0, "fingerprints": fingerprints(FP_SPEC)})
            if bad:
                res.violation({"property": PID, "kind": "statement fails on implementation (replay)", "failing": bad},
                              name="%s_replay_%d.json" % (PID, seed))
            return
        # 2. the open known finding, replayed on the real SyncState (and through SyncManager.do)
        kf = replay_two_sided(env)
        kfe = replay_two_sided_engine(env)
        res.coverage["known_finding_replay"] = {"state_level": kf, "engine_level": kfe}
        if KF_ID in opens:
            if kf["reproduces"]:
                res.known.append("%s :: %s" % (KF_ID, opens[KF_ID]))
            else:
                res.notes.append("known finding %s is stale: the real SyncState no longer returns the entry early" % KF_ID)
        elif kf["reproduces"]:
            res.notes.append("two-sided ageing reproduces on the real SyncState but is not listed in known_findings.txt")
        # 3. correspondence
        ntab, nops = (260, 45) if tier == "quick" else (4000, 70)
        cov = {}
        lines, reals, model, dis, unmodelled, skipped, samples = correspondence(env, rng, ntab, nops, cov)
        distinct = query_stats(lines, reals, cov)
        nq = cov["query_histogram"]["queries"]
        # 3b. the loop: real Runnable.run / SyncManager.do / _sync_one_entry with scripted sync work vs Model/SchedLoop.lean
        nloop = 150 if tier == "quick" else 3000
        loop_lines, ldis, loop_sample = loop_correspondence(env, rng_for(seed, "c17loop"), nloop, cov)
        samples.append({"loop": loop_sample})
        res.coverage.update(cov)
        res.coverage.update({
            "evaluations": len(lines) + len(loop_lines), "programs": ntab + nloop, "distinct_nontrivial": distinct,
            "rule": "(a) random tables built through the real SyncState API (folder events with descendants carried along - renames/moves "
                    "across the classes of a path-dependent prioritize, id-style and path-style providers - / update with and without a path / ent[side].oid,path,sync_path,"
                    "changed writes on sides with and without an id / mark_changed / punt / priority writes / set_aged / finished) with a "
                    "prioritize function returning negative, zero and positive values and scripted provider answers for the fill-in loop, "
                    "virtual clock on a 1/8 s grid incl. repeated and backward readings; after every call the full scheduling state "
                    "(priorities, change stamps, paths, changeset order, last stamp) is compared, and change(age) is queried for ages 0..100 "
                    "at the current time, at exact ageing boundaries and later; distinct = distinct (age, pending rows relative to now) among "
                    "queries with >= 2 pending entries that returned an entry.  (b) the loop: tables of 2-7 unrelated entries, then the real "
                    "Runnable.run/SyncManager.do/_sync_one_entry stepped under the virtual clock with the sync work scripted "
                    "(finish / punt / requeue / raise, with durations); per iteration the virtual time and the entry attempted, and the final "
                    "in_backoff, are compared with Model/SchedLoop.lean",
            "samples": samples, "disagreements_checked": len(dis) + len(ldis), "change_queries": nq, "unmodelled": unmodelled,
            "queries_skipped_float_fragile": skipped, "fingerprints": fingerprints(FP_SPEC),
            "set_order": "insertion-ordered set injected into cloudsync.sync.state; model mirrors the order (ties compared)",
        })
        res.assumptions += ["binary floating point in the implementation vs Rat in the model: states compared with relative tolerance 1e-9; "
                            "queries whose outcome could hinge on rounding (a non-grid stamp within 1e-6 of the threshold or of another key) are not asked (counted)",
                            "iteration order of the changeset: one admissible order (insertion order) is selected by the harness",
                            "shuffle=True, removal of an id, DIRECTORY path changes and provider answers with a different hash are not modelled",
                            "loop tie: entries of one table are unrelated (finished() resets no priority), no new work arrives while the loop "
                            "runs, the sync work itself is scripted; all loop parameters dyadic so Runnable's float arithmetic is exact"]
        broken = list(proof_broken) + static_broken
        if dis:
            broken.append("correspondence sched-layer: %s" % dis[0]["what"])
        if ldis:
            broken.append("correspondence loop-layer: %s" % ldis[0]["what"])
        if unmodelled:
            res.notes.append("%d lines hit an unmodelled branch" % unmodelled)
        if broken:
            hit = oracle(env, seed, tier)
            if not hit:
                lrng = rng_for(seed, "c17loopsearch")
                for _ in range(600 if tier == "quick" else 6000):
                    hit = loop_oracle(loop_case(env, lrng)[1][-1])
                    if hit:
                        break
    # 3c. the starvation family on the real engine (every exception class x every provider call kind + quota + lock), judged by
    #     the Lean monitor.  A rejected trace is a concrete violating history (like a refinement tie), reported on its own.
    res.coverage.setdefault("known_finding_replay", {})["engine_level_echo_variant"] = c17lib.replay_echo_variant()
    # 3d. priorities follow the CURRENT path, engine level: folder with descendants moved across the application's classes, then
    #     descendants modified at their new paths under ageing > 0 (id-style and path-style providers), Lean monitor
    pcases = c17lib.prio_family(rng_for(seed, "c17prio"), tier)
    pn, pfails, phist = c17lib.run_prio_family(pcases)
    res.coverage["priority_family"] = dict(phist, sample=pcases[0] if pcases else None,
                                           classes=c17lib.CLASSES, rule="top-level folder below the root; suffix .tmp -> 3")
    res.coverage["evaluations"] = res.coverage.get("evaluations", 0) + pn
    res.coverage["programs"] = res.coverage.get("programs", 0) + len(pcases)
    cases, classes, unknown = c17lib.family(rng_for(seed, "c17starve"), tier)
    nlines, sfails, shist = c17lib.run_family(cases)
    if broken and not sfails and not hit and not pfails:
        # search wider before giving up: more layouts of the same family
        more, _c, _u = c17lib.family(rng_for(seed, "c17starve-search"), "thorough" if tier == "quick" else "thorough")
        _n, sfails, _h = c17lib.run_family(more)
    res.coverage["starvation_family"] = dict(shist, exception_classes=classes, classes_unknown_to_the_class_map=unknown,
                                             call_kinds=list(c17lib.KINDS), provider_faults=["inject", "quota", "lock"],
                                             sample=cases[0] if cases else None)
    res.coverage["evaluations"] = res.coverage.get("evaluations", 0) + nlines
    res.coverage["programs"] = res.coverage.get("programs", 0) + len(cases)
    res.coverage["disagreements_checked"] = res.coverage.get("disagreements_checked", 0) + len(sfails)
    if unknown:
        res.notes.append("exception classes not in the class map of tools/gen_exc_table.py: %s" % unknown)
    if pfails and not hit:
        c0, f0, tr0 = pfails[0]
        hit = {"statement": f0["statement"], "scenario": c0, "monitor": f0["monitor"], "iteration": f0["iteration"],
               "observation": f0["observation"], "trace": [(t["t"], t["attempted"]) for t in tr0],
               "how": "harness/c17lib.py run_prio_case(scenario): real CloudSync over two MockProviders (virtual clock); the application's "
                      "prioritize is keyed on the top-level folder (urgent -1, normal 0, later 1, slow 2) and the suffix .tmp (3); the folder "
                      "D with its descendants is moved from /local/<from> to /local/<to> and synced, then the listed descendants and a control "
                      "file are modified with ageing = age; every SyncManager.do is judged by the Lean monitor; ./check C17 --replay <file>"}
    res.coverage["disagreements_checked"] = res.coverage.get("disagreements_checked", 0) + len(pfails)
    strong = [x for x in sfails if any(k in x[1]["statement"] for k in ("starvation", "did not defer", "dropped"))]
    if strong or (sfails and not hit):
        # prefer a scenario in which a healthy entry demonstrably starves
        sfails = strong + [x for x in sfails if x not in strong]
        sfails.sort(key=lambda x: (0 if "loop_no_starvation" in x[1]["statement"] else 1))
        c0, f0, i0 = sfails[0]
        res.violation({"property": PID, "kind": "statement fails on implementation", "failing": starve_violation(c0, f0, i0),
                       "broken": broken, "other_failing_scenarios": [{"case": c, "statement": f["statement"][:160]} for c, f, _ in sfails[1:6]]})
    elif hit:
        res.violation({"property": PID, "kind": "statement fails on implementation", "failing": hit, "broken": broken})
    elif broken:
        res.violation({"property": PID, "kind": "proof obligation or correspondence no longer checks", "broken": broken,
                       "first_disagreements": (dis + ldis)[:3]}, no_input=True)


if __name__ == "__main__":
    # before the build + audit of standard_main: the generated table must be the one of the tree under test
    _changed, _unmapped = gen_punt_sites.write()
    _TABLE.update({"regenerated": True, "changed_since_last_run": _changed, "unmapped": _unmapped})
    standard_main(PID, run)
