"""C09 — storage backends as a tag-isolated durable map.

Ties between the Lean layer (Model/Storage.lean, Props/C09.lean, Model/SqlSite.lean, Props/C09Sql.lean) and the code:

  (S) STATIC   tools/gen_sql_sites.py regenerates lean/Csverif/Gen/SqlSites.lean from cloudsync/sync/sqlite_storage.py of the
               repo under test (every SQL statement, the control structure around the cursor calls, LIMIT/OFFSET/ORDER BY, mutex);
               Props/C09Sql.lean (kept out of the default library target, built here) proves by `decide` that the table is the
               audited one and that the model-relevant facts hold (one un-paged SELECT per read_all form, nothing in a loop, keys
               where the model's `hits` has them, everything under the mutex).  A rewritten statement breaks this obligation and
               sends the check into the search of step 4.
  (D) DYNAMIC  differential execution of the Lean Sqlite/Mock models against SqliteStorage on a real temp file / MockStorage:
               (a) many short random op sequences (3 plain tags; and tags that are prefixes of each other / contain % _ ' / differ in
                   case / unicode / empty), with close+reopen;
               (b) SIZE-SCALING programs: bulk phases of hundreds to thousands of creates over 1-4 tags with interleaved deletes and
                   updates (contiguous and gappy id ranges, gaps at varying offsets), read_all per tag and for all tags at row counts
                   around powers of two and typical batch sizes (63/64/65, 99..101, 255..257, 499..502, 999..1002, 1023..1025, ...),
                   close/reopen, point reads across the whole id range, payloads from empty to 64 KiB (> 1 MiB once in thorough);
                   the model side also runs its keyset-paged reader (arbitrary page size, correct cursor rule) on the same tables;
               (c) threaded stress: writers/readers on own rows; concurrent read_all readers during a bulk write;
               (d) FAULT INJECTION against the connection-level model (driver layer `sqliteconn`, Model/Storage.lean `Conn`): the module's
                   `sqlite3` name is replaced by a shim whose connections raise sqlite3.OperationalError at chosen `execute` / `fetchall`
                   calls (transient: once; persistent: also on the retry), and a second real connection holds `BEGIN IMMEDIATE` across
                   lock windows (busy timeouts scaled down 2500x); at every position of short programs, repeatedly in random programs,
                   at sampled positions of size-scaling programs; afterwards more writes, then (a) reads through the same object,
                   (b) reads through a FRESH sqlite3 connection to the same file, (c) reads after close+reopen are compared with the model.
Search oracle (step 4, only when the proof audit, the static table or the correspondence broke): the map laws (reference dict)
evaluated directly on the real backend, on short sequences first and then on the size-scaling programs; a failing program is
shrunk (delta debugging) and written, complete, into the replay file (`./check C09 --replay <file>` re-runs it)."""
import fcntl
import hashlib
import json
import os
import shutil
import subprocess
import sys
import tempfile
import threading
import time

sys.path.insert(0, os.path.dirname(os.path.abspath(__file__)))
from common import *  # noqa
sys.path.insert(0, os.path.join(VERIF, "tools"))
import gen_sql_sites  # noqa

PID = "C09"
TAGS = ["ta", "tb", "cursor_tag"]
# tags that are prefixes of each other, contain SQL wildcard / quote characters, differ only in case, are not ASCII, are empty
TRICKY_TAGS = ["t", "ta", "tab", "ta%", "t_", "%", "_", "o'k", "TA", "Ta", "é中", "", "a b", "t;--", '"q"', "ta\\"]
FP_SPEC = {"cloudsync/sync/sqlite_storage.py": ["SqliteStorage.create", "SqliteStorage.update", "SqliteStorage.delete",
                                                "SqliteStorage.read_all", "SqliteStorage.read", "SqliteStorage.__db_execute",
                                                "SqliteStorage.__db_connect", "SqliteStorage._ensure_table_exists"],
           "cloudsync/tests/fixtures/mock_storage.py": ["MockStorage.create", "MockStorage.update", "MockStorage.delete",
                                                        "MockStorage.read_all", "MockStorage.read"]}

# row counts at which read_all is compared: around powers of two and around typical batch / page sizes
SPECIAL_BASES = [(64, 1), (100, 1), (128, 1), (256, 1), (500, 2), (512, 1), (1000, 2), (1024, 1), (2048, 1), (4096, 1),
                 (5000, 1), (8192, 1), (10000, 1), (16384, 1)]
SPECIAL = sorted({b + d for b, w in SPECIAL_BASES for d in range(-1, w + 1)})
CAP = {"quick": 4097, "thorough": 16385}


# ---------------------------------------------------------------------------------------------------------------
# value and tag tokens: pure, injective, self-describing (the model never inspects values; a replay file needs no side table)

_CYCLE = bytes(range(256))


def pat(n, k):
    """a non-constant byte pattern of length n starting at byte value k"""
    return (_CYCLE * (n // 256 + 2))[k:k + n]


def vtok(v):
    if isinstance(v, bool):
        return "?bool%r" % v
    if isinstance(v, bytes):
        if len(v) <= 24:
            return "b" + v.hex()
        if v == pat(len(v), v[0]):
            return "p%d_%d" % (len(v), v[0])
        if v == bytes([v[0]]) * len(v):
            return "q%d_%d" % (len(v), v[0])
        return "?bytes%d_%s" % (len(v), hashlib.sha1(v).hexdigest()[:12])
    if isinstance(v, int):
        return "i%d" % v
    if isinstance(v, str):
        return "s" + v.encode("utf8").hex()
    if isinstance(v, float):
        return "f" + repr(v)
    return "?" + type(v).__name__ + hashlib.sha1(repr(v).encode()).hexdigest()[:12]


def vval(tok):
    k = tok[0]
    if k == "b":
        return bytes.fromhex(tok[1:])
    if k == "p":
        n, s = tok[1:].split("_")
        return pat(int(n), int(s))
    if k == "q":
        n, s = tok[1:].split("_")
        return bytes([int(s)]) * int(n)
    if k == "i":
        return int(tok[1:])
    if k == "s":
        return bytes.fromhex(tok[1:]).decode("utf8")
    if k == "f":
        return float(tok[1:])
    raise HarnessError("value token %r cannot be decoded" % tok)


def ttok(tag):
    """tag -> token without spaces; plain tags stand for themselves"""
    if tag is None:
        return "~"
    if tag and all(c.isascii() and (c.isalnum() or c == "_") for c in tag):
        return tag
    return "@" + ".".join(str(ord(c)) for c in tag)


def tval(tok):
    if tok == "~":
        return None
    if tok.startswith("@"):
        return "".join(chr(int(x)) for x in tok[1:].split(".")) if len(tok) > 1 else ""
    return tok


class ValTable:
    """kept for the callers' shape: tokens are pure functions of the value now"""
    token = staticmethod(vtok)
    back = staticmethod(vtok)


def value_pool(rng):
    return [b"", b"x", b"\xff\xfe\x00\x80", pat(300, rng.randrange(256)), b"A" * 100000, pat(65536, rng.randrange(256)),
            0, 1, 17, -3, 2 ** 40, "cursor-abc", "", "é中", 1.5, pat(2049, 7), b"\x00"]


def gen_ops(rng, n, vals, tags=TAGS):
    ops = []
    known_ids = []
    ncreate = 0
    for _ in range(n):
        r = rng.random()
        tag = rng.choice(tags)
        if known_ids and rng.random() < 0.75:
            eid = rng.choice(known_ids)
        else:
            eid = rng.choice([None, 0, 1, 2, 3, 5, 99, 10 ** 6])
        if r < 0.30:
            ops.append(("create", tag, rng.choice(vals)))
            ncreate += 1
            known_ids.append(ncreate)  # plausible ids for both backends
            known_ids.append(ncreate - 1)
        elif r < 0.50:
            ops.append(("update", tag, rng.choice(vals), eid))
        elif r < 0.62:
            ops.append(("delete", tag, eid))
        elif r < 0.80:
            ops.append(("read", tag, eid))
        elif r < 0.92:
            ops.append(("readall", rng.choice(list(tags) + [None])))
        else:
            ops.append(("reopen",))
    return ops


def op_line(op, vt=None, mock=False, for_model=False):
    e = lambda x: "~" if x is None else str(x)
    if op[0] == "create":
        return "create %s %s" % (ttok(op[1]), vtok(op[2]))
    if op[0] == "update":
        return "update %s %s %s" % (ttok(op[1]), vtok(op[2]), e(op[3]))
    if op[0] in ("delete", "read"):
        return "%s %s %s" % (op[0], ttok(op[1]), e(op[2]))
    if op[0] == "readall":
        return "readall %s" % ttok(op[1])
    if op[0] == "readpaged":      # real side: read_all; model side: the paged reader with the correct cursor rule
        return "readall %s" % ttok(op[1]) if mock else "readpaged %s %d 0" % (ttok(op[1]), op[2])
    if op[0] == "fault":          # ("fault", failing executes, fetchall fails, executes before the first fault, inner op)
        # every interface call of the audited code issues ONE statement (reopen: five), so a fault scheduled behind the first
        # execute of such a call never fires: the model is told "no execute fault" (code that issues a second statement is hit)
        n = op[1] if fault_fires(op) or not for_model else 0
        return "fault %d %s %d %s" % (n, "T" if op[2] else "F", op[3], op_line(op[4], mock=True))
    if op[0] == "freshall":
        return "freshall %s" % ttok(op[1])
    return op[0]


def fault_fires(op):
    return op[4][0] == "reopen" or op[3] == 0


def parse_line(line):
    t = line.split()
    d = lambda x: None if x == "~" else int(x)
    if t[0] == "create":
        return ("create", tval(t[1]), vval(t[2]))
    if t[0] == "update":
        return ("update", tval(t[1]), vval(t[2]), d(t[3]))
    if t[0] in ("delete", "read"):
        return (t[0], tval(t[1]), d(t[2]))
    if t[0] == "readall":
        return ("readall", tval(t[1]))
    if t[0] == "readpaged":
        return ("readpaged", tval(t[1]), int(t[2]))
    if t[0] == "reopen":
        return ("reopen",)
    if t[0] == "fault":
        return ("fault", int(t[1]), t[2] == "T", int(t[3]), parse_line(" ".join(t[4:])))
    if t[0] == "freshall":
        return ("freshall", tval(t[1]))
    if t[0] in ("lock", "unlock"):
        return (t[0],)
    raise HarnessError("cannot parse op line %r" % line)


def canon_rows(line):
    if line.startswith("rows"):
        return "rows " + " ".join(sorted(line.split()[1:]))
    return line


class RealSqlite:
    kind = "sqlite"

    def __init__(self):
        import_repo()
        from cloudsync.sync.sqlite_storage import SqliteStorage
        self.cls = SqliteStorage
        self.dir = tempfile.mkdtemp(prefix="c09_", dir="/dev/shm" if os.path.isdir("/dev/shm") else None)
        self.n = 0
        self.st = None
        self.path = None

    def reset(self):
        if self.st:
            self.st.close()
        if self.path:                       # big tables: do not let them pile up in the temp dir
            for suf in ("", "-wal", "-shm"):
                try:
                    os.unlink(self.path + suf)
                except OSError:
                    pass
        self.n += 1
        self.path = os.path.join(self.dir, "db%d.sqlite" % self.n)
        self.st = self.cls(self.path)

    def reopen(self):
        self.st.close()
        self.st = self.cls(self.path)

    def cleanup(self):
        try:
            if self.st:
                self.st.close()
        finally:
            shutil.rmtree(self.dir, ignore_errors=True)


TIME_SCALE = 2500       # busy timeouts of the code under test are divided by this (5 s -> 2 ms) in the fault runs


class FaultCtl:
    """schedule of injected sqlite3.OperationalError: after `skip` more executes the next `fail` executes raise; `fetch`: the next
    fetchall raises"""

    def __init__(self):
        self.skip = self.fail = 0
        self.fetch = False
        self.fired = self.fetch_fired = self.connects = self.executes = self.unfired = 0

    def arm(self, skip, fail, fetch):
        self.skip, self.fail, self.fetch = skip, fail, fetch

    def disarm(self, count=True):
        if count:
            self.unfired += self.fail + (1 if self.fetch else 0)
        self.skip = self.fail = 0
        self.fetch = False


class CursorProxy:
    def __init__(self, real, ctl):
        self._real, self._ctl = real, ctl

    def fetchall(self):
        if self._ctl.fetch:
            self._ctl.fetch = False
            self._ctl.fetch_fired += 1
            raise sqlite3_real().OperationalError("injected fault (fetchall)")
        return self._real.fetchall()

    def __iter__(self):
        return iter(self._real)

    def __getattr__(self, name):
        return getattr(self._real, name)


class ConnProxy:
    """a real sqlite3 connection whose `execute` raises on schedule; everything else (attribute reads AND writes, close, ...) goes
    to the real connection"""

    def __init__(self, real, ctl):
        object.__setattr__(self, "_real", real)
        object.__setattr__(self, "_ctl", ctl)

    def execute(self, sql, *args, **kw):
        ctl = self._ctl
        ctl.executes += 1
        if ctl.skip > 0:
            ctl.skip -= 1
        elif ctl.fail > 0:
            ctl.fail -= 1
            ctl.fired += 1
            raise sqlite3_real().OperationalError("injected fault (execute)")
        if isinstance(sql, str):
            m = re.match(r"(?i)^(\s*PRAGMA\s+busy_timeout\s*=\s*)(\d+)(.*)$", sql)
            if m:
                sql = "%s%d%s" % (m.group(1), max(1, int(m.group(2)) // TIME_SCALE), m.group(3))
        cur = self._real.execute(sql, *args, **kw)
        return CursorProxy(cur, ctl) if ctl.fetch else cur

    def __getattr__(self, name):
        return getattr(self._real, name)

    def __setattr__(self, name, value):
        setattr(self._real, name, value)


def sqlite3_real():
    import sqlite3
    return sqlite3


class Sqlite3Shim:
    """stands for the name `sqlite3` inside cloudsync.sync.sqlite_storage during the fault runs"""

    def __init__(self, ctl):
        self._ctl = ctl

    def connect(self, *args, **kw):
        self._ctl.connects += 1
        kw["timeout"] = float(kw.get("timeout", 5.0)) / TIME_SCALE
        return ConnProxy(sqlite3_real().connect(*args, **kw), self._ctl)

    def __getattr__(self, name):
        return getattr(sqlite3_real(), name)


class RealSqliteF(RealSqlite):
    """SqliteStorage on a real file with fault injection, a fresh-connection reader and a lock holder"""
    kind = "sqlite"

    def __init__(self):
        RealSqlite.__init__(self)
        import cloudsync.sync.sqlite_storage as mod
        self.mod = mod
        self.ctl = FaultCtl()
        self.locker = None
        self.installed = False

    def install(self):
        self.mod.sqlite3 = Sqlite3Shim(self.ctl)
        self.installed = True

    def uninstall(self):
        self.mod.sqlite3 = sqlite3_real()
        self.installed = False

    def reset(self):
        self.unlock()
        self.ctl.disarm()
        if not self.installed:
            self.install()
        RealSqlite.reset(self)

    def reopen(self):
        self.st.close()
        try:
            self.st = self.cls(self.path)
        except Exception:
            self.ctl.disarm()               # the caller sees the error; later calls need a usable object all the same
            self.st = self.cls(self.path)
            raise

    def fresh(self, tag):
        con = sqlite3_real().connect(self.path, timeout=1.0)
        try:
            if tag is None:
                rows = con.execute("SELECT id, tag, serialization FROM cloud").fetchall()
            else:
                rows = con.execute("SELECT id, tag, serialization FROM cloud WHERE tag = ?", [tag]).fetchall()
        finally:
            con.close()
        return rows

    def lock(self):
        con = sqlite3_real().connect(self.path, timeout=0.05, isolation_level=None)
        try:
            con.execute("BEGIN IMMEDIATE")
        except sqlite3_real().OperationalError:
            con.close()
            return "busy"
        self.locker = con
        return "unit"

    def unlock(self):
        if self.locker is not None:
            try:
                self.locker.execute("ROLLBACK")
            finally:
                self.locker.close()
                self.locker = None
        return "unit"

    def cleanup(self):
        try:
            self.unlock()
        finally:
            try:
                RealSqlite.cleanup(self)
            finally:
                self.uninstall()


class RealMock:
    kind = "mock"

    def __init__(self):
        import_repo()
        from cloudsync.tests.fixtures.mock_storage import MockStorage
        self.cls = MockStorage

    def reset(self):
        self.d = {}
        self.st = self.cls(self.d)

    def reopen(self):
        self.st = self.cls(self.d)

    def cleanup(self):
        pass


def real_apply(be, op, vt=None, stats=None):
    try:
        if op[0] == "create":
            return "id %d" % be.st.create(op[1], op[2])
        if op[0] == "update":
            return "count %d" % be.st.update(op[1], op[2], op[3])
        if op[0] == "delete":
            r = be.st.delete(op[1], op[2])
            return "unit" if r is None else "?delete-returned"
        if op[0] == "read":
            r = be.st.read(op[1], op[2])
            return "val ~" if r is None else "val " + vtok(r)
        if op[0] in ("readall", "readpaged"):
            r = be.st.read_all(op[1]) if op[1] is not None else be.st.read_all()
            if op[1] is not None:
                tt = ttok(op[1])
                items = ["%s:%s:%s" % (tt, k, vtok(v)) for k, v in r.items()]
                ids = list(r)
            else:
                items = ["%s:%s:%s" % (ttok(t), k, vtok(v)) for t, d in r.items() for k, v in d.items()]
                ids = [k for d in r.values() for k in d]
            if stats is not None:
                stats.readall(op, ids)
            return "rows " + " ".join(sorted(items))
        if op[0] == "reopen":
            be.reopen()
            return "unit"
        if op[0] == "fault":
            be.ctl.arm(op[3], op[1], op[2])
            try:
                return real_apply(be, op[4], stats=stats)
            finally:
                be.ctl.disarm(count=fault_fires(op))
        if op[0] == "freshall":
            rows = be.fresh(op[1])
            return "rows " + " ".join(sorted("%s:%s:%s" % (ttok(t), k, vtok(v)) for k, t, v in rows))
        if op[0] == "lock":
            return be.lock()
        if op[0] == "unlock":
            return be.unlock()
    except ValueError:
        return "ValueError"
    except Exception as e:  # noqa
        return "!" + type(e).__name__
    raise HarnessError("bad op")


def correspondence(layer, be, seqs, vt=None, stats=None):
    lines, mlines, reals = [], [], []
    mock = layer == "mockstorage"
    for ops in seqs:
        be.reset()
        lines.append("reset")
        mlines.append("reset")
        reals.append("unit")
        for op in ops:
            lines.append(op_line(op, mock=mock))
            mlines.append(op_line(op, mock=mock, for_model=True) if op[0] == "fault" else lines[-1])
            reals.append(real_apply(be, op, stats=stats))
    model = [canon_rows(x) for x in run_driver(layer, mlines)]
    dis = []
    for i, (r, m) in enumerate(zip(reals, model)):
        if r != m:
            # locate the sequence start
            j = i
            while lines[j] != "reset":
                j -= 1
            dis.append({"layer": layer, "sequence_ops": i - j, "sequence": summarize(lines[j + 1:i + 1]),
                        "implementation": clip(r), "model": clip(m), "difference": rows_diff(r, m)})
            if len(dis) >= 5:
                break
    return lines, reals, dis


def clip(s, n=400):
    return s if len(s) <= n else s[:n] + " …(%d chars)" % len(s)


def rows_diff(r, m):
    if not (r.startswith("rows") and m.startswith("rows")):
        return None
    a, b = set(r.split()[1:]), set(m.split()[1:])
    return {"rows_implementation": len(a), "rows_model": len(b), "missing_in_implementation": sorted(b - a)[:8],
            "unexpected_in_implementation": sorted(a - b)[:8]}


def summarize(lines, keep=12):
    """run-length summary of an op-line list: consecutive creates of one tag are folded"""
    out = []
    i = 0
    while i < len(lines):
        t = lines[i].split()
        if t[0] == "create":
            j = i
            while j < len(lines) and lines[j].split()[0] == "create" and lines[j].split()[1] == t[1]:
                j += 1
            if j - i > 3:
                out.append("create %s ×%d (%s … %s)" % (t[1], j - i, clip(t[2], 24), clip(lines[j - 1].split()[2], 24)))
                i = j
                continue
        out.append(clip(lines[i], 80))
        i += 1
    if len(out) > 2 * keep:
        out = out[:keep] + ["… %d more entries …" % (len(out) - 2 * keep)] + out[-keep:]
    return out


# ---------------------------------------------------------------------------------------------------------------
# size-scaling programs

class IdPredictor:
    """what id the backend will hand out (only used to aim deletes/updates/reads at live rows; a wrong guess is just a miss)"""

    def __init__(self, kind):
        self.kind = kind
        self.live = {}          # sqlite: id -> tag ; mock: (tag, id) -> True
        self.cursor = 0
        self.maxid = 0
        self.maxid_dirty = False

    def create(self, tag):
        if self.kind == "sqlite":
            if self.maxid_dirty:
                self.maxid = max(self.live) if self.live else 0
                self.maxid_dirty = False
            self.maxid += 1
            self.live[self.maxid] = tag
            return self.maxid
        n = self.cursor
        self.cursor += 1
        self.live[(tag, n)] = True
        return n

    def delete(self, tag, eid):
        if self.kind == "sqlite":
            if self.live.get(eid) == tag:
                del self.live[eid]
                if eid == self.maxid:
                    self.maxid_dirty = True
        else:
            self.live.pop((tag, eid), None)

    def reopen(self):
        if self.kind == "mock":
            self.cursor = 0

    def count(self, tag=None):
        if self.kind == "sqlite":
            return len(self.live) if tag is None else sum(1 for t in self.live.values() if t == tag)
        return len(self.live) if tag is None else sum(1 for (t, _i) in self.live if t == tag)

    def rows(self):
        """[(tag, id)] of the predicted live rows"""
        if self.kind == "sqlite":
            return [(t, i) for i, t in self.live.items()]
        return list(self.live)


class Prog:
    """builder of one program"""

    def __init__(self, rng, kind, tier):
        self.rng, self.kind, self.tier = rng, kind, tier
        self.ops = []
        self.pred = IdPredictor(kind)
        self.per_tag = {}
        self.nrow = 0
        self.big_payloads = 0
        self.done_cp = set()
        self.livelist = []        # [(tag, id)] in creation order, lazily pruned
        self.dead = set()

    def payload(self):
        r = self.rng.random()
        self.nrow += 1
        if r < 0.985:
            return b"r%d" % self.nrow
        c = self.rng.randrange(6)
        if c == 0:
            return b""
        if c == 1:
            return bytes([self.rng.randrange(256)])
        if c == 2 and self.big_payloads < 3:
            self.big_payloads += 1
            return pat(65536, self.rng.randrange(256))
        if c == 3:
            return pat(self.rng.choice([25, 255, 256, 257, 1000, 2048, 2049, 4096]), self.rng.randrange(256))
        if c == 4:
            return self.rng.choice([0, 17, 2 ** 40, -1])
        return b"\xff\xfe\x00r%d" % self.nrow

    def create(self, tag, v=None):
        self.ops.append(("create", tag, self.payload() if v is None else v))
        n = self.pred.create(tag)
        self.per_tag[tag] = self.per_tag.get(tag, 0) + 1
        self.livelist.append((tag, n))
        self.dead.discard((tag, n))
        return n

    def delete(self, tag, eid):
        self.ops.append(("delete", tag, eid))
        before = self.pred.count()
        self.pred.delete(tag, eid)
        if self.pred.count() < before:
            self.per_tag[tag] -= 1
            self.dead.add((tag, eid))

    def pick_live(self):
        for _ in range(20):
            if not self.livelist:
                return None
            k = self.rng.randrange(len(self.livelist))
            if self.livelist[k] in self.dead:
                self.livelist[k] = self.livelist[-1]
                self.livelist.pop()
                continue
            return self.livelist[k]
        return None

    def total(self):
        return sum(self.per_tag.values())

    def readall(self, tag, paged=False):
        if paged and self.kind == "sqlite":
            n = self.total() if tag is None else self.per_tag.get(tag, 0)
            ps = [2, 3, 7, 64, 100, 500, 512, 1000, max(1, n - 1), max(1, n), n + 1, self.rng.randint(1, max(2, n))]
            if n <= 1100:
                ps.append(1)
            self.ops.append(("readpaged", tag, self.rng.choice(ps)))
        else:
            self.ops.append(("readall", tag))

    def checkpoint(self, tag_just_created, cps):
        """read_all when the live count of the tag / of the table is one of the sizes to compare at"""
        tot = self.total()
        if tot in cps and ("all", tot) not in self.done_cp:
            self.done_cp.add(("all", tot))
            if self.rng.random() < 0.2:
                self.reopen()
            self.readall(None, paged=self.rng.random() < 0.25)
        n = self.per_tag.get(tag_just_created, 0)
        if n in cps and (tag_just_created, n) not in self.done_cp:
            self.done_cp.add((tag_just_created, n))
            self.readall(tag_just_created, paged=self.rng.random() < 0.25)

    def reopen(self):
        self.ops.append(("reopen",))
        self.pred.reopen()

    def finale(self, tags):
        for t in tags:
            self.readall(t)
        self.readall(None)
        self.reopen()
        for t in tags:
            self.readall(t, paged=self.rng.random() < 0.5)
        self.readall(None, paged=self.rng.random() < 0.5)
        for _ in range(6):
            lv = self.pick_live()
            if lv:
                self.ops.append(("read", lv[0], lv[1]))


def pick_tags(rng, k):
    pool = TAGS + TRICKY_TAGS
    tags = []
    while len(tags) < k:
        t = rng.choice(pool)
        if t not in tags:
            tags.append(t)
    return tags


def tag_chooser(rng, tags, pattern):
    """how consecutive creates are spread over the tags: contiguous per tag / strided / random / blocks of random length"""
    state = {"i": 0, "left": 0, "cur": tags[0]}

    def nxt():
        if pattern == "single" or len(tags) == 1:
            return tags[0]
        if pattern == "roundrobin":
            state["i"] += 1
            return tags[state["i"] % len(tags)]
        if pattern == "random":
            return rng.choice(tags)
        if pattern == "mostly":           # one big tag with rows of the others sprinkled in (gaps at random offsets)
            return tags[0] if rng.random() < 0.93 else rng.choice(tags[1:])
        if state["left"] <= 0:            # blocks
            state["cur"] = rng.choice(tags)
            state["left"] = rng.choice([1, 2, 5, 31, 64, 100, 257, 500, 700])
        state["left"] -= 1
        return state["cur"]
    return nxt


def prog_growth(rng, kind, tier, target, ntags, pattern, churn, cps, max_total=None):
    """create until the biggest tag holds `target` live rows; deletes/updates interleaved with probability `churn`;
    read_all at every checkpoint size on the way"""
    p = Prog(rng, kind, tier)
    tags = pick_tags(rng, ntags)
    nxt = tag_chooser(rng, tags, pattern)
    guard = 0
    while max(p.per_tag.values(), default=0) < target and guard < 20 * target + 1000 and (max_total is None or p.total() < max_total):
        guard += 1
        if churn and rng.random() < churn:
            lv = p.pick_live()
            if lv:
                if rng.random() < 0.6:
                    p.delete(lv[0], lv[1])
                    if rng.random() < 0.1:
                        p.delete(lv[0], lv[1])          # idempotent
                else:
                    p.ops.append(("update", lv[0], b"u%d" % guard, lv[1]))
            continue
        t = nxt()
        p.create(t)
        p.checkpoint(t, cps)
    p.finale(tags)
    return p.ops, {"family": "growth", "tags": tags, "pattern": pattern if ntags > 1 else "single", "churn": churn, "target": target}


def prog_shrink(rng, kind, tier, target, ntags, pattern, how, dmin=0):
    """build target+d rows of the main tag, then delete d of them in a pattern so that exactly `target` stay; read_all; grow a
    little again (id reuse after a deleted tail); read_all; reopen; read_all"""
    p = Prog(rng, kind, tier)
    tags = pick_tags(rng, ntags)
    main = tags[0]
    if target * ntags > 1.3 * CAP[tier]:
        pattern = "mostly"              # keep the whole table near the cap: the main tag with other tags' rows sprinkled in
    nxt = tag_chooser(rng, tags, pattern)
    d = max(dmin, rng.choice([0, 1, 2, 3, 17, 64, 100, max(1, target // 10), max(1, target // 3)]))
    mine = []
    while len(mine) < target + d:
        t = nxt()
        n = p.create(t)
        if t == main:
            mine.append(n)
    if how == "prefix":
        victims = mine[:d]
    elif how == "suffix":
        victims = mine[len(mine) - d:] if d else []
    elif how == "middle":
        o = rng.randint(0, len(mine) - d)
        victims = mine[o:o + d]
    elif how == "stride":
        victims = mine[rng.randrange(3)::max(1, len(mine) // max(1, d))][:d]
        rest = [n for n in mine if n not in set(victims)]
        victims += rng.sample(rest, d - len(victims))
    else:
        victims = rng.sample(mine, d)
    for n in victims:
        p.delete(main, n)
    p.readall(main)
    p.readall(None, paged=rng.random() < 0.3)
    # updates on a slice, then a few more creates (a deleted tail makes sqlite hand the freed max id out again)
    for n in rng.sample(mine, min(len(mine), 20)):
        p.ops.append(("update", main, b"u%d" % n, n))
    extra = rng.choice([0, 1, 2, 5])
    for _ in range(extra):
        p.create(main)
    p.finale(tags)
    return p.ops, {"family": "shrink", "tags": tags, "pattern": pattern if ntags > 1 else "single", "how": how, "target": target, "deleted": len(victims)}


def prog_pointwise(rng, kind, tier, target, ntags):
    """bulk create, then point operations across the whole id range: ids that differ by powers of two, the right id under the
    wrong tag, update-then-read, delete-then-read"""
    p = Prog(rng, kind, tier)
    tags = pick_tags(rng, ntags)
    nxt = tag_chooser(rng, tags, "mostly" if ntags > 1 else "single")
    while p.total() < target:
        p.create(nxt())
    rows = p.pred.rows()
    ids = sorted(i for _t, i in rows)
    for _ in range(300 if tier == "quick" else 1500):
        t, i = rng.choice(rows)
        c = rng.random()
        j = max(0, i + rng.choice([0, 0, 1, -1, 64, 128, 256, 512, 1024, 2048, 4096, -64, -256, -1024, -4096, 1000, -1000, 500]))
        if c < 0.35:
            p.ops.append(("read", t, j))
        elif c < 0.5:
            p.ops.append(("read", rng.choice(tags), j))
        elif c < 0.7:
            p.ops.append(("update", t, b"u%d" % rng.randrange(10 ** 6), j))
            p.ops.append(("read", t, j))
        elif c < 0.8:
            p.ops.append(("update", rng.choice(tags), b"w%d" % rng.randrange(10 ** 6), j))
        elif c < 0.9:
            p.delete(t, i)
            p.ops.append(("read", t, i))
        else:
            p.ops.append(("read", t, rng.choice(ids)))
    p.finale(tags)
    return p.ops, {"family": "pointwise", "tags": tags, "pattern": "mostly" if ntags > 1 else "single", "target": target}


def prog_payload(rng, kind, tier):
    """payload sizes: empty, 1 byte, 64 KiB, > 1 MiB (thorough), over two tags, read back / read_all / reopen"""
    p = Prog(rng, kind, tier)
    tags = pick_tags(rng, 2)
    sizes = [0, 1, 2, 255, 4096, 65535, 65536, 65537]
    if tier == "thorough":
        sizes += [1048576 + 17, 1048576]
    made = []
    for s in sizes:
        t = rng.choice(tags)
        v = pat(s, rng.randrange(256)) if s > 24 else bytes(rng.randrange(256) for _ in range(s))
        made.append((t, p.create(t, v), s))
        p.ops.append(("read", t, made[-1][1]))
    for (t, n, s) in made:
        if rng.random() < 0.5:
            p.ops.append(("update", t, pat(max(25, s + rng.choice([-1, 0, 1])), rng.randrange(256)), n))
    p.finale(tags)
    return p.ops, {"family": "payload", "tags": tags, "pattern": "random", "target": len(sizes)}


def scaled_plan(rng, tier, kind, salt_light=False):
    """the list of programs of one tier: every run covers every checkpoint size up to the tier's cap (contiguous and gappy tables,
    per-tag and all-tags form) plus sizes drawn at random"""
    cap = CAP[tier] if kind == "sqlite" else (1025 if tier == "quick" else 4097)
    cps = set(s for s in SPECIAL if s <= cap)
    progs = []
    add = progs.append
    # 1. one tag, no deletes: contiguous ids, every checkpoint size, per-tag and all-tags form
    add(prog_growth(rng, kind, tier, cap + rng.randint(0, 40), 1, "single", 0.0, cps))
    # 2. several tags, no deletes: the table is contiguous, every tag's own ids are not
    for pattern, k in (("roundrobin", 2), ("blocks", 3), ("mostly", rng.choice([2, 3, 4])), ("random", 4)):
        tgt = rng.choice([s for s in SPECIAL if cap // 8 <= s <= cap // 2]) + rng.randint(0, 3)
        add(prog_growth(rng, kind, tier, tgt, k, pattern, 0.0, cps, max_total=int(1.3 * cap)))
    # 3. deletes and updates interleaved: gaps at varying offsets
    for pattern, k in (("single", 1), ("blocks", 2), ("mostly", 3)):
        tgt = rng.choice([s for s in SPECIAL if cap // 8 <= s <= cap // 2]) + rng.randint(0, 3)
        add(prog_growth(rng, kind, tier, tgt, k, pattern, rng.choice([0.05, 0.15, 0.3]), cps, max_total=int(1.3 * cap)))
    # 4. exact sizes reached by deleting: one program per bucket of checkpoint sizes (quick) / per checkpoint size (thorough)
    buckets = {}
    for s in sorted(cps):
        buckets.setdefault(len(bin(s)) if tier == "quick" else s, []).append(s)
    hows = ["prefix", "suffix", "middle", "stride", "random"]
    for bi, (_b, ss) in enumerate(sorted(buckets.items())):
        if kind != "sqlite" and bi % 2:
            continue
        how = hows[(bi + rng.randrange(5)) % 5]
        k = rng.choice([2, 3]) if how in ("prefix", "suffix") else rng.choice([1, 1, 2, 3])      # the kept rows must have id gaps
        add(prog_shrink(rng, kind, tier, rng.choice(ss), k, rng.choice(["mostly", "blocks", "roundrobin"]), how, dmin=1))
    # 5. sizes drawn at random (log-uniform over the whole range)
    for _ in range(4 if tier == "quick" else 30):
        tgt = int(2 ** rng.uniform(5, len(bin(cap)) - 2.3))
        if rng.random() < 0.5:
            add(prog_growth(rng, kind, tier, tgt, rng.choice([1, 2, 3, 4]), rng.choice(["roundrobin", "blocks", "mostly", "random"]),
                            rng.choice([0.0, 0.1, 0.25]), cps, max_total=int(1.3 * cap)))
        else:
            add(prog_shrink(rng, kind, tier, tgt, rng.choice([1, 2, 3]), rng.choice(["mostly", "blocks"]), rng.choice(hows)))
    # 6. point operations across a big id range, payload sizes
    add(prog_pointwise(rng, kind, tier, rng.randint(2100, 2700) if kind == "sqlite" else 1100, rng.choice([1, 2, 3])))
    if tier == "thorough":
        add(prog_pointwise(rng, kind, tier, rng.randint(4200, 9000) if kind == "sqlite" else 2100, rng.choice([1, 2, 3])))
    add(prog_payload(rng, kind, tier))
    # 7. thorough: one table far beyond the cap
    if tier == "thorough" and kind == "sqlite":
        add(prog_growth(rng, kind, tier, rng.randint(20000, 33000), 1, "single", 0.0, set(SPECIAL) | {20000, 30000, 32767, 32768, 32769}))
    return progs


class ScaleStats:
    """what the size-scaling programs really exercised (from the implementation's answers)"""

    def __init__(self):
        self.sizes = {"tag": {}, "all": {}}
        self.contig = {}
        self.gappy = {}
        self.max_rows = 0
        self.readalls = 0

    @staticmethod
    def label(n):
        if n in SPECIAL or n <= 2:
            return str(n)
        lo = max([s for s in SPECIAL if s < n] + [2])
        hi = min([s for s in SPECIAL if s > n] + [10 ** 9])
        return "%d-%s" % (lo + 1, hi - 1 if hi < 10 ** 9 else "")

    def readall(self, op, ids):
        n = len(ids)
        lab = self.label(n)
        form = "all" if op[1] is None else "tag"
        self.sizes[form][lab] = self.sizes[form].get(lab, 0) + 1
        self.readalls += 1
        self.max_rows = max(self.max_rows, n)
        if n >= 2:
            try:
                c = max(ids) - min(ids) + 1 == n
            except TypeError:
                c = False
            d = self.contig if c else self.gappy
            d[lab] = d.get(lab, 0) + 1

    def ordered(self, d):
        key = lambda s: int(s.split("-")[0])
        return {k: d[k] for k in sorted(d, key=key)}

    def missing(self, cap):
        """checkpoint sizes up to the cap that no read_all returned (per form, contiguous and gappy)"""
        need = [str(s) for s in SPECIAL if s <= cap]
        out = []
        for what, d in (("read_all(tag)", self.sizes["tag"]), ("read_all()", self.sizes["all"]), ("contiguous ids", self.contig)):
            miss = [s for s in need if s not in d]
            if miss:
                out.append("%s: %s" % (what, ",".join(miss)))
        # gappy tables: at least one checkpoint size in every power-of-two bucket
        have = {len(bin(int(k))) for k in self.gappy if k.isdigit()}
        miss = sorted({len(bin(s)) for s in SPECIAL if s <= cap} - have)
        if miss:
            out.append("gappy ids: no checkpoint size with %s bits" % ",".join(str(b - 2) for b in miss))
        return out


def payload_hist(seqs):
    h = {}
    for ops in seqs:
        for op in ops:
            if op[0] in ("create", "update"):
                v = op[2]
                if isinstance(v, bytes):
                    n = len(v)
                    k = "bytes 0" if n == 0 else "bytes 1" if n == 1 else "bytes 2-24" if n <= 24 else "bytes 25-4096" if n <= 4096 else \
                        "bytes 4097-65535" if n < 65536 else "bytes 64KiB-1MiB" if n <= 1048576 else "bytes >1MiB"
                else:
                    k = type(v).__name__
                h[k] = h.get(k, 0) + 1
    return h


# ---------------------------------------------------------------------------------------------------------------
# fault programs (connection-level model)

def small_vals(rng):
    return [b"", b"x", b"\xff\xfe\x00\x80", pat(300, rng.randrange(256)), 0, 17, 2 ** 40, "cursor-abc", 1.5, b"r%d" % rng.randrange(1000)]


def fault_kinds(op, rng=None):
    """the fault schedules that make sense for an op: (failing executes, fetchall fails)"""
    if op[0] == "reopen":
        return [(1, False)]                       # one of the five set-up statements; a persistent one would leave no object
    if op[0] in ("read", "readall", "readpaged"):
        return [(1, False), (2, False), (0, True), (1, True)]
    return [(1, False), (2, False)]


def wrap_fault(rng, op, kind=None, k=None):
    """k = executes of the call that run before the first injected error (the audited code issues one statement per call, so
    k >= 1 only hits code that issues more)"""
    n, ff = kind if kind else rng.choice(fault_kinds(op))
    inner = ("readall", op[1]) if op[0] == "readpaged" else op
    if k is None:
        k = rng.randrange(5) if op[0] == "reopen" else (1 if rng.random() < 0.15 else 0)
    return ("fault", n, ff, k, inner)


def observe_tail(rng, tags, nids):
    """further acknowledged writes after whatever happened, then the three observations: same object, fresh connection, reopen"""
    ids = list(range(1, max(2, nids + 1)))
    vals = small_vals(rng)
    t = [("create", rng.choice(tags), rng.choice(vals)), ("update", rng.choice(tags), rng.choice(vals), rng.choice(ids)),
         ("delete", rng.choice(tags), rng.choice(ids)), ("create", rng.choice(tags), rng.choice(vals)),
         ("readall", None), ("freshall", None), ("freshall", rng.choice(tags)), ("reopen",), ("readall", None), ("freshall", None)]
    return t


def fault_plan(rng, tier):
    """[(ops, meta)]: faults at every position of short programs; repeated faults; lock windows; sampled positions of scaled programs"""
    progs = []
    # 1. every position x every fault kind
    for b in range(12 if tier == "quick" else 150):
        tags = TAGS if b % 2 == 0 else pick_tags(rng, 3)
        base = gen_ops(rng, rng.randint(4, 9), small_vals(rng), tags)
        ncr = sum(1 for o in base if o[0] == "create")
        tail = observe_tail(rng, tags, ncr + 2)
        for k, op in enumerate(base):
            for kind in fault_kinds(op):
                progs.append((base[:k] + [wrap_fault(rng, op, kind, k=None if op[0] == "reopen" else 0)] + base[k + 1:] + tail,
                              {"family": "every-position", "position": k, "fault": kind, "op": op[0]}))
            if op[0] in ("create", "update", "delete"):      # … and behind the call's first statement
                progs.append((base[:k] + [wrap_fault(rng, op, (1, False), k=1)] + base[k + 1:] + tail,
                              {"family": "every-position", "position": k, "fault": (1, False), "after_executes": 1, "op": op[0]}))
    # 2. repeated faults in random programs, fresh-connection reads in between
    for b in range(60 if tier == "quick" else 2000):
        tags = TAGS if b % 2 == 0 else pick_tags(rng, rng.choice([2, 3, 4]))
        base = gen_ops(rng, rng.randint(8, 35), small_vals(rng), tags)
        ops = []
        for op in base:
            ops.append(wrap_fault(rng, op) if rng.random() < 0.3 else op)
            if rng.random() < 0.15:
                ops.append(("freshall", rng.choice(list(tags) + [None])))
        progs.append((ops + observe_tail(rng, tags, sum(1 for o in base if o[0] == "create") + 2), {"family": "repeated"}))
    # 3. another connection holds the write lock across a window (real `database is locked` errors beyond the busy timeout)
    for b in range(20 if tier == "quick" else 250):
        tags = TAGS if b % 2 == 0 else pick_tags(rng, 3)
        base = [o for o in gen_ops(rng, rng.randint(8, 24), small_vals(rng), tags)]
        ops, locked, left = [], False, 0
        for op in base:
            if locked and (left <= 0 or op[0] == "reopen"):
                ops.append(("unlock",))
                locked = False
            if not locked and op[0] != "reopen" and rng.random() < 0.2:
                ops.append(("lock",))
                locked, left = True, rng.randint(1, 4)
            ops.append(wrap_fault(rng, op) if op[0] != "reopen" and rng.random() < 0.15 else op)
            left -= 1
            if rng.random() < 0.15:
                ops.append(("freshall", rng.choice(list(tags) + [None])))
        if locked:
            ops.append(("unlock",))
        progs.append((ops + observe_tail(rng, tags, sum(1 for o in base if o[0] == "create") + 2), {"family": "lock-window"}))
    # 4. size-scaling programs with faults at sampled positions and fresh-connection reads at sampled checkpoints
    cps = set(s for s in SPECIAL if s <= 2049)
    scaled = [prog_growth(rng, "sqlite", tier, rng.choice([513, 1001, 1025]) + rng.randint(0, 9), 1, "single", 0.0, cps),
              prog_growth(rng, "sqlite", tier, rng.choice([257, 502, 513]), 3, "blocks", 0.15, cps, max_total=2500),
              prog_shrink(rng, "sqlite", tier, rng.choice([500, 1000, 1024]), 2, "mostly", rng.choice(["middle", "stride", "suffix"]), dmin=1)]
    if tier == "thorough":
        scaled += [prog_growth(rng, "sqlite", tier, rng.choice([2049, 4097]), rng.choice([1, 2]), "mostly", rng.choice([0.0, 0.1]), cps,
                               max_total=6000) for _ in range(6)]
        scaled += [prog_shrink(rng, "sqlite", tier, rng.choice([1025, 2048, 4096]), 2, "mostly", "random", dmin=1) for _ in range(3)]
    for ops, meta in scaled:
        idx = set(rng.sample(range(len(ops)), min(len(ops), 16)))
        out = []
        for i, op in enumerate(ops):
            out.append(wrap_fault(rng, op) if i in idx else (("readall", op[1]) if op[0] == "readpaged" else op))
            if op[0] in ("readall", "readpaged") and rng.random() < 0.2:
                out.append(("freshall", op[1]))
        out += [("freshall", None)]
        progs.append((out, {"family": "scaled+faults", "base": meta["family"], "target": meta["target"]}))
    return progs


def fault_stats(progs, reals_by_prog):
    h = {"programs": {}, "faults": {}, "outcomes_of_faulted_calls": {}, "fresh_reads": 0, "lock_windows": 0, "writes_refused_by_lock": 0}
    for (ops, meta), reals in zip(progs, reals_by_prog):
        h["programs"][meta["family"]] = h["programs"].get(meta["family"], 0) + 1
        locked = False
        for op, r in zip(ops, reals):
            if op[0] == "fault":
                k = "%s: %d execute%s%s" % (op[4][0], op[1], " + fetchall" if op[2] else "",
                                              " (behind the call's only statement: does not fire)" if not fault_fires(op) else "")
                h["faults"][k] = h["faults"].get(k, 0) + 1
                o = r.split()[0]
                h["outcomes_of_faulted_calls"][o] = h["outcomes_of_faulted_calls"].get(o, 0) + 1
            elif op[0] == "freshall":
                h["fresh_reads"] += 1
            elif op[0] == "lock":
                h["lock_windows"] += 1
                locked = r == "unit"
            elif op[0] == "unlock":
                locked = False
            if locked and r == "!OperationalError":
                h["writes_refused_by_lock"] += 1
    return h


# ---------------------------------------------------------------------------------------------------------------
# the property itself, evaluated on the implementation

def spec_oracle(be, ops, mock_quirks=False):
    """the property itself on the real backend: reference dict semantics.  Returns failure dict or None."""
    ref = {}
    be.reset()
    locked = False
    nfaults = nreopen = 0
    for i, op0 in enumerate(ops):
        r = real_apply(be, op0)
        bad = None
        nfaults += 1 if op0[0] == "fault" or (locked and r == "!OperationalError") else 0
        nreopen += 1 if op0[0] == "reopen" or (op0[0] == "fault" and op0[4][0] == "reopen") else 0
        op = op0
        excused = False                  # an injected fault / a foreign lock may make the call fail (unacknowledged, no effect)
        if op0[0] == "fault":
            op = op0[4]
            excused = op0[1] > 0 or op0[2]
        if locked and op[0] in ("create", "update", "delete"):
            excused = True
        if op0[0] == "lock":
            locked = r == "unit"
            continue
        if op0[0] == "unlock":
            locked = False
            continue
        if op0[0] == "freshall":
            continue                     # compared with the model in the correspondence; the property speaks of close + reopen
        if r == "!OperationalError" and op[0] != "reopen":
            if not excused:
                bad = "%s raised OperationalError although no fault was injected and nobody held the lock" % op[0]
            else:
                continue
        if bad:
            pass
        elif op[0] == "create":
            if not r.startswith("id "):
                bad = "create did not return an id: %s" % r
            else:
                n = int(r.split()[1])
                if (op[1], n) in ref:
                    bad = "create returned id %d already used by a live row of tag %r" % (n, op[1])
                ref[(op[1], n)] = op[2]
        elif op[0] == "update":
            if (op[1], op[3]) in ref:
                if r != "count 1":
                    bad = "update of a live row returned %s" % r
                ref[(op[1], op[3])] = op[2]
            elif r != "ValueError":
                bad = "update of a missing row was not an error: %s" % r
        elif op[0] == "delete":
            ref.pop((op[1], op[2]), None)
            if r != "unit":
                bad = "delete returned %s" % r
        elif op[0] == "read":
            want = "val " + vtok(ref[(op[1], op[2])]) if (op[1], op[2]) in ref else "val ~"
            if r != want:
                bad = "read(%r, %r) returned %s, expected %s" % (op[1], op[2], clip(r, 80), clip(want, 80))
        elif op[0] in ("readall", "readpaged"):
            items = sorted("%s:%s:%s" % (ttok(t), k, vtok(v)) for (t, k), v in ref.items() if op[1] is None or t == op[1])
            want = "rows " + " ".join(items)
            if r != want:
                df = rows_diff(r, want)
                if df:
                    bad = ("read_all(%s) returned %d rows, the live rows are %d; missing (tag:id:value) %s; unexpected %s"
                           % ("" if op[1] is None else repr(op[1]), df["rows_implementation"], df["rows_model"],
                              df["missing_in_implementation"], df["unexpected_in_implementation"]))
                else:
                    bad = "read_all returned %s" % clip(r, 120)
        if bad:
            if nfaults:
                bad += "  [history: %d call(s) hit an injected OperationalError / a foreign write lock, %d close+reopen]" % (nfaults, nreopen)
            return {"ops": [op_line(("readall", o[1]) if o[0] == "readpaged" else o) for o in ops[:i + 1]], "failure": bad}
    if hasattr(be, "unlock"):
        be.unlock()
    return None


def shrink(be, ops, budget_s):
    """delta debugging on a failing op list (every sub-list is a legal input of the oracle); returns the smallest failing list found"""
    t0 = time.time()
    hit = spec_oracle(be, ops)
    if not hit:
        return None
    cur = ops[:len(hit["ops"])]
    # coarse passes first: only the creates and the failing op; then without reads / reopens / updates / deletes
    for keep in (lambda o: o[0] == "create", lambda o: o[0] in ("create", "delete"), lambda o: o[0] in ("create", "fault", "reopen"),
                 lambda o: o[0] not in ("read", "readall", "readpaged", "freshall"), lambda o: o[0] not in ("lock", "unlock"),
                 lambda o: o[0] != "reopen", lambda o: o[0] != "update"):
        cand = [o for o in cur[:-1] if keep(o)] + [cur[-1]]
        if len(cand) < len(cur):
            h = spec_oracle(be, cand)
            if h:
                cur, hit = cand[:len(h["ops"])], h
    n = 2
    while len(cur) >= 2 and time.time() - t0 < budget_s:
        chunk = max(1, len(cur) // n)
        reduced = False
        for s in range(0, len(cur), chunk):
            cand = cur[:s] + cur[s + chunk:]
            if not cand:
                continue
            h = spec_oracle(be, cand)
            if h:
                cur = cand[:len(h["ops"])]
                hit = h
                n = max(n - 1, 2)
                reduced = True
                break
            if time.time() - t0 > budget_s:
                break
        if not reduced:
            if chunk == 1:
                break
            n = min(len(cur), n * 2)
    return hit


def search(be, tier, seed, vals, th_errors, bef=None):
    """find a concrete op list on which the map laws fail on the real SqliteStorage: short sequences first, then the fault programs
    (on the fault-capable backend `bef`), then the size-scaling programs; shrink it"""
    srng = rng_for(seed, "c09search")
    tried = {"short": 0, "short_tricky_tags": 0, "fault_programs": 0, "scaled": 0}
    hit = None
    hit_be = be
    for k in range(2000 if tier == "quick" else 20000):
        tricky = k % 3 == 2
        tags = pick_tags(srng, 4) if tricky else TAGS
        tried["short_tricky_tags" if tricky else "short"] += 1
        hit = spec_oracle(be, gen_ops(srng, srng.randint(2, 15), vals, tags))
        if hit:
            hit["found_by"] = "short random sequences" + (" over tricky tags" if tricky else "")
            break
    if not hit and bef is not None:
        try:
            for ops, meta in fault_plan(rng_for(seed, "c09search-faults"), tier):
                tried["fault_programs"] += 1
                hit = spec_oracle(bef, ops)
                if hit:
                    hit["found_by"] = "fault program %r" % (meta,)
                    hit_be = bef
                    break
        finally:
            if not hit:
                bef.uninstall()
    if not hit:
        for ops, meta in scaled_plan(rng_for(seed, "c09search-scaled"), tier, "sqlite"):
            tried["scaled"] += 1
            hit = spec_oracle(be, ops)
            if hit:
                hit["found_by"] = "size-scaling program %r" % (meta,)
                break
    if not hit and not th_errors:
        # nothing sequential fails: look for a race with many more, finer-grained thread schedules
        old_si = sys.getswitchinterval()
        sys.setswitchinterval(1e-5)
        try:
            for k in range(40 if tier == "quick" else 300):
                tried["threaded_runs"] = tried.get("threaded_runs", 0) + 1
                e, _n = threaded_stress(be, srng, 6, 80)
                if not e and k % 10 == 0:
                    e, _n, _s = threaded_bulk(be, srng, 800, 3)
                if e:
                    th_errors = e
                    break
        finally:
            sys.setswitchinterval(old_si)
    if hit:
        full = [parse_line(l) for l in hit["ops"]]
        try:
            small = shrink(hit_be, full, 10 if tier == "quick" else 60)
        finally:
            if hit_be is bef:
                bef.unlock()
                bef.uninstall()
        if small and len(small["ops"]) <= len(hit["ops"]):
            small["found_by"] = hit["found_by"]
            small["shrunk_from_ops"] = len(hit["ops"])
            hit = small
        hit["backend"] = "SqliteStorage"
        hit["ops_summary"] = summarize(hit["ops"], keep=20)
        hit["n_ops"] = len(hit["ops"])
        if hit_be is bef:
            hit["fault_injection"] = ("`fault N F K <op>`: during <op> the module's sqlite3 connection raises sqlite3.OperationalError from the "
                                      "next N execute calls (after K good ones) and, F = T, from fetchall; `lock` / `unlock`: a second connection "
                                      "holds BEGIN IMMEDIATE (busy timeouts of the code scaled down %dx); `freshall`: SELECT through a fresh "
                                      "sqlite3 connection (harness/c09_storage.py RealSqliteF)" % TIME_SCALE)
        hit["note"] = "value tokens: b<hex> bytes, p<n>_<k> = bytes(range(256)) repeated, n bytes starting at byte k, q<n>_<b> = n times byte b, " \
                      "i<int>, s<utf8 hex> str, f<float>; tag tokens: plain or @<code points>; replay with ./check C09 --replay <this file>"
    elif th_errors:
        hit = {"backend": "SqliteStorage", "failure": th_errors[0], "ops": "threaded stress (see harness/c09_storage.py threaded_stress / "
               "threaded_bulk): 6 threads with creates/updates/reads on own rows; 1 bulk writer + 3 read_all readers"}
    return hit, tried


# ---------------------------------------------------------------------------------------------------------------
# threads

def threaded_stress(be, rng, nthreads, nops):
    """creates/updates/reads from several threads, each on rows it created; no write may be lost."""
    be.reset()
    errors = []
    results = [None] * nthreads

    def worker(k):
        my = {}
        try:
            r = rng_for(k, "c09thread")
            for i in range(nops):
                tag = TAGS[k % len(TAGS)] if r.random() < 0.5 else "shared"
                if not my or r.random() < 0.4:
                    v = ("t%d-%d" % (k, i)).encode()
                    eid = be.st.create(tag, v)
                    if (tag, eid) in my:
                        errors.append("thread %d: create returned its own live id %s again" % (k, eid))
                    my[(tag, eid)] = v
                else:
                    (tag, eid) = r.choice(sorted(my))
                    if r.random() < 0.5:
                        v = ("u%d-%d" % (k, i)).encode()
                        be.st.update(tag, v, eid)
                        my[(tag, eid)] = v
                    else:
                        got = be.st.read(tag, eid)
                        if got != my[(tag, eid)]:
                            errors.append("thread %d: read(%s,%s) = %r, last write was %r" % (k, tag, eid, got, my[(tag, eid)]))
        except Exception as e:  # noqa
            errors.append("thread %d raised %r" % (k, e))
        results[k] = my

    ths = [threading.Thread(target=worker, args=(k,)) for k in range(nthreads)]
    for t in ths:
        t.start()
    for t in ths:
        t.join()
    allrows = {}
    for my in results:
        for key, v in (my or {}).items():
            if key in allrows:
                errors.append("two threads were given the same live id %r" % (key,))
            allrows[key] = v
    final = be.st.read_all()
    flat = {(t, k): v for t, d in final.items() for k, v in d.items()}
    if flat != allrows and not errors:
        missing = [k for k in allrows if k not in flat]
        errors.append("final table differs from the union of acknowledged writes; missing %r" % (missing[:3],))
    return errors, len(allrows)


def threaded_bulk(be, rng, nrows, nreaders):
    """one writer creates `nrows` rows of tag 'bulk' (rows of another tag sprinkled in, some own rows deleted again) while
    `nreaders` threads call read_all('bulk') / read_all(): every snapshot must contain every row whose create was acknowledged
    before the read began and whose delete had not begun when it ended, with the value written; no acknowledged-deleted row."""
    be.reset()
    errors = []
    ids = []                 # ids[i] = id of the i-th bulk row, appended after the create returned
    del_started = set()      # indexes whose delete has been issued
    del_done = set()
    done = threading.Event()
    other_p = rng.choice([0.0, 0.05, 0.125])
    wr = rng_for(rng.randrange(10 ** 9), "c09bulkw")
    snapshots = [0]

    def writer():
        try:
            for i in range(nrows):
                if wr.random() < other_p:
                    be.st.create("other", b"o%d" % i)
                ids.append(be.st.create("bulk", b"w%d" % i))
                if i > 50 and wr.random() < 0.04:
                    j = wr.randrange(i - 40)
                    if j not in del_started:
                        del_started.add(j)
                        be.st.delete("bulk", ids[j])
                        del_done.add(j)
        except Exception as e:  # noqa
            errors.append("bulk writer raised %r" % (e,))
        finally:
            done.set()

    def reader(k):
        try:
            last = False
            while True:
                fin = done.is_set()
                n0 = len(ids)
                gone_before = set(del_done)
                if k % 2:
                    snap = be.st.read_all("bulk")
                else:
                    snap = be.st.read_all().get("bulk", {})
                started_after = set(del_started)
                snapshots[0] += 1
                for i in range(n0):
                    eid = ids[i]
                    if i in gone_before:
                        if eid in snap and snap[eid] == b"w%d" % i:
                            errors.append("reader %d: row %d (id %s) was deleted before the read began but is in the snapshot" % (k, i, eid))
                            return
                    elif i not in started_after:
                        if snap.get(eid) != b"w%d" % i:
                            errors.append("reader %d: snapshot of %d rows misses the acknowledged row #%d (id %s): got %r; %d creates were "
                                          "acknowledged before the read began" % (k, len(snap), i, eid, snap.get(eid), n0))
                            return
                if last:
                    return
                if fin:
                    last = True
        except Exception as e:  # noqa
            errors.append("bulk reader %d raised %r" % (k, e))

    ths = [threading.Thread(target=writer)] + [threading.Thread(target=reader, args=(k,)) for k in range(nreaders)]
    for t in ths:
        t.start()
    for t in ths:
        t.join()
    final = be.st.read_all("bulk")
    want = {ids[i]: b"w%d" % i for i in range(len(ids)) if i not in del_done}
    if final != want and not errors:
        errors.append("after the bulk write read_all('bulk') has %d rows, %d were acknowledged and not deleted; missing ids %s"
                      % (len(final), len(want), sorted(set(want) - set(final))[:5]))
    return errors, len(ids), snapshots[0]


# ---------------------------------------------------------------------------------------------------------------
# the generated SQL-site table

def sql_sites_obligation():
    """regenerate Gen/SqlSites.lean from the repo under test, build Props/C09Sql.lean (kept outside the default import closure) and
    audit its theorems; everything under one lock.  -> (failures, n_rows, n_theorems, changed rows for the diagnosis)"""
    ob = load_obligations(PID)
    mods = ob.get("table_modules", [])
    thms = ob.get("table_theorems", [])
    os.makedirs(os.path.join(LEAN, ".lake"), exist_ok=True)
    with open(os.path.join(LEAN, ".lake", "c09sql.lock"), "w") as lk:
        fcntl.flock(lk, fcntl.LOCK_EX)
        try:
            sites, _changed = gen_sql_sites.generate(write=True)
            # which generated rows are not in the audited table (textual; diagnosis only, the verdict is Lean's)
            audited_src = open(os.path.join(LEAN, "Csverif", "Props", "C09Sql.lean"), encoding="utf8").read()
            new_rows = [{k: r[k] for k in ("method", "kind", "sql", "ctx", "inLoop", "underMutex", "hasLimit", "exitsBefore", "params")}
                        for r in sites if gen_sql_sites.render_row(r) not in audited_src]
            fails = []
            for m in mods:
                ok, log = lean_build_module(m)
                if not ok:
                    fails.append("%s no longer checks (the SQL-site table generated from the repo differs from the audited one): %s"
                                 % (m, log[-500:].replace("\n", " ")))
            if not fails:
                adir = os.path.join(LEAN, ".lake", "audit")
                os.makedirs(adir, exist_ok=True)
                fn = os.path.join(adir, "Audit_C09Sql_%d.lean" % os.getpid())
                with open(fn, "w") as f:
                    f.write("".join("import %s\n" % m for m in mods) + "".join("#print axioms %s\n" % t for t in thms))
                p = subprocess.run(["lake", "env", "lean", fn], cwd=LEAN, capture_output=True, text=True, timeout=1800)
                os.unlink(fn)
                out = p.stdout + p.stderr
                found = {}
                for m in re.finditer(r"'([^']+)' depends on axioms: \[([^\]]*)\]", out):
                    found[m.group(1)] = [a.strip() for a in m.group(2).replace("\n", " ").split(",") if a.strip()]
                for m in re.finditer(r"'([^']+)' does not depend on any axioms", out):
                    found[m.group(1)] = []
                for t in thms:
                    if t not in found:
                        fails.append("table theorem %s missing or does not check" % t)
                    elif [a for a in found[t] if a not in ALLOWED_AXIOMS]:
                        fails.append("table theorem %s depends on disallowed axioms %s" % (t, found[t]))
            return fails, len(sites), len(thms), new_rows
        finally:
            fcntl.flock(lk, fcntl.LOCK_UN)


# ---------------------------------------------------------------------------------------------------------------
# the check

def do_replay(res, path, sq):
    obj = json.load(open(path))
    f = obj.get("failing", obj)
    if not isinstance(f.get("ops"), list):
        print("REPLAY: %s has no op list (threaded finding)" % path)
        return
    ops = [parse_line(l) for l in f["ops"]]
    if any(o[0] in ("fault", "freshall", "lock", "unlock") for o in ops):
        sq.cleanup()
        sq = RealSqliteF()
    hit = spec_oracle(sq, ops)
    if hit:
        print("REPLAY: still fails on %s after %d ops: %s" % (REPO, len(hit["ops"]), hit["failure"]))
    else:
        print("REPLAY: the %d ops no longer fail on %s" % (len(ops), REPO))
    sys.stdout.flush()
    sq.cleanup()
    sys.exit(1 if hit else 0)          # a replay is not a check run: no evidence file is written


def run(res, tier, seed, proof_broken, replay):
    rng = rng_for(seed, "c09")
    vals = value_pool(rng)
    nseq, nlen = (300, 25) if tier == "quick" else (4000, 40)
    sq, mk = RealSqlite(), RealMock()
    sqf = RealSqliteF()
    opens, fixed = load_known_findings(PID)
    try:
        if replay:
            do_replay(res, replay, sq)
            return
        # 1b. the generated SQL-site table: regenerated, built and audited (two lake subprocesses) while the differential runs go on
        table_box = {}

        def table_job():
            t0 = time.time()
            try:
                table_box["r"] = sql_sites_obligation()
            except BaseException as e:  # noqa  (reported below, in the main thread)
                table_box["exc"] = e
            table_box["s"] = round(time.time() - t0, 1)
        table_thread = threading.Thread(target=table_job)
        table_thread.start()
        # 2. known findings (MockStorage fixture) and fixed entries, replayed on the real classes
        mk.reset()
        a = mk.st.create("t", b"7")
        mk.reopen()
        b = mk.st.create("t", b"8")
        if "mock-id-reuse-after-reopen" in opens:
            if a == b:
                res.known.append("mock-id-reuse-after-reopen :: " + opens["mock-id-reuse-after-reopen"])
            else:
                res.notes.append("known finding mock-id-reuse-after-reopen is stale")
        mk.reset()
        try:
            got = mk.st.read("t", 3)
            raised = False
        except ValueError:
            raised = True
        if "mock-read-missing-raises" in opens:
            if raised:
                res.known.append("mock-read-missing-raises :: " + opens["mock-read-missing-raises"])
            else:
                res.notes.append("known finding mock-read-missing-raises is stale")
        if "sqlite-read-returns-row-tuple" in fixed:
            sq.reset()
            i = sq.st.create("t", b"abc")
            if sq.st.read("t", i) != b"abc":
                res.violation({"property": PID, "kind": "regression of fixed finding", "id": "sqlite-read-returns-row-tuple",
                               "ops": ["create t b'abc'", "read t <id>"], "got": repr(sq.st.read("t", i))})
        # 3a. correspondence, short sequences (plain tags, then tricky tags)
        t0 = time.time()
        seqs = [gen_ops(rng, rng.randint(3, nlen), vals) for _ in range(nseq)]
        seqs += [gen_ops(rng, rng.randint(3, nlen), vals, pick_tags(rng, rng.choice([2, 3, 4]))) for _ in range(nseq // 2)]
        l1, r1, d1 = correspondence("sqlite", sq, seqs)
        l2, r2, d2 = correspondence("mockstorage", mk, seqs)
        t_short = time.time() - t0
        # 3b. correspondence, size-scaling programs
        t0 = time.time()
        st_sq, st_mk = ScaleStats(), ScaleStats()
        plan_sq = scaled_plan(rng_for(seed, "c09scaled-sqlite"), tier, "sqlite")
        plan_mk = scaled_plan(rng_for(seed, "c09scaled-mock"), tier, "mock")
        l3, r3, d3 = correspondence("sqlite", sq, [p[0] for p in plan_sq], stats=st_sq)
        l4, r4, d4 = correspondence("mockstorage", mk, [p[0] for p in plan_mk], stats=st_mk)
        t_scaled = time.time() - t0
        miss = st_sq.missing(CAP[tier])
        if miss and not (d3 or d1):
            raise HarnessError("the size-scaling generator did not reach every checkpoint size: %s" % "; ".join(miss))
        # 3d. fault injection against the connection-level model (reconnect path, foreign locks, fresh-connection reads)
        t0 = time.time()
        fplan = fault_plan(rng_for(seed, "c09faults"), tier)
        try:
            l5, r5, d5 = correspondence("sqliteconn", sqf, [p[0] for p in fplan])
        finally:
            sqf.unlock()
            sqf.uninstall()
        per_prog, cur = [], None
        for ln, r in zip(l5, r5):
            if ln == "reset":
                cur = []
                per_prog.append(cur)
            else:
                cur.append(r)
        fstats = fault_stats(fplan, per_prog)
        fstats.update({"injected_execute_errors": sqf.ctl.fired, "injected_fetchall_errors": sqf.ctl.fetch_fired,
                       "connections_made_by_the_object": sqf.ctl.connects, "executes_seen": sqf.ctl.executes,
                       "scheduled_faults_that_did_not_fire": sqf.ctl.unfired, "busy_timeout_scale": "1/%d" % TIME_SCALE,
                       "ops": len(l5), "rule": "faults = sqlite3.OperationalError raised by a proxy around the object's real connection at "
                       "the 1st (transient) or 1st and 2nd (persistent) execute of a call, or at fetchall; every position x kind of short base "
                       "programs, random repeated faults, windows in which a second real connection holds BEGIN IMMEDIATE, sampled positions "
                       "of size-scaling programs; every program goes on with acknowledged writes and ends with read_all through the object, "
                       "SELECT through a fresh connection, close+reopen, read_all, fresh SELECT"})
        t_faults = time.time() - t0
        if sqf.ctl.unfired and not d5:
            raise HarnessError("%d scheduled faults did not fire although model and implementation agree" % sqf.ctl.unfired)
        # 3c. threads
        t0 = time.time()
        th_errors, th_rows = [], 0
        for k in range(2 if tier == "quick" else 10):
            e, n = threaded_stress(sq, rng, 6, 60 if tier == "quick" else 300)
            th_errors += e
            th_rows += n
        bulk_rows = bulk_snaps = 0
        for k in range(2 if tier == "quick" else 8):
            e, n, s = threaded_bulk(sq, rng, rng.choice([1100, 1500, 2100]) if tier == "quick" else rng.choice([1100, 2100, 4200, 6000]), 3)
            th_errors += e
            bulk_rows += n
            bulk_snaps += s
        t_threads = time.time() - t0
        hist = {}
        for ln in l1 + l3:
            hist[ln.split()[0]] = hist.get(ln.split()[0], 0) + 1
        outcomes = {}
        for r in r1 + r2 + r3 + r4:
            k = r.split()[0]
            outcomes[k] = outcomes.get(k, 0) + 1
        distinct = len({(a, b) for a, b in zip(l1, r1) if a != "reset"} | {(a, b) for a, b in zip(l2, r2) if a != "reset"})
        fam = {}
        tagkinds = {}
        for _ops, meta in plan_sq:
            fam[meta["family"]] = fam.get(meta["family"], 0) + 1
            for t in meta["tags"]:
                tagkinds[ttok(t)] = tagkinds.get(ttok(t), 0) + 1
        res.coverage.update({
            "evaluations": len(l1) + len(l2) + len(l3) + len(l4) + len(l5), "programs": 2 * len(seqs) + len(plan_sq) + len(plan_mk) + len(fplan),
            "faults": fstats,
            "distinct_nontrivial": distinct,
            "rule": "random op sequences (create/update/delete/read/read_all/reopen) over 3 plain tags and over 2-4 tags drawn from "
                    "prefix / SQL-wildcard / quote / case-variant / unicode / empty tags, ids drawn from returned ids plus never-used ones "
                    "and None, values = empty/non-UTF-8/64KiB/100KB bytes, ints, strs, floats; each sequence on a fresh real SQLite file "
                    "with close+reopen, and on MockStorage; distinct = distinct (operation line, result) pairs of the short sequences; plus "
                    "the size-scaling programs described under `scaled`",
            "samples": [{"ops": l1[1:8], "results": r1[1:8]}],
            "disagreements_checked": len(d1) + len(d2) + len(d3) + len(d4) + len(d5),
            "op_histogram": hist, "result_histogram": outcomes, "threaded_runs": 2 if tier == "quick" else 10,
            "threaded_rows_checked": th_rows, "threaded_bulk": {"runs": 2 if tier == "quick" else 8, "rows_written": bulk_rows,
                                                                 "concurrent_read_all_snapshots_checked": bulk_snaps},
            "scaled": {
                "rule": "bulk programs: growth (create until the biggest tag holds N rows; tag pattern single / roundrobin / blocks / mostly-one / "
                        "random; deletes+updates interleaved with probability churn; read_all(tag) and read_all() whenever a live count "
                        "is a checkpoint size), shrink (N+d rows, d deleted as prefix / suffix / middle range / stride / random so that exactly "
                        "N stay), pointwise (reads/updates/deletes at ids ± powers of two, right id under the wrong tag), payload (0 B .. 64 KiB, "
                        "> 1 MiB in thorough); every program ends with read_all per tag and for all tags, close+reopen, the same again; "
                        "checkpoint sizes = " + ",".join(str(s) for s in SPECIAL if s <= CAP[tier]) + "; cap %d rows per tag" % CAP[tier],
                "programs_sqlite": len(plan_sq), "programs_mock": len(plan_mk), "families": fam, "ops_sqlite": len(l3), "ops_mock": len(l4),
                "read_all_calls": st_sq.readalls + st_mk.readalls, "largest_read_all_rows": st_sq.max_rows,
                "read_all_size_histogram_sqlite": {"read_all(tag)": st_sq.ordered(st_sq.sizes["tag"]), "read_all()": st_sq.ordered(st_sq.sizes["all"])},
                "read_all_size_histogram_sqlite_contiguous_ids": st_sq.ordered(st_sq.contig),
                "read_all_size_histogram_sqlite_gappy_ids": st_sq.ordered(st_sq.gappy),
                "read_all_size_histogram_mock": {"read_all(tag)": st_mk.ordered(st_mk.sizes["tag"]), "read_all()": st_mk.ordered(st_mk.sizes["all"])},
                "checkpoint_sizes_not_reached": miss,
                "payload_histogram": payload_hist([p[0] for p in plan_sq] + seqs), "tags_used": tagkinds,
                "model_paged_reader_calls": sum(1 for ln in l3 if ln.startswith("readpaged")),
                "sample_program": {"meta": plan_sq[2][1], "ops": summarize([op_line(o) for o in plan_sq[2][0]], keep=6)},
            },
            "seconds": {"short": round(t_short, 1), "scaled": round(t_scaled, 1), "faults": round(t_faults, 1), "threads": round(t_threads, 1)},
            "fingerprints": fingerprints(FP_SPEC),
        })
        res.assumptions += ["SQLite durability and per-statement atomicity (WAL, mutex) are trusted; in autocommit mode the model commits each statement at once",
                            "fault runs: the module-level name `sqlite3` of cloudsync.sync.sqlite_storage is replaced by a shim (pass-through "
                            "proxy that raises OperationalError on schedule and divides busy timeouts by %d); an injected error stands for a "
                            "statement that had no effect" % TIME_SCALE,
                            "OS thread schedules are sampled, not enumerated (partial)",
                            "the SQL-site extractor (tools/gen_sql_sites.py, syntactic) is trusted; SQLite's semantics of the audited statements "
                            "is the hand-written model, tied by the differential runs up to the tier's row cap"]
        table_thread.join()
        if "exc" in table_box:
            raise HarnessError("SQL-site table obligation could not be evaluated: %r" % (table_box["exc"],))
        table_fails, n_sites, n_table_thms, new_rows = table_box["r"]
        res.coverage["obligations"] = res.coverage.get("obligations", 0) + n_table_thms
        res.coverage["discharged"] = res.coverage.get("discharged", 0) + (0 if table_fails else n_table_thms)
        res.coverage["sql_site_table"] = {"rows": n_sites, "theorems": load_obligations(PID).get("table_theorems", []),
                                          "checks": not table_fails, "rows_not_in_audited_table": new_rows[:8], "seconds": table_box["s"]}
        broken = list(proof_broken) + table_fails
        dall = d1 + d2 + d3 + d4 + d5
        if dall:
            broken.append("correspondence storage-layer: %r" % (dall[0],))
        if th_errors:
            broken.append("threaded stress: " + th_errors[0])
        if broken:
            hit, tried = search(sq, tier, seed, vals, th_errors, bef=sqf)
            if hit:
                res.violation({"property": PID, "kind": "map law fails on implementation", "failing": hit,
                               "broken": [clip(b, 1500) for b in broken], "search": tried,
                               "sql_rows_not_in_audited_table": new_rows[:8]})
            else:
                res.violation({"property": PID, "kind": "proof obligation or correspondence no longer checks",
                               "broken": [clip(b, 1500) for b in broken], "search": tried,
                               "sql_rows_not_in_audited_table": new_rows[:8], "first_disagreements": dall[:3]}, no_input=True)
    finally:
        sq.cleanup()
        sqf.cleanup()


if __name__ == "__main__":
    standard_main(PID, run)
