"""C09 — storage backends as a tag-isolated durable map.
Correspondence: Lean Sqlite/Mock models vs SqliteStorage on a real temp file / MockStorage, random op sequences
with close+reopen; threaded stress checked against the no-lost-write corollary.
Search oracle: the map laws (reference dict) evaluated directly on the real backend."""
import os
import shutil
import sys
import tempfile
import threading

sys.path.insert(0, os.path.dirname(os.path.abspath(__file__)))
from common import *  # noqa

PID = "C09"
TAGS = ["ta", "tb", "cursor_tag"]
FP_SPEC = {"cloudsync/sync/sqlite_storage.py": ["SqliteStorage.create", "SqliteStorage.update", "SqliteStorage.delete",
                                                "SqliteStorage.read_all", "SqliteStorage.read", "SqliteStorage.__db_execute",
                                                "SqliteStorage.__db_connect", "SqliteStorage._ensure_table_exists"],
           "cloudsync/tests/fixtures/mock_storage.py": ["MockStorage.create", "MockStorage.update", "MockStorage.delete",
                                                        "MockStorage.read_all", "MockStorage.read"]}


class ValTable:
    """opaque tokens for values so that the model never inspects them"""
    def __init__(self):
        self.tok = {}
        self.vals = []

    def token(self, v):
        k = (type(v).__name__, v)
        if k not in self.tok:
            self.tok[k] = "v%d" % len(self.vals)
            self.vals.append(v)
        return self.tok[k]

    def back(self, v):
        k = (type(v).__name__, v)
        return self.tok.get(k, "?" + repr(v)[:40].replace(" ", "_"))


def value_pool(rng):
    return [b"", b"x", b"\xff\xfe\x00\x80", bytes(rng.getrandbits(8) for _ in range(300)), b"A" * 100000,
            0, 1, 17, -3, 2 ** 40, "cursor-abc", "", "é中", 1.5, b"x" * 2049, b"\x00"]


def gen_ops(rng, n, vals):
    ops = []
    known_ids = []
    for _ in range(n):
        r = rng.random()
        tag = rng.choice(TAGS)
        if known_ids and rng.random() < 0.75:
            eid = rng.choice(known_ids)
        else:
            eid = rng.choice([None, 0, 1, 2, 3, 5, 99, 10 ** 6])
        if r < 0.30:
            ops.append(("create", tag, rng.choice(vals)))
            known_ids.append(len([o for o in ops if o[0] == "create"]))  # plausible ids for both backends
            known_ids.append(len([o for o in ops if o[0] == "create"]) - 1)
        elif r < 0.50:
            ops.append(("update", tag, rng.choice(vals), eid))
        elif r < 0.62:
            ops.append(("delete", tag, eid))
        elif r < 0.80:
            ops.append(("read", tag, eid))
        elif r < 0.92:
            ops.append(("readall", rng.choice(TAGS + [None])))
        else:
            ops.append(("reopen",))
    return ops


def op_line(op, vt):
    e = lambda x: "~" if x is None else str(x)
    if op[0] == "create":
        return "create %s %s" % (op[1], vt.token(op[2]))
    if op[0] == "update":
        return "update %s %s %s" % (op[1], vt.token(op[2]), e(op[3]))
    if op[0] in ("delete", "read"):
        return "%s %s %s" % (op[0], op[1], e(op[2]))
    if op[0] == "readall":
        return "readall %s" % e(op[1])
    return op[0]


def canon_rows(line):
    if line.startswith("rows"):
        return "rows " + " ".join(sorted(line.split()[1:]))
    return line


class RealSqlite:
    def __init__(self):
        import_repo()
        from cloudsync.sync.sqlite_storage import SqliteStorage
        self.cls = SqliteStorage
        self.dir = tempfile.mkdtemp(prefix="c09_", dir="/dev/shm" if os.path.isdir("/dev/shm") else None)
        self.n = 0
        self.st = None

    def reset(self):
        if self.st:
            self.st.close()
        self.n += 1
        self.path = os.path.join(self.dir, "db%d.sqlite" % self.n)
        self.st = self.cls(self.path)

    def reopen(self):
        self.st.close()
        self.st = self.cls(self.path)

    def cleanup(self):
        try:
            if self.st:
                self.st.close()
        finally:
            shutil.rmtree(self.dir, ignore_errors=True)


class RealMock:
    def __init__(self):
        import_repo()
        from cloudsync.tests.fixtures.mock_storage import MockStorage
        self.cls = MockStorage

    def reset(self):
        self.d = {}
        self.st = self.cls(self.d)

    def reopen(self):
        self.st = self.cls(self.d)

    def cleanup(self):
        pass


def real_apply(be, op, vt):
    try:
        if op[0] == "create":
            return "id %d" % be.st.create(op[1], op[2])
        if op[0] == "update":
            return "count %d" % be.st.update(op[1], op[2], op[3])
        if op[0] == "delete":
            r = be.st.delete(op[1], op[2])
            return "unit" if r is None else "?delete-returned"
        if op[0] == "read":
            r = be.st.read(op[1], op[2])
            return "val ~" if r is None else "val " + vt.back(r)
        if op[0] == "readall":
            r = be.st.read_all(op[1]) if op[1] is not None else be.st.read_all()
            if op[1] is not None:
                items = ["%s:%s:%s" % (op[1], k, vt.back(v)) for k, v in r.items()]
            else:
                items = ["%s:%s:%s" % (t, k, vt.back(v)) for t, d in r.items() for k, v in d.items()]
            return "rows " + " ".join(sorted(items))
        if op[0] == "reopen":
            be.reopen()
            return "unit"
    except ValueError:
        return "ValueError"
    except Exception as e:  # noqa
        return "!" + type(e).__name__
    raise HarnessError("bad op")


def correspondence(layer, be, seqs, vt):
    lines, reals = [], []
    for ops in seqs:
        be.reset()
        lines.append("reset")
        reals.append("unit")
        for op in ops:
            lines.append(op_line(op, vt))
            reals.append(real_apply(be, op, vt))
    model = [canon_rows(x) for x in run_driver(layer, lines)]
    dis = []
    for i, (r, m) in enumerate(zip(reals, model)):
        if r != m:
            # locate the sequence start
            j = i
            while lines[j] != "reset":
                j -= 1
            dis.append({"layer": layer, "sequence": lines[j:i + 1], "implementation": r, "model": m})
            if len(dis) >= 5:
                break
    return lines, reals, dis


def spec_oracle(be, ops, mock_quirks=False):
    """the property itself on the real backend: reference dict semantics.  Returns failure dict or None."""
    ref = {}
    be.reset()
    vt = ValTable()
    for i, op in enumerate(ops):
        r = real_apply(be, op, vt)
        bad = None
        if op[0] == "create":
            if not r.startswith("id "):
                bad = "create did not return an id"
            else:
                n = int(r.split()[1])
                if (op[1], n) in ref:
                    bad = "create returned id %d already used by a live row of tag %s" % (n, op[1])
                ref[(op[1], n)] = op[2]
        elif op[0] == "update":
            if (op[1], op[3]) in ref:
                if r != "count 1":
                    bad = "update of a live row returned %s" % r
                ref[(op[1], op[3])] = op[2]
            elif r != "ValueError":
                bad = "update of a missing row was not an error: %s" % r
        elif op[0] == "delete":
            ref.pop((op[1], op[2]), None)
            if r != "unit":
                bad = "delete returned %s" % r
        elif op[0] == "read":
            want = "val " + vt.back(ref[(op[1], op[2])]) if (op[1], op[2]) in ref else "val ~"
            if r != want:
                bad = "read returned %s, expected %s" % (r, want)
        elif op[0] == "readall":
            items = sorted("%s:%s:%s" % (t, k, vt.back(v)) for (t, k), v in ref.items() if op[1] is None or t == op[1])
            if r != "rows " + " ".join(items):
                bad = "read_all returned %s, expected rows %s" % (r, " ".join(items))
        if bad:
            return {"ops": [op_line(o, vt) for o in ops[:i + 1]], "values": {vt.token(v): repr(v)[:60] for v in vt.vals}, "failure": bad}
    return None


def threaded_stress(be, rng, nthreads, nops):
    """creates/updates/reads from several threads, each on rows it created; no write may be lost."""
    be.reset()
    errors = []
    results = [None] * nthreads

    def worker(k):
        my = {}
        try:
            r = rng_for(k, "c09thread")
            for i in range(nops):
                tag = TAGS[k % len(TAGS)] if r.random() < 0.5 else "shared"
                if not my or r.random() < 0.4:
                    v = ("t%d-%d" % (k, i)).encode()
                    eid = be.st.create(tag, v)
                    if (tag, eid) in my:
                        errors.append("thread %d: create returned its own live id %s again" % (k, eid))
                    my[(tag, eid)] = v
                else:
                    (tag, eid) = r.choice(sorted(my))
                    if r.random() < 0.5:
                        v = ("u%d-%d" % (k, i)).encode()
                        be.st.update(tag, v, eid)
                        my[(tag, eid)] = v
                    else:
                        got = be.st.read(tag, eid)
                        if got != my[(tag, eid)]:
                            errors.append("thread %d: read(%s,%s) = %r, last write was %r" % (k, tag, eid, got, my[(tag, eid)]))
        except Exception as e:  # noqa
            errors.append("thread %d raised %r" % (k, e))
        results[k] = my

    ths = [threading.Thread(target=worker, args=(k,)) for k in range(nthreads)]
    for t in ths:
        t.start()
    for t in ths:
        t.join()
    allrows = {}
    for my in results:
        for key, v in (my or {}).items():
            if key in allrows:
                errors.append("two threads were given the same live id %r" % (key,))
            allrows[key] = v
    final = be.st.read_all()
    flat = {(t, k): v for t, d in final.items() for k, v in d.items()}
    if flat != allrows and not errors:
        missing = [k for k in allrows if k not in flat]
        errors.append("final table differs from the union of acknowledged writes; missing %r" % (missing[:3],))
    return errors, len(allrows)


def run(res, tier, seed, proof_broken, replay):
    rng = rng_for(seed, "c09")
    vals = value_pool(rng)
    nseq, nlen = (300, 25) if tier == "quick" else (4000, 40)
    sq, mk = RealSqlite(), RealMock()
    opens, fixed = load_known_findings(PID)
    try:
        # 2. known findings (MockStorage fixture) and fixed entries, replayed on the real classes
        mk.reset()
        a = mk.st.create("t", b"7")
        mk.reopen()
        b = mk.st.create("t", b"8")
        if "mock-id-reuse-after-reopen" in opens:
            if a == b:
                res.known.append("mock-id-reuse-after-reopen :: " + opens["mock-id-reuse-after-reopen"])
            else:
                res.notes.append("known finding mock-id-reuse-after-reopen is stale")
        mk.reset()
        try:
            got = mk.st.read("t", 3)
            raised = False
        except ValueError:
            raised = True
        if "mock-read-missing-raises" in opens:
            if raised:
                res.known.append("mock-read-missing-raises :: " + opens["mock-read-missing-raises"])
            else:
                res.notes.append("known finding mock-read-missing-raises is stale")
        if "sqlite-read-returns-row-tuple" in fixed:
            sq.reset()
            i = sq.st.create("t", b"abc")
            if sq.st.read("t", i) != b"abc":
                res.violation({"property": PID, "kind": "regression of fixed finding", "id": "sqlite-read-returns-row-tuple",
                               "ops": ["create t b'abc'", "read t <id>"], "got": repr(sq.st.read("t", i))})
        # 3. correspondence
        seqs = [gen_ops(rng, rng.randint(3, nlen), vals) for _ in range(nseq)]
        vt = ValTable()
        l1, r1, d1 = correspondence("sqlite", sq, seqs, vt)
        l2, r2, d2 = correspondence("mockstorage", mk, seqs, vt)
        th_errors, th_rows = [], 0
        for k in range(2 if tier == "quick" else 10):
            e, n = threaded_stress(sq, rng, 6, 60 if tier == "quick" else 300)
            th_errors += e
            th_rows += n
        hist = {}
        for ln in l1:
            hist[ln.split()[0]] = hist.get(ln.split()[0], 0) + 1
        outcomes = {}
        for r in r1 + r2:
            k = r.split()[0]
            outcomes[k] = outcomes.get(k, 0) + 1
        distinct = len({(a, b) for a, b in zip(l1, r1) if a != "reset"} | {(a, b) for a, b in zip(l2, r2) if a != "reset"})
        res.coverage.update({
            "evaluations": len(l1) + len(l2), "programs": 2 * nseq, "distinct_nontrivial": distinct,
            "rule": "random op sequences (create/update/delete/read/read_all/reopen) over 3 tags, ids drawn from returned ids "
                    "plus never-used ones and None, values = empty/non-UTF-8/100KB bytes, ints, strs, floats; each sequence on a fresh "
                    "real SQLite file with close+reopen, and on MockStorage; distinct = distinct (operation line, result) pairs",
            "samples": [{"ops": l1[1:8], "results": r1[1:8]}], "disagreements_checked": len(d1) + len(d2),
            "op_histogram": hist, "result_histogram": outcomes, "threaded_runs": 2 if tier == "quick" else 10,
            "threaded_rows_checked": th_rows, "fingerprints": fingerprints(FP_SPEC),
        })
        res.assumptions += ["SQLite durability and per-statement atomicity (WAL, mutex) are trusted; the model's reopen is the identity",
                            "OS thread schedules are sampled, not enumerated (partial)"]
        broken = list(proof_broken)
        if d1 or d2:
            broken.append("correspondence storage-layer: %r" % ((d1 + d2)[0],))
        if th_errors:
            broken.append("threaded stress: " + th_errors[0])
        if broken:
            hit = None
            srng = rng_for(seed, "c09search")
            for _ in range(2000 if tier == "quick" else 20000):
                hit = spec_oracle(sq, gen_ops(srng, srng.randint(2, 15), vals))
                if hit:
                    hit["backend"] = "SqliteStorage"
                    break
            if not hit and th_errors:
                hit = {"backend": "SqliteStorage", "failure": th_errors[0], "ops": "threaded stress: 6 threads, creates/updates/reads on own rows"}
            if hit:
                res.violation({"property": PID, "kind": "map law fails on implementation", "failing": hit, "broken": broken})
            else:
                res.violation({"property": PID, "kind": "proof obligation or correspondence no longer checks", "broken": broken,
                               "first_disagreements": (d1 + d2)[:3]}, no_input=True)
    finally:
        sq.cleanup()


if __name__ == "__main__":
    standard_main(PID, run)
