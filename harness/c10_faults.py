"""C10 — transient provider faults: survive, report, retry, still converge.

Lean side: Model/Spec/Faults.lean (exception hierarchy, notify_from_exception, the except clauses of the two managers and
of the loop, the punting work queue, the run monitor's verdicts), Props/C10.lean (theorems), Props/C10Tie.lean +
Gen/ExcTable.lean (generated table = audited table), Driver/MonC10.lean (layer `c10`).

What this harness does on every run:
  1. regenerates Gen/ExcTable.lean from the source tree (tools/gen_exc_table.py), rebuilds Props/C10Tie.lean and audits it;
  2. replays the known finding (a fault in the path lookup of SyncState.change leaves SyncManager.do unreported);
  3. (a) differential execution of the REAL classifier code against the model, for every exception class:
         issubclass, NotificationManager.notify_from_exception, SyncManager._sync_one_entry (pre_sync made to raise /
         return), SyncManager._validate_provider_roots, SyncManager.do with state.change raising, EventManager.do
         (events() / reconnect made to raise, with and without a notification manager), Runnable.run's classification;
     (b) trace refinement of the real engine under injected provider faults: for histories of the reliable families a
         fault-free run counts the engine-issued provider calls, then the same script is re-run with a fault
         (CloudTemporaryError, CloudDisconnectedError with reconnect semantics, CloudOutOfSpaceError, CloudTokenError)
         at sampled / all call indexes (one or two faults), the faults stop, the engine runs to quiescence; the Lean
         layer `c10` judges every injected fault (`fault`) and every other step (`esc`), the Lean monitors `c01`/`c02`/`c04`
         judge convergence / no loss / the fault-free outcome;
     (c) the scenario class "fault at the create/upload after the download, then another user edit before the retry";
     (d) permanently failing files (locked, invalid name): reported, set aside, others proceed, synced once unlocked,
         with the real selection of `SyncState.change` compared against the model's `pick`;
  4. if the audit, the tie or the differential broke and no run was rejected: the property's statements are evaluated
     on the implementation (`oracle`) to find a concrete failing input.
"""
import inspect
import io
import os
import random
import sys

sys.path.insert(0, os.path.dirname(os.path.abspath(__file__)))
from engine_checks import *  # noqa  (World, Recorder, families, monitor, ENGINE_FP, ALL, OID_LOCAL, ...)
sys.path.insert(0, os.path.join(VERIF, "tools"))
import gen_exc_table  # noqa

PID = "C10"

# every engine instance makes (and removes) a temp directory; on this machine rmdir under /tmp costs ~0.3 s, so the
# temp root is moved to a private directory on /dev/shm that is removed at exit
import atexit      # noqa
import shutil      # noqa
import tempfile    # noqa
if os.path.isdir("/dev/shm") and os.access("/dev/shm", os.W_OK):
    _TMP = tempfile.mkdtemp(prefix="c10_", dir="/dev/shm")
    tempfile.tempdir = _TMP
    atexit.register(shutil.rmtree, _TMP, True)
FP_SPEC = {"cloudsync/sync/manager.py": ["SyncManager._sync_one_entry", "SyncManager._validate_provider_roots", "SyncManager.do",
                                         "SyncManager.handle_file_name_error", "SyncManager.handle_cloud_file_not_found_error",
                                         "SyncManager.upload_synced", "SyncManager._create_synced", "SyncManager.create_synced",
                                         "SyncManager.download_changed", "SyncManager.make_temp_file"],
           "cloudsync/event.py": ["EventManager.do", "EventManager._reconnect_if_needed", "EventManager._do_unsafe"],
           "cloudsync/notification.py": ["NotificationManager.notify_from_exception", "NotificationManager.do"],
           "cloudsync/runnable.py": ["Runnable.run"],
           "cloudsync/sync/state.py": ["SyncEntry.punt", "SyncState.change"]}
FAULT_KINDS = ("CloudTemporaryError", "CloudDisconnectedError", "CloudOutOfSpaceError", "CloudTokenError")
API = ("create", "upload", "rename", "delete", "mkdir", "download", "info_oid", "info_path", "exists_oid", "exists_path",
       "hash_oid", "listdir", "walk", "walk_oid", "events", "get_quota")
STREAMS = ("events", "walk", "walk_oid", "listdir")     # generator calls: a fault may also hit after the first item
CLOUD_NAMES = ("CloudException", "CloudFileNotFoundError", "CloudTemporaryError", "CloudFileNameError", "CloudOutOfSpaceError",
               "CloudRootMissingError", "CloudResourceModifiedError", "CloudFileExistsError", "CloudTokenError",
               "CloudDisconnectedError", "CloudCursorError", "CloudNamespaceError", "CloudTooManyRetriesError", "CloudCorruptError")
# the property's own table: which listed condition must be reported under which kind (used by the step-4 oracle only)
MATCHING = {"CloudTemporaryError": "TEMPORARY_ERROR", "CloudResourceModifiedError": "TEMPORARY_ERROR",
            "CloudOutOfSpaceError": "OUT_OF_SPACE_ERROR", "CloudDisconnectedError": "DISCONNECTED_ERROR",
            "CloudFileNameError": "FILE_NAME_ERROR", "CloudNamespaceError": "NAMESPACE_ERROR"}


def wire_cls(c):
    """class -> the name the Lean layer knows it by"""
    if c is None:
        return "none"
    n = c.__name__
    if n in CLOUD_NAMES or n in ("Exception", "BaseException", "_BackoffError"):
        return n
    if getattr(c, "__module__", "").startswith("cloudsync"):
        return n                      # a class the model does not know: the driver answers bad-arg => disagreement
    return "OtherException" if issubclass(c, Exception) else "OtherBase"


def all_classes():
    import_repo()
    import cloudsync.exceptions as ex
    from cloudsync.runnable import _BackoffError
    out = [BaseException, Exception, _BackoffError, ValueError, KeyboardInterrupt]
    for n in sorted(vars(ex)):
        c = getattr(ex, n)
        if isinstance(c, type) and issubclass(c, BaseException) and c.__module__ == ex.__name__:
            out.append(c)
    return out


def drain_notifications(w):
    """deliver what is queued through the real NotificationManager.do; returns the new notifications"""
    before = len(w.notifications)
    nm = w.cs.nmgr
    q = nm._NotificationManager__queue
    nm._run_until = lambda: False
    guard = 0
    while not q.empty() and guard < 1000:
        nm.do()
        guard += 1
    return w.notifications[before:]


def note_tok(n):
    return "%s:%s" % (n.source.name, n.ntype.name)


# ================================================================================================ 1. the table tie

def table_tie(res):
    """regenerate the table, then build + audit the tie theorem (common.audit builds the modules an obligations file
    lists, so the module that depends on the generated table is rebuilt here and nowhere else); returns breakages"""
    changed, unmapped = gen_exc_table.write()
    aud = audit("C10Tie")
    broken = []
    info = {"regenerated": True, "changed_since_last_run": changed, "unmapped": unmapped, "tie_checks": not aud["failures"]}
    res.coverage["obligations"] = res.coverage.get("obligations", 0) + aud["obligations"]
    res.coverage["discharged"] = res.coverage.get("discharged", 0) + aud["discharged"]
    res.coverage["theorems"] = list(res.coverage.get("theorems", [])) + aud.get("theorems", [])
    if aud["failures"]:
        src, _ = gen_exc_table.generate()
        info["generated"] = [l for l in src.split("\n") if l.startswith("def ")]
        broken.append("generated exception table (Gen/ExcTable.lean) no longer equals the audited table: theorem "
                      "CS.Faults.gen_table_eq_audited does not check; unmapped=%s; %s" % (unmapped, "; ".join(f[-700:] for f in aud["failures"][:2])))
    res.coverage["exception_table"] = info
    return broken


# ================================================================================================ 3a. differential

def _stepout(notes, punts, commits, cursor, walk, auth, raised, forgot=False):
    return "notes=%s punts=%d commits=%d cursor=%s walk=%s forgot=%s auth=%s raised=%s" % (
        ",".join(notes) if notes else "-", punts, commits, enc_bool(cursor), enc_bool(walk), enc_bool(forgot), enc_bool(auth), raised)


class _Probe:
    """a real engine (World) whose classifier functions are exercised in isolation"""
    def __init__(self):
        self.w = World("oid-oid")
        w = self.w
        rec = Recorder(w, random.Random(7))
        rec.user(0, "create", "/a", tag=1)
        for x in "LRLR":
            w.step(x)
        self.smgr = w.cs.smgr
        self.commits = 0
        orig = self.smgr.state.storage_commit

        def counting():
            self.commits += 1
            return orig()
        self.smgr.state.storage_commit = counting
        drain_notifications(w)
        ents = list(self.smgr.state.changes)
        if not ents:
            raise HarnessError("probe world has no pending entry")
        self._entry = ents[0]
        self._changed = (ents[0][0].changed, ents[0][1].changed)
        self.dropped = []          # inputs after which the failing entry had left the change set

    def entry(self):
        e = self._entry
        # re-arm the entry if a (mutated) handler dropped it, so that every class is still exercised
        if e not in list(self.smgr.state.changes):
            e[0].changed, e[1].changed = self._changed
        return e

    def call(self, fn):
        self.commits = 0
        self.w.by = "engine"
        raised = None
        ret = None
        try:
            ret = fn()
        except BaseException as e:  # noqa
            raised = type(e)
        finally:
            self.w.by = "user"
        notes = [n.ntype.name for n in drain_notifications(self.w)]
        return ret, raised, notes

    def sync_one(self, inner):
        """inner: ('raised', cls) | ('returned', a, b)"""
        smgr, sync = self.smgr, self.entry()
        p0 = sync.priority
        if inner[0] == "raised":
            def pre(_s):
                raise inner[1]("scripted")
            smgr.pre_sync = pre
        else:
            smgr.pre_sync = lambda _s: inner[1]
            smgr.sync = lambda _s: inner[2]
        try:
            ret, raised, notes = self.call(lambda: smgr._sync_one_entry(sync))
        finally:
            for a in ("pre_sync", "sync"):
                if a in smgr.__dict__:
                    delattr(smgr, a)
        punts = int(round(sync.priority - p0))
        sync.priority = p0
        if inner[0] == "raised" and sync not in list(smgr.state.changes):
            self.dropped.append(wire_cls(inner[1]))
        return _stepout(notes, punts, self.commits, False, False, False, wire_cls(raised)) + " done=" + enc_bool(bool(ret))

    def roots(self, cls):
        smgr = self.smgr
        smgr._root_validated = [False, True]
        p = self.w.provs[0]
        saved = p.__dict__.get("set_root")

        def boom(*a, **kw):
            raise cls("scripted")
        p.set_root = boom
        try:
            _ret, raised, notes = self.call(smgr._validate_provider_roots)
        finally:
            if saved is None:
                del p.set_root
            else:
                p.set_root = saved
            smgr._root_validated = [True, True]
        return _stepout(notes, 0, self.commits, False, False, False, wire_cls(raised))

    def change(self, cls):
        smgr = self.smgr
        st = smgr.state

        def boom(_age):
            raise cls("scripted")
        st.change = boom
        p0 = [e.priority for e in st.changes]
        try:
            _ret, raised, notes = self.call(smgr.do)
        finally:
            del st.change
        punts = int(round(sum(e.priority for e in st.changes) - sum(p0)))
        return _stepout(notes, punts, self.commits, False, False, False, wire_cls(raised))

    def event(self, cls, has_nmgr, where):
        w = self.w
        em = w.cs.emgrs[1]
        p = w.provs[1]
        saved_nm = em._EventManager__nmgr
        if not has_nmgr:
            em._EventManager__nmgr = None
        em.need_auth = False
        em.need_walk = False
        # make "cursor was reset to the latest" observable
        self.seq = getattr(self, "seq", 0) + 1
        w.user(1, "mkdir", "/remote/zz%d" % self.seq)
        before_cursor = p.current_cursor
        if em._walk_tag is not None:
            em.state.storage_update_data(em._walk_tag, 1.0)      # a walk marker is on record

        def boom(*a, **kw):
            raise cls("scripted")
        attr = "events" if where == "events" else "reconnect"
        saved = p.__dict__.get(attr)
        if where == "reconnect":
            p.disconnect()
        setattr(p, attr, boom)
        try:
            _ret, raised, notes = self.call(em.do)
        finally:
            if saved is None:
                delattr(p, attr)
            else:
                setattr(p, attr, saved)
            if where == "reconnect":
                p.reconnect()
            em._EventManager__nmgr = saved_nm
        cursor_reset = p.current_cursor == p.latest_cursor and p.current_cursor != before_cursor and em.cursor == p.latest_cursor
        forgot = em._walk_tag is not None and em.state.storage_get_data(em._walk_tag) is None
        out = _stepout(notes, 0, 0, cursor_reset, bool(em.need_walk), bool(em.need_auth), wire_cls(raised), forgot=forgot)
        em.need_auth = False
        em.need_walk = False
        if em._walk_tag is not None:
            em.state.storage_update_data(em._walk_tag, 1.0)
        for _ in range(3):
            w.step("R")
        drain_notifications(w)
        return out

    def close(self):
        self.w.close()


def real_loop(cls, got_done):
    """one iteration of the real Runnable.run; returns S (cleared) / N (kept) / I (incremented)"""
    import_repo()
    from cloudsync.runnable import Runnable

    class Svc(Runnable):
        def do(self_):
            if cls is not None:
                raise cls("scripted")
            if not got_done:
                self_.nothing_happened()
    s = Svc()
    s.min_backoff, s.max_backoff, s.mult_backoff, s.in_backoff = 0.1, 10.0, 2.0, 0.5
    s.run(until=lambda: True, sleep=0)
    return {0: "S", 0.5: "N", 1.0: "I"}.get(s.in_backoff, "?%r" % s.in_backoff)


def differential():
    """returns (lines, real_outputs, disagreements, distribution)"""
    import_repo()
    from cloudsync.notification import NotificationManager, SourceEnum
    classes = all_classes()
    lines, real = [], []
    # issubclass
    for a in classes:
        for b in classes:
            lines.append("sub %s %s" % (wire_cls(a), wire_cls(b)))
            real.append(enc_bool(issubclass(a, b)))
    # notify_from_exception on a bare NotificationManager
    for c in classes:
        got = []
        nm = NotificationManager(got.append)
        nm.notify_from_exception(SourceEnum.SYNC, c("x"))
        q = nm._NotificationManager__queue
        nm._run_until = lambda: False
        while not q.empty():
            nm.do()
        lines.append("nfe %s" % wire_cls(c))
        real.append(got[0].ntype.name if got else "none")
        if len(got) > 1:
            real[-1] = "+".join(g.ntype.name for g in got)
    pr = _Probe()
    try:
        for c in classes:
            lines.append("sync raised %s" % wire_cls(c))
            real.append(pr.sync_one(("raised", c)))
        for a in (False, True):
            for b in (False, True):
                lines.append("sync returned %s %s" % (enc_bool(a), enc_bool(b)))
                real.append(pr.sync_one(("returned", a, b)))
        for c in classes:
            lines.append("roots %s" % wire_cls(c))
            real.append(pr.roots(c))
            lines.append("change %s" % wire_cls(c))
            real.append(pr.change(c))
        for c in classes:
            for has_nmgr in (True, False):
                for where in ("events", "reconnect"):
                    lines.append("event %s %s" % (enc_bool(has_nmgr), wire_cls(c)))
                    real.append(pr.event(c, has_nmgr, where))
        dropped = list(pr.dropped)
    finally:
        pr.close()
    for c in [None] + classes:
        for g in (False, True):
            if c is not None and g:
                continue
            lines.append("loop %s %s" % (enc_bool(g), wire_cls(c)))
            real.append(real_loop(c, g))
    model = run_driver("c10", lines)
    dis = []
    for ln, r, m in zip(lines, real, model):
        if ln.startswith("loop "):
            m = {"S": "S", "N": "N", "B": "I", "E": "I", "X": "I"}.get(m, m)
        if r != m:
            dis.append({"layer": "classifier", "line": ln, "real": r, "model": m})
    for c in dropped:
        dis.append({"layer": "classifier", "line": "sync raised %s" % c, "real": "the failing entry left the change set (dropped)",
                    "model": "the failing entry is punted and stays queued"})
    dist = {}
    for ln in lines:
        dist[ln.split()[0]] = dist.get(ln.split()[0], 0) + 1
    return lines, real, dis, dist


# ================================================================================================ 3b. faulted runs

class Fault:
    __slots__ = ("index", "side", "method", "kind", "variant", "site", "step", "target")

    def __init__(self, **kw):
        for k in self.__slots__:
            setattr(self, k, kw.get(k))

    def brief(self):
        return "#%s %s.%s %s%s site=%s step=%s" % (self.index, "LR"[self.side], self.method, self.kind,
                                                  "/" + self.variant if self.variant else "", self.site, self.step)


class StepRec:
    __slots__ = ("which", "escaped", "notes", "faults", "loop", "backoff_after", "known_site")

    def __init__(self, which):
        self.which, self.escaped, self.notes, self.faults, self.loop, self.backoff_after = which, None, [], [], False, None
        self.known_site = None


class FaultWorld:
    """a World whose provider API is wrapped so that the k-th engine-issued call (top level, inside a service step)
    can be made to raise; service steps are recorded with what escaped them and the notifications they caused"""
    def __init__(self, flavour, storage="mock", loop_mode=False, hash2=False):
        self.w = World(flavour, storage=storage)
        if hash2:
            # the two providers use different hash functions (as two real clouds do)
            import hashlib
            self.w.provs[1]._hash_func = lambda data: hashlib.sha1(data).hexdigest()
        self.depth = 0
        self.n = 0                 # engine-issued API calls so far
        self.in_step = False
        self.plan = {}             # call index -> (kind, variant)
        self.stopped = False
        self.sigs = []             # (index, side, method, site, caller) for every counted call
        self.injected = []
        self.armed = []            # mid-stream faults armed but not (yet) raised
        self.steps = []
        self.cur = None
        self.loop_mode = loop_mode
        self.on_fault = None       # callable(fault) after the step in which it fired
        self.trouble = []          # loop-mode anomalies
        self.force_site = None
        self.forced = None
        self.last_site = None
        self.known_site_escapes = 0
        self.kids_site_failures = 0
        self._wrap()
        drain_notifications(self.w)

    # ---- provider wrapping
    def _wrap(self):
        fw = self
        for side, p in enumerate(self.w.provs):
            for m in API:
                if not hasattr(p, m):
                    continue
                inner = getattr(p, m)

                def outer(*a, _inner=inner, _m=m, _side=side, _p=p, **kw):
                    variant = None
                    top = fw.in_step and fw.w.by == "engine" and fw.depth == 0
                    if top:
                        variant = fw._on_call(_side, _m, a, _p)
                    fw.depth += 1
                    try:
                        r = _inner(*a, **kw)
                    except BaseException as e:  # noqa
                        if top and fw.last_site == "K" and fw.cur is not None:
                            fw.kids_site_failures += 1
                        if top and fw.last_site == "C" and fw.cur is not None:
                            # a provider call made by the path lookup of SyncState.change failed on its own (e.g. the
                            # provider is disconnected): the known finding's call site
                            fw.cur.known_site = type(e)
                        raise
                    finally:
                        fw.depth -= 1
                    if inspect.isgenerator(r):
                        # what a provider's own generator does while it is being iterated (MockProvider.events walking a
                        # folder that appeared in the root, walk_oid listing sub-folders) is provider-internal, not an
                        # engine-issued call: keep the depth raised during every next()
                        r = fw._guarded(r)
                    if variant is not None:
                        return fw._mid_stream(r, variant)
                    return r
                setattr(p, m, outer)

    def _site(self):
        f = sys._getframe(3)          # _site <- _on_call <- outer <- the engine's calling frame
        caller = None
        site = "?"
        for _ in range(40):
            if f is None:
                break
            name, fn = f.f_code.co_name, f.f_code.co_filename
            if caller is None and not fn.endswith(("mock.py", "provider.py", "c10_faults.py", "engine.py")):
                caller = name
            if fn.endswith("state.py") and name == "_update_kids":
                site = "K"            # the online child lookup of a folder rename on a path-id provider (known finding)
                break
            if fn.endswith("manager.py") and name == "_sync_one_entry":
                site = "S"
                break
            if fn.endswith("state.py") and name == "change":
                site = "C"
                break
            if fn.endswith("manager.py") and name == "_validate_provider_roots":
                site = "V"
                break
            if fn.endswith("event.py") and name == "do":
                site = "E%d" % f.f_locals["self"].side
                break
            f = f.f_back
        return site, caller

    def _on_call(self, side, m, a, prov):
        k = self.n
        self.n += 1
        site, caller = self._site()
        self.last_site = site
        self.sigs.append((k, side, m, site, caller))
        if self.force_site and site == self.force_site[0] and (len(self.force_site) < 3 or self.cur.which in self.force_site[2]):
            # used only by the exact replay of the known finding
            import cloudsync.exceptions as ex
            kind = self.force_site[1]
            self.force_site = None
            self.forced = (side, m, site)
            raise getattr(ex, kind)("injected at site %s" % site)
        if self.stopped or k not in self.plan:
            return None
        kind, variant = self.plan.pop(k)
        if site not in ("S", "E0", "E1"):
            # by construction no fault is injected into the unguarded lookup of SyncState.change (known finding) nor
            # outside a manager step: the fault moves to the next call
            j = k + 1
            while j in self.plan:
                j += 1
            self.plan[j] = (kind, variant)
            return None
        flt = Fault(index=k, side=side, method=m, kind=kind, variant=variant, site=site, step=len(self.steps),
                    target=a[0] if a else None)
        if variant == "mid" and m in STREAMS:
            # only ARMED here: it counts as injected at the moment it is really raised (`_raise`).  If the consumer stops
            # iterating first (another fault, an exception while the first item is processed) it is never raised and
            # therefore never judged
            self.armed.append(flt)
            return flt
        self._raise(flt, prov)

    def _raise(self, flt, prov):
        import cloudsync.exceptions as ex
        if flt not in self.injected:
            flt.step = len(self.steps)          # the step in which it is really raised
            self.injected.append(flt)
            if self.cur is not None:
                self.cur.faults.append(flt)
        if flt in self.armed:
            self.armed.remove(flt)
        if flt.kind == "CloudDisconnectedError" or (flt.kind == "CloudTokenError" and flt.variant == "expired"):
            prov.disconnect()          # the connection is gone until somebody reconnects
        raise getattr(ex, flt.kind)("injected fault %s" % flt.brief())

    def _guarded(self, gen):
        def g():
            while True:
                self.depth += 1
                try:
                    ev = next(gen)
                except StopIteration:
                    return
                finally:
                    self.depth -= 1
                yield ev
        return g()

    def _mid_stream(self, gen, flt):
        prov = self.w.provs[flt.side]

        def g():
            # deliver the first event, then fail WITHOUT pulling a second one out of the provider (that would lose it)
            it = iter(gen)
            try:
                ev = next(it)
            except StopIteration:
                self._raise(flt, prov)
            yield ev
            self._raise(flt, prov)
        return g()

    # ---- stepping
    def step(self, which):
        w = self.w
        w.clock.advance(0.01)
        mgr = {"L": w.cs.emgrs[0], "R": w.cs.emgrs[1], "S": w.cs.smgr}[which]
        rec = StepRec(which)
        self.cur = rec
        w.by = "engine"
        self.in_step = True
        try:
            if self.loop_mode:
                rec.loop = True
                orig = mgr.do

                def capture():
                    try:
                        return orig()
                    except BaseException as e:  # noqa
                        rec.escaped = type(e)
                        raise
                mgr.do = capture
                try:
                    mgr.run(until=lambda: True, sleep=0)
                except BaseException as e:  # noqa
                    self.trouble.append("the service loop itself raised %r in step %d (%s)" % (e, len(self.steps), which))
                finally:
                    del mgr.do
                rec.backoff_after = mgr.in_backoff
                if rec.escaped is not None and not mgr.in_backoff > 0:
                    self.trouble.append("the service loop did not back off after %s escaped do() in step %d" % (rec.escaped.__name__, len(self.steps)))
            else:
                try:
                    mgr.do()
                except BaseException as e:  # noqa
                    rec.escaped = type(e)
        finally:
            w.by = "user"
            self.in_step = False
        rec.notes = [note_tok(n) for n in drain_notifications(w)]
        self.steps.append(rec)
        if rec.faults and self.on_fault:
            for f in list(rec.faults):
                self.on_fault(f)
        return rec

    def busy(self):
        try:
            return self.w.busy()
        except Exception:  # noqa  (a disconnected provider raises from events())
            return True

    def quiesce(self, rng, cap=600):
        quiet_rounds, n = 0, 0
        while n < cap:
            seq = list("LRS")
            rng.shuffle(seq)
            for x in seq:
                self.step(x)
                n += 1
            if not self.busy():
                quiet_rounds += 1
                if quiet_rounds >= 2:
                    return True
            else:
                quiet_rounds = 0
        return False

    def close(self):
        self.w.close()


class Script:
    """a history as data: user-operation attempts, engine steps and quiescence points, replayable under faults"""
    def __init__(self, flavour, family, storage="mock"):
        self.flavour, self.family, self.storage = flavour, family, storage
        self.items = []          # ("U", side, kind, rels, data) | ("E", which) | ("Q",) | ("MARK", name)
        self.origin = None       # for one-sided scripts: the side the user works on
        self.dir_rename_with_kids = False
        self.hash2 = False       # remote provider hashes with sha1 instead of md5

    def to_json(self):
        return {"flavour": self.flavour, "family": self.family, "storage": self.storage, "origin": self.origin, "hash2": self.hash2,
                "items": [[it[0], it[1], it[2], list(it[3]), it[4].decode("latin1") if it[4] is not None else None] if it[0] == "U" else list(it)
                          for it in self.items]}

    @staticmethod
    def from_json(d):
        sc = Script(d["flavour"], d["family"], d.get("storage", "mock"))
        sc.origin = d.get("origin")
        sc.hash2 = bool(d.get("hash2"))
        for it in d["items"]:
            if it[0] == "U":
                sc.items.append(("U", it[1], it[2], tuple(it[3]), it[4].encode("latin1") if it[4] is not None else None))
            else:
                sc.items.append(tuple(it))
        return sc

    def brief(self):
        out = []
        for it in self.items:
            if it[0] == "U":
                out.append("U%d:%s:%s%s" % (it[1], it[2], ",".join(it[3]), (":" + it[4].decode("latin1")) if it[4] is not None else ""))
            elif it[0] == "E":
                out.append(it[1])
            else:
                out.append(it[0] if it[0] != "MARK" else "@" + it[1])
        return out


class ScriptRecorder(Recorder):
    """the stock Recorder, additionally writing the Script (quiescence becomes one replayable marker)"""
    def __init__(self, world, rng, script):
        super().__init__(world, rng)
        self.script = script
        self.spell_roots = False     # root spelling is drawn from the rng at replay time otherwise
        self._in_q = False

    def engine(self, which, watch_side=None):
        if not self._in_q:
            self.script.items.append(("E", which))
        return super().engine(which, watch_side)

    def quiesce(self, cap=400, watch_side=None):
        self.script.items.append(("Q",))
        self._in_q = True
        try:
            return super().quiesce(cap, watch_side)
        finally:
            self._in_q = False

    def user(self, side, kind, *rels, tag=None):
        # only ACCEPTED operations enter the script: an attempt the generator filtered out (reuse of a freed name, see
        # Recorder.freed) or the provider rejected must not be replayed — the families follow an operation by quiescence
        # only when it was accepted, so replaying a filtered one would put two operations next to each other
        kids = False
        if kind == "rename":
            t = self.w.tree(side)
            kids = rels[0] in t and t[rels[0]][0] == "d" and any(k.startswith(rels[0] + "/") for k in t)
        ok = super().user(side, kind, *rels, tag=tag)
        if ok:
            self.script.items.append(("U", side, kind, tuple(rels), content(tag) if tag is not None else None))
            if kids:
                self.script.dir_rename_with_kids = True
        return ok


class Replay:
    """executes a Script on a FaultWorld; keeps the ledger and the per-side accepted operations"""
    def __init__(self, fw, script, seed):
        self.fw, self.script = fw, script
        self.seed = seed
        self.rng = random.Random(seed)
        self.ledger = []
        self.ops = []                 # accepted (side, kind, rels..., tag?)
        self.base = None              # origin tree at the mark "ops"
        self.quiet = True
        self.extra_edits = []

    def user(self, side, kind, rels, data):
        w = self.fw.w
        t = w.tree(side)
        killed = None
        if kind in ("write", "delete") and rels[0] in t and t[rels[0]][0] == "f":
            killed = tag_of(t[rels[0]][1])
        args = [w.roots[side] + r for r in rels]
        if kind in ("create", "write"):
            args.append(data)
        err = w.user(side, kind, *args)
        if err:
            return False
        tag = tag_of(data) if data is not None else None
        self.ops.append((side, kind) + tuple(rels) + ((tag,) if tag is not None else ()))
        if kind == "create":
            self.ledger.append("W:%d:~" % tag)
        elif kind == "write":
            self.ledger.append("W:%d:%s" % (tag, "~" if killed is None else killed))
        elif kind == "delete" and killed is not None:
            self.ledger.append("D:%d" % killed)
        return True

    def run(self, final_cap=900):
        fw = self.fw
        for it in self.script.items:
            if it[0] == "U":
                self.user(it[1], it[2], it[3], it[4])
            elif it[0] == "E":
                fw.step(it[1])
            elif it[0] == "Q":
                if not fw.quiesce(self.rng):
                    self.quiet = False
            elif it[0] == "MARK" and it[1] == "ops":
                self.base = fw.w.tree(self.script.origin if self.script.origin is not None else 0)
                self.ops = []
        fw.stopped = True            # the faults stop
        self.quiet = fw.quiesce(self.rng, cap=final_cap)
        return self.quiet


def replay_seed(seed):
    return seed * 7919 + 1


def make_script(flavour, family, seed, salt, storage="mock"):
    """generate a history of one of the reliable families in a fault-free world; returns (script, n_calls, sigs) or None"""
    rng = random.Random((seed * 1000003) ^ hash_str("c10" + salt + flavour + family))
    sc = Script(flavour, family, storage)
    sc.hash2 = rng.random() < 0.25
    fw = FaultWorld(flavour, storage, hash2=sc.hash2)
    ok = True
    try:
        rec = ScriptRecorder(fw.w, rng, sc)
        fw.in_step = False

        # count calls during recording too: the recorder steps through World.step, so count there
        orig_step = fw.w.step

        def counted_step(which, dt=0.01):
            fw.in_step = True
            try:
                return orig_step(which, dt)
            finally:
                fw.in_step = False
        fw.w.step = counted_step
        if family == "settled":
            if not build_base(rec, rng.randint(0, 3)):
                ok = False
            sc.items.append(("MARK", "ops"))
            if ok:
                cps = fam_settled(rec, rng.randint(1, 4))
                ok = all(q and trees_converged(tl, tr, flavour.endswith("-ci")) for (q, tl, tr) in cps)
        elif family == "onesided":
            side = rng.randint(0, 1)
            sc.origin = side
            if not build_base(rec, rng.randint(0, 3), side=rng.randint(0, 1)):
                ok = False
            sc.items.append(("MARK", "ops"))
            if ok:
                if flavour in OID_LOCAL and rng.random() < 0.6:
                    r = fam_onesided(rec, rng.randint(1, 5), side, kinds=["create", "write", "write", "delete", "rename", "move"])
                    ok = r["quiet"]
                else:
                    for _ in range(rng.randint(1, 4)):
                        rec.random_op(side)
                        ok = rec.quiesce() and ok
        elif family == "conflict":
            if not build_base(rec, rng.randint(0, 3)):
                ok = False
            sc.items.append(("MARK", "ops"))
            if ok:
                r = fam_conflict(rec, rng.randint(1, 5))
                ok = r["quiet"]
        else:
            raise HarnessError("unknown family " + family)
    finally:
        fw.close()
    if not ok:
        return None
    # the baseline the fault indexes refer to: a fault-free REPLAY of the script (identical to every faulted replay up to
    # its first fault)
    fw = FaultWorld(flavour, storage, hash2=sc.hash2)
    try:
        rp = Replay(fw, sc, replay_seed(seed))
        rp.run()
        n, sigs = fw.n, list(fw.sigs)
    finally:
        fw.close()
    return sc, n, sigs


def choose_indexes(sigs, n, rng, tier, per_sig=1):
    """systematic sample: for every distinct (side, method, site, caller) signature its first occurrence and one random
    other occurrence; thorough: every index"""
    if tier == "thorough":
        return list(range(n))
    by = {}
    for (k, side, m, site, caller) in sigs:
        by.setdefault((side, m, site, caller), []).append(k)
    out = set()
    for ks in by.values():
        out.add(ks[0])
        for _ in range(per_sig):
            out.add(rng.choice(ks))
    return sorted(out)


def judge_lines(fw, rp, script, fold):
    """the monitor lines for one finished run: (c10 lines, monitor lines)"""
    c10, mon = [], []
    for i, st in enumerate(fw.steps):
        esc = wire_cls(st.escaped)
        if st.faults:
            f = st.faults[0]
            c10.append(("fault %s %s %s %s" % ("S" if f.site == "S" else f.site, f.kind, esc, " ".join(st.notes)), "fault %s" % f.brief()))
        else:
            if esc != "none" and esc != "_BackoffError":
                if st.known_site is not None and st.known_site is st.escaped and st.which == "S":
                    fw.known_site_escapes += 1      # the known finding's call site (identified by site + what escaped)
                    continue
                c10.append(("esc %s" % esc, "step %d (%s)" % (i, st.which)))
    # one summarising line for all quiet steps (keeps the driver traffic small)
    c10.append(("esc none", "steps without escape"))
    tl, tr = fw.w.tree(0), fw.w.tree(1)
    mon.append(("c01 | %s | %s" % (enc_tree(tl, fold), enc_tree(tr, fold)), "convergence"))
    mon.append(("c02 | %s | %s | %s" % (" ".join(rp.ledger), enc_tree(tl), enc_tree(tr)), "no loss"))
    if script.origin is not None and rp.base is not None:
        ops = [_fold_op(o, fold) for o in rp.ops if o[0] == script.origin]
        mon.append(("c04 | %s | %s | | %s | %s" % (enc_tree(rp.base, fold), " ".join(op_token(o) for o in ops),
                                                 enc_tree(tl, fold), enc_tree(tr, fold)), "fault-free outcome (one-sided)"))
    return c10, mon


def _fold_op(o, fold):
    """on case-insensitive accounts trees are compared with folded names: fold the operations' paths alike"""
    if not fold:
        return o
    return tuple(x.lower() if isinstance(x, str) and x.startswith("/") else x for x in o)


def summary(fw, rp, script, plan, extra=None):
    d = {"flavour": script.flavour, "family": script.family, "storage": script.storage, "different_hash_functions": script.hash2, "script": script.brief()[-160:],
         "fault_plan": {str(k): list(v) for k, v in plan.items()}, "injected": [f.brief() for f in fw.injected],
         "loop_mode": fw.loop_mode,
         "steps_with_escape": [(i, s.which, wire_cls(s.escaped), s.notes) for i, s in enumerate(fw.steps)
                               if s.escaped is not None or s.notes][-30:],
         "left": tree_lines(fw.w.tree(0)), "right": tree_lines(fw.w.tree(1)), "ledger": list(rp.ledger) if rp else None}
    if extra:
        d.update(extra)
    d["replay"] = {"script": script.to_json(), "plan": {str(k): list(v) for k, v in plan.items()}, "loop_mode": fw.loop_mode,
                   "edit_mode": d.get("edit_after_fault"), "replay_seed": rp.seed if rp else None,
                   "how": "./check C10 --replay <this file> re-runs exactly this script and fault plan on the real engine"}
    return d


class Judge:
    """collects obligation lines of many runs, sends them to Lean in two batches, maps rejects back to runs"""
    def __init__(self):
        self.c10, self.mon, self.hard = [], [], []
        self.runs = 0
        self.stats = {"faults_injected": 0, "by_kind": {}, "by_site": {}, "by_method": {}, "runs_two_faults": 0,
                      "not_reached": 0, "loop_mode_runs": 0, "sqlite_runs": 0, "extra_edits": 0,
                      "known_finding_site_escapes": 0, "excluded_scripts_folder_rename_path_id": 0, "child_lookup_site_failures": 0}

    def add_run(self, fw, rp, script, plan, fold, extra=None):
        self.runs += 1
        summ = summary(fw, rp, script, plan, extra)
        st = self.stats
        st["faults_injected"] += len(fw.injected)
        st["not_reached"] += len([1 for k in fw.plan])
        st["armed_never_raised"] = st.get("armed_never_raised", 0) + len(fw.armed)
        st["runs_two_faults"] += 1 if len(fw.injected) > 1 else 0
        st["loop_mode_runs"] += 1 if fw.loop_mode else 0
        st["sqlite_runs"] += 1 if script.storage == "sqlite" else 0
        st["different_hash_runs"] = st.get("different_hash_runs", 0) + (1 if script.hash2 else 0)
        for f in fw.injected:
            st["by_kind"][f.kind] = st["by_kind"].get(f.kind, 0) + 1
            st["by_site"][f.site] = st["by_site"].get(f.site, 0) + 1
            st["by_method"][f.method] = st["by_method"].get(f.method, 0) + 1
        if not rp.quiet:
            self.hard.append(dict(summ, failure="engine did not go quiet within the step cap after the faults stopped"))
            return
        for t in fw.trouble:
            self.hard.append(dict(summ, failure=t))
        c10, mon = judge_lines(fw, rp, script, fold)
        st["known_finding_site_escapes"] += fw.known_site_escapes
        st["child_lookup_site_failures"] += fw.kids_site_failures
        for ln, what in c10:
            self.c10.append((ln, what, summ))
        for ln, what in mon:
            self.mon.append((ln, what, summ))

    def verdicts(self):
        rejects = []
        if self.c10:
            out = run_driver("c10", [x[0] for x in self.c10])
            for (ln, what, summ), v in zip(self.c10, out):
                if v != "ok":
                    rejects.append(dict(summ, monitor_line=ln, monitor_verdict=v, obligation=what))
        if self.mon:
            out = monitor([x[0] for x in self.mon])
            for (ln, what, summ), v in zip(self.mon, out):
                if v != "ok":
                    rejects.append(dict(summ, monitor_line=ln, monitor_verdict=v, obligation=what))
        return rejects


def edit_hook(fw, rp, rng, mode):
    """after a fault at the create/upload that follows a successful download: the user edits the same file again before
    the retry (mode: new content / empty / the content before / the same content again / delete)"""
    def hook(f):
        if f.site != "S" or f.method not in ("create", "upload"):
            return
        w = fw.w
        src = 1 - f.side
        if f.method == "create":
            path = f.target
        else:
            o = w.provs[f.side]._mock_fs.get(f.target)
            path = o.path if o is not None else None
        if not path:
            return
        root = w.roots[f.side]
        if not path.lower().startswith(root.lower()):
            return
        rel = path[len(root):]
        t = w.tree(src)
        key = next((k for k in t if k == rel or (k.lower() == rel.lower() and not w.provs[src].case_sensitive)), None)
        if key is None or t[key][0] != "f":
            return
        cur = t[key][1]
        if mode == "new":
            data = content(900 + len(rp.extra_edits))
        elif mode == "empty":
            data = b""
        elif mode == "same":
            data = cur
        elif mode == "before":
            other = w.tree(f.side)
            k2 = next((k for k in other if k.lower() == rel.lower()), None)
            data = other[k2][1] if k2 is not None and other[k2][0] == "f" else content(950)
        elif mode == "delete":
            if rp.user(src, "delete", (key,), None):
                rp.extra_edits.append((src, "delete", key))
            return
        else:
            return
        if rp.user(src, "write", (key,), data):
            rp.extra_edits.append((src, "write", key, data.decode("latin1")))
    return hook


def faulted_runs(judge, tier, seed, budget):
    """3b: the reliable families x flavours, faults at sampled/all indexes; returns the number of scripts"""
    kinds_cycle = list(FAULT_KINDS)
    scripts = 0
    n_hist = int(os.environ.get("C10_NHIST", {"quick": 4, "thorough": 12}[tier]))
    families = [("settled", ALL), ("onesided", ALL), ("conflict", ALL)]
    rngm = rng_for(seed, "c10-faulted")
    keys = set()
    for i in range(n_hist):
        for fam, flavours in families:
            for fl in flavours:
                if budget.exhausted():
                    return scripts, keys
                storage = "sqlite" if rngm.random() < 0.12 else "mock"
                made = make_script(fl, fam, seed, "%s-%d" % (fam, i), storage)
                if made is None:
                    judge.hard.append({"flavour": fl, "family": fam, "failure": "fault-free run of a reliable family did not converge (generator)"})
                    continue
                sc, n, sigs = made
                if sc.dir_rename_with_kids and (FLAVOURS[fl][0][0] or FLAVOURS[fl][1][0]):
                    # syntactic exclusion (known findings folder-rename-child-lookup-*): renaming a non-empty folder makes
                    # SyncState._update_kids look every child up online on a path-id provider; a fault there is replayed
                    # exactly instead (replay_known)
                    judge.stats["excluded_scripts_folder_rename_path_id"] += 1
                    continue
                scripts += 1
                fold = fl.endswith("-ci")
                idx = choose_indexes(sigs, n, rngm, tier)
                if tier == "quick":
                    rngm.shuffle(idx)
                    idx = idx[:int(os.environ.get("C10_IDXCAP", 10))]
                for j, k in enumerate(idx):
                    klist = FAULT_KINDS if tier == "thorough" else [kinds_cycle[(j + i) % 4]]
                    for kind in klist:
                        plan = {k: (kind, _variant(kind, sigs, k, rngm))}
                        if rngm.random() < 0.3:
                            k2 = rngm.randrange(n)
                            if k2 != k:
                                kind2 = rngm.choice(FAULT_KINDS)
                                plan[k2] = (kind2, _variant(kind2, sigs, k2, rngm))
                        run_one(judge, sc, plan, fold, seed, loop_mode=rngm.random() < 0.25,
                                edit_mode=rngm.choice([None, None, "new", "empty", "before", "same"]) if sc.origin is not None else None)
                        keys.add((fl, fam, tuple(sc.brief()), tuple(sorted(plan.items()))))
    return scripts, keys


def _variant(kind, sigs, k, rng):
    m = sigs[k][2] if k < len(sigs) else None
    if m in STREAMS and rng.random() < 0.5:
        return "mid"
    if kind == "CloudTokenError" and rng.random() < 0.5:
        return "expired"
    return None


def run_one(judge, sc, plan, fold, seed, loop_mode=False, edit_mode=None, extra=None, raw_seed=None):
    fw = FaultWorld(sc.flavour, sc.storage, loop_mode=loop_mode, hash2=sc.hash2)
    try:
        fw.plan = dict(plan)
        rp = Replay(fw, sc, raw_seed if raw_seed is not None else replay_seed(seed))
        if edit_mode:
            fw.on_fault = edit_hook(fw, rp, rp.rng, edit_mode)
        rp.run()
        judge.stats["extra_edits"] += len(rp.extra_edits)
        judge.add_run(fw, rp, sc, plan, fold, dict(extra or {}, edit_after_fault=edit_mode, extra_edits=rp.extra_edits))
        return fw, rp
    finally:
        fw.close()


# ================================================================================================ 3c. edit after fault

def edit_after_fault_runs(judge, tier, seed, budget):
    """systematic: a file is created / overwritten on one side; the engine downloads it and the create / upload on the other
    side fails with each kind; the user edits the same file again (new content, empty, previous content, same content,
    delete) before the retry; the faults stop.  The final content on both sides must be the latest edit."""
    n = 0
    rngm = rng_for(seed, "c10-eaf")
    flavours = ALL if tier == "thorough" else ALL
    modes = ["new", "empty", "before", "same", "delete"]
    for fl in flavours:
        for op in ("create", "write"):
            for side in (0, 1):
                for kind in FAULT_KINDS:
                    ms = modes if tier == "thorough" else [modes[(n + seed) % len(modes)], "new"]
                    for mode in dict.fromkeys(ms):
                        if budget.exhausted():
                            return n
                        storage = "sqlite" if (n + seed) % 9 == 0 else "mock"
                        sc = Script(fl, "edit-after-fault", storage)
                        sc.origin = side
                        sc.hash2 = (n + seed) % 3 == 0
                        first = content(1) if rngm.random() < 0.8 else b""
                        sc.items += [("U", side, "create", ("/f",), first), ("U", side, "create", ("/g",), content(2)), ("Q",), ("MARK", "ops")]
                        if op == "create":
                            sc.items += [("U", side, "create", ("/h",), content(3) if rngm.random() < 0.8 else b"")]
                        else:
                            sc.items += [("U", side, "write", ("/f",), content(3) if first else content(4))]
                        sc.items += [("Q",)]
                        # find the index of the create/upload on the other side in a fault-free run
                        fw0 = FaultWorld(fl, storage, hash2=sc.hash2)
                        try:
                            rp0 = Replay(fw0, sc, replay_seed(seed))
                            rp0.run()
                            cand = [k for (k, s, m, site, _c) in fw0.sigs if s == 1 - side and m == ("create" if op == "create" else "upload") and site == "S"]
                        finally:
                            fw0.close()
                        if not cand:
                            judge.hard.append({"flavour": fl, "family": "edit-after-fault", "failure": "no %s call found in the fault-free run" % op})
                            continue
                        k = cand[-1]
                        plan = {k: (kind, "expired" if kind == "CloudTokenError" and n % 2 else None)}
                        if tier == "thorough" or n % 3 == 0:
                            plan2 = dict(plan)
                            plan2[k + 1 + (n % 4)] = (FAULT_KINDS[(n // 3) % 4], None)   # a second fault shortly after
                        else:
                            plan2 = None
                        fw, rp = run_one(judge, sc, plan, fl.endswith("-ci"), seed, loop_mode=(n % 5 == 0), edit_mode=mode,
                                         extra={"scenario": "%s on side %d, %s at the %s on the other side, then %s" % (op, side, kind, "create" if op == "create" else "upload", mode)})
                        if not rp.extra_edits and not [f for f in fw.injected]:
                            judge.hard.append(summary(fw, rp, sc, plan, {"failure": "scenario generator: the fault was not reached"}))
                        if plan2:
                            run_one(judge, sc, plan2, fl.endswith("-ci"), seed, edit_mode=mode, extra={"scenario": "as above with a second fault"})
                        n += 1
    return n


# ================================================================================================ 3d. permanent failures

def priorities(smgr):
    return {id(e): e.priority for e in smgr.state.changes}


def permanent_runs(judge, tier, seed, budget, picks):
    """a file that keeps failing (locked on the other side / invalid name there) while other files change"""
    n = 0
    rngm = rng_for(seed, "c10-perm")
    reps = 1 if tier == "quick" else 6
    for rep in range(reps):
        for fl in ALL:
            for side in (0, 1):
                # an invalid folder name with a child inside is a known finding (replayed exactly): not generated here
                for what in ("locked-create", "locked-upload", "locked-delete", "badname-file", "badname-emptydir"):
                    if budget.exhausted():
                        return n
                    n += 1
                    _permanent_case(judge, fl, side, what, rngm, seed, picks, storage="sqlite" if (n + seed) % 11 == 0 else "mock")
    return n


def _watch_selection(fw, picks):
    """record, for every sync step, the change set (priority, newest change time) and the entry SyncState.change chose,
    for the `pick` line of the Lean layer"""
    smgr = fw.w.cs.smgr
    st = smgr.state
    orig = st.change
    ids = {}

    def ident(e):
        return ids.setdefault(id(e), len(ids) + 1)

    def watched(age):
        now = fw.w.clock.now
        got = orig(age)
        # change() may touch priorities / change times while filling in paths: read them after the call (it does not
        # modify anything after the fill-in)
        elig = []
        for e in list(st._changeset):
            ch = max(e[0].changed or 0, e[1].changed or 0)
            eligible = (e[0].changed and e[0].changed <= now - age) or (e[1].changed and e[1].changed <= now - age) or e.priority < 0
            if eligible:
                elig.append((ch, ident(e), e.priority))
        elig.sort(key=lambda x: x[0])           # stable: ties keep change-set order, as sorted() does in the code
        if elig and all(float(p * 10).is_integer() for (_c, _i, p) in elig):
            line = "pick " + " ".join("%d:%d" % (i, int(round(p * 10))) for (_c, i, p) in elig)
            picks.append((line, str(ident(got)) if got is not None else "none"))
        return got
    st.change = watched
    return lambda: st.__dict__.pop("change", None)


def _permanent_case(judge, fl, side, what, rng, seed, picks, storage="mock"):
    fold = fl.endswith("-ci")
    other = 1 - side
    sc = Script(fl, "permanent-" + what, storage)
    sc.origin = side
    sc.hash2 = rng.random() < 0.25
    fw = FaultWorld(fl, storage, loop_mode=rng.random() < 0.3, hash2=sc.hash2)
    rp = Replay(fw, sc, replay_seed(seed))
    w = fw.w
    unwatch = _watch_selection(fw, picks)
    fail = None
    try:
        def U(kind, *rels, data=None):
            sc.items.append(("U", side, kind, tuple(rels), data))
            return rp.user(side, kind, tuple(rels), data)
        bad = "/x#y" if what.startswith("badname") else "/x"
        U("create", "/k1", data=content(1))
        U("mkdir", "/dir")
        if what in ("locked-upload", "locked-delete"):
            U("create", "/x", data=content(2))
        if not fw.quiesce(rp.rng):
            fail = "base did not go quiet"
        rp.base = w.tree(side)
        rp.ops = []
        oroot = w.roots[other]
        if what.startswith("locked"):
            w.provs[other]._locked_for_test.add(oroot + "/x")
        else:
            w.provs[other]._forbidden_chars = ["#"]
        # the failing change plus unrelated ones
        if what == "locked-create":
            U("create", "/x", data=content(10))
        elif what == "locked-upload":
            U("write", "/x", data=content(10))
        elif what == "locked-delete":
            U("delete", "/x")
        elif what == "badname-file":
            U("create", bad, data=content(10))
        else:
            U("mkdir", bad)
        U("create", "/dir/k2", data=content(12))
        U("write", "/k1", data=content(13))
        U("create", "/k3", data=b"" if rng.random() < 0.3 else content(14))
        first_note = None
        others_done_at = None
        want_kind = "TEMPORARY_ERROR" if what.startswith("locked") else "FILE_NAME_ERROR"
        want_src = "SYNC" if what.startswith("locked") else ("LOCAL", "REMOTE")[other]
        nsteps = 0
        for rnd in range(80):
            seq = list("LRS")
            rp.rng.shuffle(seq)
            for x in seq:
                st = fw.step(x)
                nsteps += 1
                if first_note is None and ("%s:%s" % (want_src, want_kind)) in st.notes:
                    first_note = nsteps
            t_o = w.tree(other)
            exp = {k: v for k, v in w.tree(side).items() if not (k == bad or k.startswith(bad + "/") or k == "/x")}
            got = {k: v for k, v in t_o.items() if not (k == "/x" or k.startswith(bad))}
            if others_done_at is None and _same(exp, got, fold):
                others_done_at = nsteps
            if others_done_at is not None and first_note is not None and rnd >= 12:
                break
        if fail is None and others_done_at is None:
            fail = "the failing file stopped the other files from synchronising (not mirrored within %d steps)" % nsteps
        if fail is None and first_note is None:
            fail = "the failing file was not reported (%s from %s never delivered in %d steps)" % (want_kind, want_src, nsteps)
        if what.startswith("badname") and fail is None:
            # set aside: the engine goes quiet although the file cannot be synchronised
            if not fw.quiesce(rp.rng, cap=300):
                fail = "the engine does not go quiet with an invalid name set aside"
        # it stops failing
        if what.startswith("locked"):
            w.provs[other]._locked_for_test.clear()
        else:
            if what == "badname-file":
                U("rename", bad, "/xy")
            else:
                U("rename", bad, "/xy")
        sc.items.append(("Q",))
        fw.stopped = True
        rp.quiet = fw.quiesce(rp.rng, cap=900)
        extra = {"scenario": "%s on side %d; others mirrored after %s steps; first report after %s steps" % (what, side, others_done_at, first_note)}
        if fail:
            judge.hard.append(summary(fw, rp, sc, {}, dict(extra, failure=fail)))
        judge.add_run(fw, rp, sc, {}, fold, extra)
    finally:
        unwatch()
        fw.close()


def _same(a, b, fold):
    def norm(t):
        return {(k.lower() if fold else k): v for k, v in t.items() if not conflicted(k)}
    return norm(a) == norm(b)


# ================================================================================================ 2. known finding

def _round_robin(fw, rounds=60):
    quiet = 0
    for _ in range(rounds):
        for x in "LRS":
            fw.step(x)
        if not fw.busy():
            quiet += 1
            if quiet >= 2:
                return True
        else:
            quiet = 0
    return False


def _replay_change_lookup():
    """flavour oid-oid; steps L, R (initial walks); user creates /a on the local side; step L (the event has no path);
    then a sync step in which the first provider call issued from SyncState.change (info_oid, path fill-in) raises
    CloudTemporaryError"""
    fw = FaultWorld("oid-oid")
    try:
        w = fw.w
        fw.step("L")                       # initial walks
        fw.step("R")
        w.user(0, "create", "/local/a", b"v1")
        fw.step("L")                       # the create event of an id-style provider carries no path
        fw.force_site = ("C", "CloudTemporaryError")
        st = fw.step("S")
        hit = fw.forced is not None and st.escaped is not None and st.escaped.__name__ == "CloudTemporaryError" \
            and not any("TEMPORARY_ERROR" in n for n in st.notes)
        fw.stopped = True
        conv = _round_robin(fw) and trees_converged(w.tree(0), w.tree(1))
        model = run_driver("c10", ["change CloudTemporaryError"])[0]
        return hit, {"forced_at": fw.forced, "escaped": wire_cls(st.escaped), "notes": st.notes, "converged_afterwards": conv, "model": model}
    finally:
        fw.close()


def _replay_child_lookup(variant):
    """flavour path-path; local: mkdir /c, create /c/d; round-robin LRS to quiet; remote user renames /c -> /a; the first
    provider call issued from SyncState._update_kids (info_path of the child) raises CloudTemporaryError — variant 'intake':
    while the remote rename event is taken in; variant 'peer': in the sync step, after the engine renamed the local folder;
    round-robin to quiet; remote user deletes /a/d; round-robin to quiet: the sides differ for good"""
    fw = FaultWorld("path-path")
    try:
        w = fw.w
        w.user(0, "mkdir", "/local/c")
        w.user(0, "create", "/local/c/d", b"v1")
        q0 = _round_robin(fw)
        w.user(1, "rename", "/remote/c", "/remote/a")
        fw.force_site = ("K", "CloudTemporaryError", "LR" if variant == "intake" else "S")
        q1 = _round_robin(fw)
        reported = any(n.endswith("TEMPORARY_ERROR") for s in fw.steps for n in s.notes)
        w.user(1, "delete", "/remote/a/d")
        q2 = _round_robin(fw)
        tl, tr = w.tree(0), w.tree(1)
        hit = fw.forced is not None and q0 and q1 and q2 and not trees_converged(tl, tr)
        return hit, {"forced_at": fw.forced, "reported": reported, "quiet": [q0, q1, q2], "left": tree_lines(tl), "right": tree_lines(tr)}
    finally:
        fw.close()


def _replay_badname_child():
    """flavour oid-oid; the remote provider forbids '#'; local: mkdir /x#y, create /x#y/in; round-robin to quiet (both are
    reported and set aside); local user renames /x#y -> /xy; round-robin to quiet: the folder arrives, the file never does"""
    fw = FaultWorld("oid-oid")
    try:
        w = fw.w
        w.provs[1]._forbidden_chars = ["#"]
        w.user(0, "mkdir", "/local/x#y")
        w.user(0, "create", "/local/x#y/in", b"v1")
        q0 = _round_robin(fw)
        reported = any(n == "REMOTE:FILE_NAME_ERROR" for s in fw.steps for n in s.notes)
        w.user(0, "rename", "/local/x#y", "/local/xy")
        q1 = _round_robin(fw)
        tl, tr = w.tree(0), w.tree(1)
        hit = q0 and q1 and reported and "/xy/in" in tl and "/xy" in tr and "/xy/in" not in tr
        return hit, {"reported": reported, "quiet": [q0, q1], "left": tree_lines(tl), "right": tree_lines(tr)}
    finally:
        fw.close()


KNOWN = {
    "fault-in-change-lookup-unreported": _replay_change_lookup,
    "folder-rename-child-lookup-fault-in-intake": lambda: _replay_child_lookup("intake"),
    "folder-rename-child-lookup-fault-after-peer-rename": lambda: _replay_child_lookup("peer"),
    "invalid-name-folder-child-not-revived": _replay_badname_child,
}


def replay_known(res):
    """exact deterministic replays of the shapes on which the pinned engine itself violates C10"""
    opens, fixed = load_known_findings(PID)
    details = {}
    for ident, fn in KNOWN.items():
        hit, detail = fn()
        details[ident] = dict(detail, reproduces=hit)
        if ident in opens:
            if hit:
                res.known.append("%s :: %s" % (ident, opens[ident]))
            else:
                res.notes.append("known finding %s no longer reproduces (stale): %r" % (ident, detail))
        elif ident in fixed:
            if hit:
                res.violation({"property": PID, "kind": "regression of fixed finding", "id": ident, "detail": detail})
        else:
            res.notes.append("finding %s is not listed in known_findings.txt; replay says reproduces=%s" % (ident, hit))
    if not details["fault-in-change-lookup-unreported"].get("converged_afterwards"):
        res.violation({"property": PID, "kind": "after the unreported lookup fault the engine no longer converges",
                       "detail": details["fault-in-change-lookup-unreported"]})
    res.coverage["known_finding_replays"] = details


# ================================================================================================ 4. oracle

def oracle():
    """C10's own statements about classification, evaluated on the implementation; returns a failing case or None"""
    import_repo()
    import cloudsync.exceptions as ex
    pr = _Probe()
    try:
        for name, kind in MATCHING.items():
            cls = getattr(ex, name, None)
            if cls is None:
                return {"statement": "the exception class %s exists" % name}
            out = pr.sync_one(("raised", cls))
            f = dict(x.split("=") for x in out.split())
            if kind not in f["notes"].split(",") or f["raised"] != "_BackoffError" or f["punts"] != "1":
                return {"statement": "a %s raised while an entry is synchronised is reported as %s from SYNC, the entry is punted once and only "
                                     "the backoff request leaves the step" % (name, kind), "input": "SyncManager._sync_one_entry with pre_sync raising %s" % name,
                        "observed": out}
            if name == "CloudFileNameError":
                continue
            for where in ("events", "reconnect"):
                out = pr.event(cls, True, where)
                f = dict(x.split("=") for x in out.split())
                if kind not in f["notes"].split(",") or f["raised"] != "_BackoffError":
                    return {"statement": "a %s raised during event intake is reported as %s from that side and only the backoff request leaves the step" % (name, kind),
                            "input": "EventManager.do (remote side) with provider.%s raising %s" % (where, name), "observed": out}
        for name in ("CloudTokenError", "CloudCursorError", "CloudException", "CloudFileNotFoundError", "ValueError"):
            cls = getattr(ex, name, None) or ValueError
            out = pr.sync_one(("raised", cls))
            f = dict(x.split("=") for x in out.split())
            if f["raised"] != "_BackoffError" or f["punts"] != "1":
                return {"statement": "no Exception escapes a sync step; the failing entry is punted", "input": "pre_sync raising %s" % name, "observed": out}
        for c in (ex.CloudTemporaryError, ex.CloudTokenError, ValueError, KeyboardInterrupt):
            if real_loop(c, False) != "I":
                return {"statement": "the service loop survives %s and backs off" % c.__name__, "observed": real_loop(c, False)}
    finally:
        pr.close()
    return None


# ================================================================================================ main

class Budget:
    def __init__(self, seconds):
        import time
        self.t_end = time.time() + seconds
        self.hit = False

    def exhausted(self):
        import time
        if time.time() > self.t_end:
            self.hit = True
        return self.hit


def run_replay(res, path):
    """--replay <file>: re-run the recorded script + fault plan of a reported violation on the real engine"""
    import json
    with open(path) as f:
        d = json.load(f)
    r = d.get("replay")
    if not r or not r.get("script") or r["script"].get("family", "").startswith("permanent"):
        res.notes.append("replay file has no re-runnable script (scenario replays are re-generated by the normal run)")
        return
    sc = Script.from_json(r["script"])
    plan = {int(k): tuple(v) for k, v in r["plan"].items()}
    judge = Judge()
    run_one(judge, sc, plan, sc.flavour.endswith("-ci"), 0, loop_mode=bool(r.get("loop_mode")), edit_mode=r.get("edit_mode"),
            raw_seed=r.get("replay_seed"))
    rejects = judge.verdicts()
    res.coverage.update({"evaluations": len(judge.c10) + len(judge.mon), "programs": 1, "distinct_nontrivial": 1, "rule": "replay of one recorded run",
                         "samples": [], "disagreements_checked": len(rejects) + len(judge.hard), "fingerprints": fingerprints(FP_SPEC)})
    for x in (rejects + judge.hard)[:3]:
        res.violation(dict(x, property=PID))


def run(res, tier, seed, proof_broken, replay):
    if replay:
        return run_replay(res, replay)
    import time
    broken = list(proof_broken)
    tm = {}
    t0 = time.time()
    # 1. the generated table
    broken += table_tie(res)
    tm["table_tie_s"] = round(time.time() - t0, 1)
    t0 = time.time()
    # 2. known finding
    replay_known(res)
    tm["known_replays_s"] = round(time.time() - t0, 1)
    t0 = time.time()
    # 3a. differential
    lines, real, dis, dist = differential()
    tm["differential_s"] = round(time.time() - t0, 1)
    if dis:
        broken.append("correspondence classifier-layer: %r" % dis[0])
    # 3b-d. engine runs
    judge = Judge()
    picks = []
    total = int(os.environ.get("C10_BUDGET_S", 24 if tier == "quick" else 780))
    t_start = time.time()
    b2 = Budget(total * 0.25)
    n_eaf = edit_after_fault_runs(judge, tier, seed, b2)
    b3 = Budget(total * 0.25)
    n_perm = permanent_runs(judge, tier, seed, b3, picks)
    b1 = Budget(max(total * 0.5, total - (time.time() - t_start)))     # the random families get whatever is left
    n_scripts, keys = faulted_runs(judge, tier, seed, b1)
    tm["engine_runs_s"] = round(time.time() - t_start, 1)
    t0 = time.time()
    rejects = judge.verdicts()
    tm["lean_monitors_s"] = round(time.time() - t0, 1)
    pick_dis = []
    if picks:
        uniq = list(dict.fromkeys(picks))
        out = run_driver("c10", [p[0] for p in uniq])
        pick_dis = [{"layer": "selection", "line": ln, "real": r, "model": m} for (ln, r), m in zip(uniq, out) if r != m]
        if pick_dis:
            broken.append("correspondence selection-layer (SyncState.change vs pick): %r" % pick_dis[0])
    res.coverage.update({
        "evaluations": len(lines) + len(judge.c10) + len(judge.mon) + len(picks),
        "programs": judge.runs + len(lines),
        "distinct_nontrivial": len(keys) + n_eaf + n_perm + len(set(lines)),
        "rule": "classifier: every exception class of cloudsync.exceptions + Exception/BaseException/_BackoffError/ValueError/KeyboardInterrupt through "
                "issubclass (all pairs), notify_from_exception, _sync_one_entry (raise + 4 return cases), _validate_provider_roots, SyncManager.do with "
                "state.change raising, EventManager.do (events()/reconnect raising; with/without notification manager), Runnable.run; engine: histories of "
                "the families settled / one-sided / two-sided file conflict on 8 provider flavours (dict and sqlite storage), fault-free run counts the "
                "engine-issued provider calls, re-run with 1-2 faults (4 kinds; events() also mid-stream; token with/without lost connection) at "
                "sampled (quick: one per distinct (side, method, site, caller) signature, capped) or all (thorough) call indexes, optional user re-edit after "
                "a failed create/upload, a quarter of the runs stepped through Runnable.run; plus the systematic edit-after-fault scenarios and "
                "permanently failing files; non-trivial = at least one fault injected or a permanent failure; distinct by (flavour, family, script, plan)",
        "samples": [{"classifier_line": lines[5], "real": real[5]},
                    {"fault_line": judge.c10[0][0] if judge.c10 else None, "run": judge.c10[0][2] if judge.c10 else None},
                    {"pick_line": picks[0] if picks else None}],
        "disagreements_checked": len(dis) + len(pick_dis) + len(rejects) + len(judge.hard),
        "traces_validated_against_impl": judge.runs,
        "classifier_lines": dist, "scripts": n_scripts, "edit_after_fault_scenarios": n_eaf, "permanent_failure_scenarios": n_perm,
        "selection_lines": len(picks), "fault_distribution": judge.stats, "timings": tm,
        "budget_exhausted": {"faulted": b1.hit, "edit_after_fault": b2.hit, "permanent": b3.hit},
        "fingerprints": fingerprints(dict(FP_SPEC, **{"cloudsync/exceptions.py": []})),
    })
    res.assumptions += [
        "step-atomic engine semantics: user operations and faults interleave between, not inside, provider calls; a fault is raised before the k-th "
        "engine-issued top-level provider call (events(): optionally after the first delivered event)",
        "harness determinisation (sequential ids, virtual clock, insertion-ordered sets) selects one admissible behaviour of the real program",
        "histories are restricted to families/flavours on which the pinned engine was measured reliable, and no fault is injected into the path lookup of "
        "SyncState.change (known finding, replayed exactly instead)",
        "the Lean theorems are about the classification model and the abstract work queue; convergence after faults is tied by sampled runs (partial)",
        "backoff sleeps are not waited for (managers are stepped directly; a quarter of the runs go through one iteration of Runnable.run per step)"]
    for r in rejects[:3]:
        r = dict(r)
        r["property"] = PID
        res.violation(r)
    for h in judge.hard[:3]:
        h = dict(h)
        h["property"] = PID
        res.violation(h)
    if broken and not rejects and not judge.hard:
        hit = oracle()
        if hit:
            res.violation({"property": PID, "kind": "statement fails on implementation", "failing": hit, "broken": broken})
        else:
            res.violation({"property": PID, "kind": "proof obligation, generated table or correspondence no longer checks", "broken": broken,
                           "first_disagreements": (dis + pick_dis)[:3]}, no_input=True)


if __name__ == "__main__":
    standard_main(PID, run)
